from recipe_grid.compiler import compile
from recipe_grid.lint import check
from recipe_grid.renderer.html import render_recipe_tree
from fractions import Fraction as F
import random
# C20 boundary flip under scaling
rnd = random.Random(3)
found = 0
for i in range(200000):
    tot = rnd.choice([10, 20, 50, 100, 7, 30]) / rnd.choice([1, 10])
    a = round(tot * 0.49, 3); b = round(tot*0.98 - a, 3)
    src = f"{tot} g x\nf({a} g x, {b} g x)"
    try:
        r = compile([src])
    except Exception as e:
        continue
    base = [l.kind.name for l in check(r)]
    for k in (2, 3, F(1,3), 7, 0.5, F(2,7), 10):
        v = [l.kind.name for l in check([x.scale(k) for x in r])]
        if v != base:
            found += 1
            if found <= 3: print("FLIP", repr(src), k, base, v)
            break
    if found >= 3: break
print("found", found, "after", i+1)
# D trailing space loss
t = compile(['1 kg "flour "\n1 "sugar "\nf(flour , sugar )'])
html = render_recipe_tree(compile(['1 kg "flour "'])[0].recipe_trees[0])
print(repr(html[-40:]))
html = render_recipe_tree(compile(['1 "sugar "'])[0].recipe_trees[0])
print(repr(html[-40:]))
