"""Design probe for C14/C15/C17: model of the page set and of every page's links vs the real generator."""
import os, random, shutil, sys, tempfile
from pathlib import Path
from html.parser import HTMLParser
from urllib.parse import quote, unquote
from recipe_grid.static_site.website import generate_static_site
from recipe_grid.static_site.recipe_directory import dirname_to_title

class L(HTMLParser):
    def __init__(s): super().__init__(); s.links = []
    def handle_starttag(s, tag, attrs):
        for k, v in attrs:
            if k in ("href", "src") and v is not None: s.links.append(v)

def relative(f, t):
    fp = f.split("/")[:-1]; tp = t.split("/")
    common = 0
    for a, b in zip(fp, tp):
        if a != b: break
        common += 1
    return "/".join([".."] * (len(fp) - common) + tp[common:])

# source tree: Dir = dict(name, readme_title or None, recipes=[(file, title, servings|None, links)], subdirs=[Dir])
def gen_tree(rnd, depth, names):
    d = dict(name=rnd.choice(names) + str(rnd.randint(0, 99)), readme=rnd.choice([None, None, "Cat " + str(rnd.randint(0, 9))]), recipes=[], subdirs=[])
    used = set()
    for i in range(rnd.randint(0, 3)):
        fn = rnd.choice(names) + str(i)
        serv = rnd.choice([None, 1, 2, 3])
        d["recipes"].append(dict(file=fn + ".md", title="R " + rnd.choice("abc") + str(rnd.randint(0, 99)), servings=serv, links=[]))
    if depth > 0:
        seen = set()
        for i in range(rnd.randint(0, 3)):
            sd = gen_tree(rnd, depth - 1, names)
            if sd["name"] in seen: continue
            seen.add(sd["name"]); d["subdirs"].append(sd)
    return d

def write_tree(d, path, root=True):
    path.mkdir(parents=True, exist_ok=True)
    if d["readme"] is not None: (path / "README.md").write_text(f"# {d['readme']}\n\nhello\n")
    for r in d["recipes"]:
        t = r["title"] + (f" for {r['servings']}" if r["servings"] else "")
        body = f"# {t}\n\n    1 x\n\n" + "\n".join(f"[l{i}]({u})" for i, u in enumerate(r["links"])) + "\n"
        (path / r["file"]).write_text(body)
    for s in d["subdirs"]: write_tree(s, path / s["name"], False)

def dir_title(d, rootname=None):
    return d["readme"] if d["readme"] is not None else dirname_to_title(rootname or d["name"])

def model(tree, M, rootname):
    """returns {path: sorted(list of hrefs)} for html pages, plus '/css/style.css'"""
    pages = {}
    CSS = "/css/style.css"
    site = dir_title(tree, rootname)
    def breadcrumbs(chain, frm):  # chain of (title, path)
        return [relative(frm, p) for (_, p) in chain]
    home = "/index.html"
    home_chain = [(site, home)]
    pages[home] = [relative(home, CSS)] + [relative(home, f"/serves{n}/index.html") for n in range(1, M + 1)] + [relative(home, "/categories/index.html")]
    # recipe page paths at native scaling, needed for unscaled categories
    def cat(d, servings, parent_path, chain, is_root):
        seg = (f"serves{servings}" if servings is not None else "categories") if is_root else d["name"]
        path = "/".join(parent_path.split("/")[:-1]) + "/" + seg + "/index.html"
        title = (f"Recipes for {servings}" if servings is not None else "Categories") if is_root else dir_title(d)
        mychain = chain + [(title, path)]
        links = breadcrumbs(mychain, path) + [relative(path, CSS)]
        subs = []
        for s in d["subdirs"]:
            sp, st = cat(s, servings, path, mychain, False)
            subs.append((st, sp))
        subs.sort(key=lambda x: x[0])   # NB ties: listing order (stable)
        recs = []
        for r in d["recipes"]:
            stem = r["file"].rpartition(".")[0]
            if r["servings"] is None:
                rp = "/".join(path.split("/")[:-1]).replace(f"/serves{servings}", "/categories", 1) if servings is not None else "/".join(path.split("/")[:-1])
                rp = rp + "/" + stem + ".html"
                # unscaled page: parent = unscaled category; breadcrumbs through /categories chain
                if servings is None:
                    pages[rp] = breadcrumbs(mychain + [(r["title"], rp)], rp) + [relative(rp, CSS)]
            else:
                n = servings if servings is not None else r["servings"]
                base = "/".join(path.split("/")[:-1])
                if servings is None: base = base.replace("/categories", f"/serves{n}", 1)
                rp = base + "/" + stem + ".html"
                if servings is not None:
                    rchain = mychain + [(r["title"], rp)]
                    lk = breadcrumbs(rchain, rp) + [relative(rp, CSS)]
                    # serving menu: '#' current + one link per scaling 1..M ; rescaled-from link if n != native
                    lk += ["#"] + [relative(rp, base.replace(f"/serves{servings}", f"/serves{m}", 1) + "/" + stem + ".html") for m in range(1, M + 1)]
                    if servings != r["servings"]:
                        lk += [relative(rp, base.replace(f"/serves{servings}", f"/serves{r['servings']}", 1) + "/" + stem + ".html")]
                    pages[rp] = lk
            recs.append((r["title"], rp))
        recs.sort(key=lambda x: x[0])
        links += [relative(path, p) for _, p in subs] + [relative(path, p) for _, p in recs]
        pages[path] = links
        return path, title
    for n in range(1, M + 1): cat(tree, n, home, home_chain, True)
    cat(tree, None, home, home_chain, True)
    return pages

rnd = random.Random(int(sys.argv[1]) if len(sys.argv) > 1 else 0)
names = ["pasta", "a b", "Mains", "é", "x_y", "q"]
ok = bad = errs = 0; ek = {}
for it in range(int(sys.argv[2]) if len(sys.argv) > 2 else 40):
    tree = gen_tree(rnd, rnd.randint(0, 3), names)
    M = rnd.randint(1, 4)
    d = Path(tempfile.mkdtemp(prefix="rgsite")); src = d / "my_site"; out = d / "out"
    write_tree(tree, src)
    try:
        try:
            generate_static_site(src, out, M)
        except Exception as e:
            errs += 1; ek[type(e).__name__] = ek.get(type(e).__name__, 0) + 1; continue
        real = {}
        for p in out.rglob("*.html"):
            l = L(); l.feed(p.read_text()); real["/" + str(p.relative_to(out))] = sorted(unquote(x) for x in l.links)
        mod = {k: sorted(v) for k, v in model(tree, M, "my_site").items()}
        if real == mod and (out / "css/style.css").is_file(): ok += 1
        else:
            bad += 1
            if bad <= 2:
                print("MISMATCH M", M); print(" only real", sorted(set(real) - set(mod))[:5]); print(" only model", sorted(set(mod) - set(real))[:5])
                for k in real:
                    if k in mod and real[k] != mod[k]: print("  page", k, "\n   real", real[k], "\n   mod ", mod[k]); break
    finally:
        shutil.rmtree(d)
print("ok", ok, "bad", bad, "errors(raised)", errs, ek)
