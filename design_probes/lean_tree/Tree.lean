structure Q where
  v : Int
  u : Option String
deriving DecidableEq, Repr

inductive Amount | qty (q : Q) | prop (v : Option Int)
deriving DecidableEq, Repr

inductive Tree where
  | ingredient (d : String) (q : Option Q)
  | step (d : String) (inputs : List Tree)
  | reference (sub : Tree) (idx : Nat) (amount : Amount)
  | sub (body : Tree) (names : List String) (showNames : Bool)
deriving Repr

-- decidable equality for the nested inductive
mutual
def Tree.beq : Tree → Tree → Bool
  | .ingredient d q, .ingredient d' q' => d == d' && q == q'
  | .step d i, .step d' i' => d == d' && Tree.beqList i i'
  | .reference s n a, .reference s' n' a' => Tree.beq s s' && n == n' && a == a'
  | .sub b ns sh, .sub b' ns' sh' => Tree.beq b b' && ns == ns' && sh == sh'
  | _, _ => false
def Tree.beqList : List Tree → List Tree → Bool
  | [], [] => true
  | a :: as, b :: bs => Tree.beq a b && Tree.beqList as bs
  | _, _ => false
end
instance : BEq Tree := ⟨Tree.beq⟩

mutual
theorem Tree.beq_eq : ∀ a b : Tree, Tree.beq a b = true ↔ a = b
  | .ingredient d q, b => by cases b <;> simp [Tree.beq]
  | .step d i, b => by
    cases b <;> simp [Tree.beq]
    rename_i d' i'; intro _; exact Tree.beqList_eq i i'
  | .reference s n a, b => by
    cases b <;> simp [Tree.beq]
    rename_i s' n' a'; rw [Tree.beq_eq s s']; simp [and_assoc]
  | .sub bd ns sh, b => by
    cases b <;> simp [Tree.beq]
    rename_i b' ns' sh'; rw [Tree.beq_eq bd b']; simp [and_assoc]
theorem Tree.beqList_eq : ∀ a b : List Tree, Tree.beqList a b = true ↔ a = b
  | [], b => by cases b <;> simp [Tree.beqList]
  | x :: xs, b => by
    cases b <;> simp [Tree.beqList]
    rename_i y ys; rw [Tree.beq_eq x y, Tree.beqList_eq xs ys]
end

mutual
def Tree.subst (old new : Tree) : Tree → Tree
  | t@(.ingredient ..) => if t == old then new else t
  | t@(.step d i) => if t == old then new else .step d (Tree.substList old new i)
  | t@(.reference s n a) => if t == old then new else .reference (Tree.subst old new s) n a
  | t@(.sub b ns sh) => if t == old then new else .sub (Tree.subst old new b) ns sh
def Tree.substList (old new : Tree) : List Tree → List Tree
  | [] => []
  | t :: ts => Tree.subst old new t :: Tree.substList old new ts
end

#eval Tree.subst (.ingredient "a" none) (.ingredient "b" none) (.step "f" [.ingredient "a" none, .reference (.sub (.ingredient "a" none) ["x"] true) 0 (.prop none)])
