"""Design probe for C01/C05/C08: declarative by-name spec of compilation vs real compile()."""
import random, sys
from fractions import Fraction
from recipe_grid.compiler import compile, RecipeCompileError, NameRedefinedError, ProportionGivenForIngredientError
from recipe_grid.recipe import Ingredient, Step, SubRecipe, Reference, Quantity, Proportion, Recipe
from recipe_grid.units import UNIT_SYSTEM
import math

NAMES = ["a", "b", "c", "A", "b ", "d e", "{2} f", "x", "y", "z", "w"]
AMTS = [None, "1", "2", "100g", "0.1 kg", "1/2 of", "50%", "100%", "1.0 *", "rest of the", "remaining", "1 *", "{2 handful}", "2/2 of"]

DEFINED = set()
QTY = [None, "1", "2", "100g", "0.1 kg", "{2 handful}"]
def gen_expr(rnd, depth):
    r = rnd.random()
    if depth <= 0 or r < 0.45:
        nm = rnd.choice(NAMES)
        if nm.strip().lower() in DEFINED or rnd.random() < 0.03:
            return ("leaf", rnd.choice(AMTS), nm)
        return ("leaf", rnd.choice(QTY), nm)
    return ("step", rnd.choice(["f", "g", "h"]), [gen_expr(rnd, depth - 1) for _ in range(rnd.choice([1, 1, 2, 3]))])
def gen_stmt(rnd):
    r = rnd.random()
    outs = None; named = False
    if r < 0.35:
        outs = [rnd.choice(NAMES) for _ in range(rnd.choice([1, 1, 1, 2]))]; named = rnd.random() < 0.4
    e = gen_expr(rnd, rnd.randint(0, 3))
    if outs:
        for o in outs: DEFINED.add(o.strip().lower())
    else:
        t = e
        while t[0] == "step" and len(t[2]) == 1: t = t[2][0]
        if t[0] == "leaf": DEFINED.add(t[2].strip().lower())
    return (outs, named, e)
def q(s):  # quote name
    return '"' + s + '"' if (s != s.strip()) else s
def pr_expr(e):
    if e[0] == "leaf":
        return (e[1] + " " if e[1] else "") + q(e[2])
    return e[1] + "(" + ", ".join(pr_expr(x) for x in e[2]) + ")"
def pr_stmt(s):
    outs, named, e = s
    return ((", ".join(q(o) for o in outs) + (" := " if named else " = ")) if outs else "") + pr_expr(e)

# ---------- declarative spec (by name) ----------
def norm(svs): return svs.strip().lower()
class Err(Exception): pass

def spec(blocks_src):
    """Parse with the real parser (parser is not under test here), then: elaborate by name; fold declaratively."""
    from recipe_grid.parser import parse, ast
    from recipe_grid.compiler import compile_string, RecipeCompiler
    rc = RecipeCompiler()
    defined = {}   # norm name -> (stmt id, idx)
    stmts = []     # per stmt: dict(block, tree(by-name), names, show, named)
    def amount(qp):
        if qp is None: return ("prop", 1.0)
        if isinstance(qp, ast.Quantity): return ("qty", rc._compile_quantity(qp))
        return ("prop", qp.value)
    def el(e):
        if isinstance(e, ast.Step):
            return ("step", compile_string(e.name), tuple(el(x) for x in e.inputs))
        name = compile_string(e.name); nn = norm(name)
        if nn in defined:
            sid, idx = defined[nn]
            full = rc._compile_quantity_or_proportion(e.quantity_or_proportion)
            return ("ref", sid, idx, full)
        if isinstance(e.quantity_or_proportion, ast.Proportion): raise Err("proportion")
        return ("ing", name, rc._compile_quantity(e.quantity_or_proportion) if e.quantity_or_proportion is not None else None)
    def single_ing(t):
        if t[0] == "ing": return t
        if t[0] == "step" and len(t[2]) == 1: return single_ing(t[2][0])
        return None
    parsed = [parse(src) for src in blocks_src]
    for b, src in enumerate(blocks_src):
        for st in parsed[b].stmts:
            tree = el(st.expr)
            names = None; show = True
            if st.outputs: names = tuple(compile_string(o) for o in st.outputs)
            else:
                si = single_ing(tree)
                if si is not None: names = (si[1],); show = False
            sid = len(stmts)
            if names:
                for idx, nm in enumerate(names):
                    if norm(nm) in defined: raise Err("redefined")
                    defined[norm(nm)] = (sid, idx)
            stmts.append(dict(block=b, tree=tree, names=names, show=show, named=st.named, folded=False))
    # references per stmt id (positions in root trees only; by name there are no copies)
    def refs(t, acc):
        if t[0] == "ref": acc.append(t)
        elif t[0] == "step":
            for x in t[2]: refs(x, acc)
        elif t[0] == "sub": refs(t[1], acc)
    def where_refs(sid):
        out = []
        for j, s in enumerate(stmts):
            if s["folded"]: continue
            acc = []; refs(s["tree"], acc)
            out += [(r, s["block"]) for r in acc if r[1] == sid]
        return out
    def inferred_qty(t):
        if t[0] == "ing": return t[2]
        if t[0] == "step" and len(t[2]) == 1: return inferred_qty(t[2][0])
        if t[0] == "sub" and len(t[2]) == 1: return inferred_qty(t[1])
        return None
    def subst(t, sid, new):
        if t[0] == "ref" and t[1] == sid: return new
        if t[0] == "step": return ("step", t[1], tuple(subst(x, sid, new) for x in t[2]))
        if t[0] == "sub": return ("sub", subst(t[1], sid, new), t[2], t[3])
        return t
    for sid, s in enumerate(stmts):           # definition order
        if not s["names"] or len(s["names"]) != 1: continue
        rs = where_refs(sid)
        if len(rs) != 1 or rs[0][1] != s["block"]: continue
        amt = rs[0][0][3]
        iq = inferred_qty(s["tree"])
        full = (isinstance(amt, Proportion) and (amt.value is None or amt.value == 1.0)) or \
               (isinstance(amt, Quantity) and iq is not None and amt.has_equal_value_to(iq))
        if not full: continue
        body = s["tree"] if not s["named"] else ("sub", s["tree"], s["names"], s["show"])
        s["folded"] = True
        for s2 in stmts:
            if not s2["folded"]: s2["tree"] = subst(s2["tree"], sid, body)
    # build real objects, in order
    built = {}
    def build(t):
        if t[0] == "ing": return Ingredient(t[1], t[2])
        if t[0] == "step": return Step(t[1], tuple(build(x) for x in t[2]))
        if t[0] == "sub": return SubRecipe(build(t[1]), t[2], t[3])
        if t[0] == "ref": return Reference(built[t[1]], t[2], t[3])
    out = [[] for _ in blocks_src]
    for sid, s in enumerate(stmts):
        if s["folded"]: continue
        tr = build(s["tree"])
        if s["names"]: tr = SubRecipe(tr, s["names"], s["show"]); built[sid] = tr
        out[s["block"]].append(tr)
    recipes = []; prev = None
    for trees in out:
        prev = Recipe(tuple(trees), prev); recipes.append(prev)
    return recipes

rnd = random.Random(int(sys.argv[1]) if len(sys.argv) > 1 else 0)
stats = dict(ok=0, redefined=0, proportion=0, syntax=0, folded=0, mismatch=0, other=0)
for it in range(int(sys.argv[2]) if len(sys.argv) > 2 else 3000):
    DEFINED.clear()
    blocks = [[gen_stmt(rnd) for _ in range(rnd.randint(1, 5))] for _ in range(rnd.choice([1, 1, 2, 3]))]
    srcs = ["\n".join(pr_stmt(s) for s in b) for b in blocks]
    try:
        real = compile(srcs); rk = "ok"
    except NameRedefinedError: rk = "redefined"
    except ProportionGivenForIngredientError: rk = "proportion"
    except Exception as e:
        rk = type(e).__name__
    try:
        sp = spec(srcs); sk = "ok"
    except Err as e: sk = str(e)
    except Exception as e: sk = type(e).__name__
    if rk != sk or (rk == "ok" and real != sp):
        stats["mismatch"] += 1
        if stats["mismatch"] <= 3: print("MISMATCH", rk, sk, srcs)
    stats[rk if rk in stats else "other"] += 1
    if rk == "ok":
        nst = sum(len(b) for b in blocks); nroots = sum(len(r.recipe_trees) for r in real)
        stats["folded"] += nst - nroots
print(stats)
