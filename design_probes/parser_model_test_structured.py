import random, sys, io, contextlib
sys.path.insert(0, __import__("os").path.dirname(__import__("os").path.abspath(__file__)))
from parser_model import model_parse, conv, typed
from recipe_grid.parser import parse
from peggie import ParseError
rnd = random.Random(int(sys.argv[1]))
NAMES = ["a", "b", "'c d'", '"e\\"f"', "{2} f", "spam eggs", "x{1/2 y}z", "rest", "é ü", "{}", "'' {3}"]
AMTS = ["", "1 ", "2", "100g ", "0.1 kg ", "1/2 of ", "50% ", "100%", "1.0 * ", "rest of the ", "remaining ", "1 *", "{2 handful} ", "{ 2  'big' sacks }  of the ", "3 Tea  Spoons of ", "1 1/2 cups\tof\tthe ", "2 tin"]
def ws(opt=True): return rnd.choice(["", " ", "\t", "  "] if opt else [" ", "\t "])
def nl(): return rnd.choice(["", " ", "\n", "\n  ", " \n\t"])
def expr(d):
    r = rnd.random()
    if d <= 0 or r < 0.4: return rnd.choice(AMTS) + rnd.choice(NAMES)
    if r < 0.5: return "(" + nl() + ltr(d - 1) + nl() + ")"
    ins = [expr(d - 1) for _ in range(rnd.randint(1, 3))]
    return rnd.choice(NAMES) + ws() + "(" + nl() + (nl() + "," + nl()).join(ins) + rnd.choice(["", nl() + ","]) + nl() + ")"
def ltr(d):
    s = expr(d)
    for _ in range(rnd.choice([0, 0, 1, 2])): s += ws() + "," + ws() + rnd.choice(NAMES)
    return s
def stmt():
    s = ""
    if rnd.random() < 0.4:
        s = (ws() + "," + ws()).join(rnd.choice(NAMES) for _ in range(rnd.choice([1, 1, 2]))) + ws() + rnd.choice(["=", ":="]) + ws()
    return s + ltr(rnd.randint(0, 3))
def mutate(t):
    if not t: return t
    k = rnd.random(); i = rnd.randrange(len(t))
    if k < 0.3: return t[:i] + t[i+1:]
    if k < 0.6: return t[:i] + rnd.choice("(){},=:'\"\\/ %*\n1a") + t[i:]
    if k < 0.8: return t[:i] + t[i] + t[i:]
    j = rnd.randrange(len(t)); a, b = min(i, j), max(i, j)
    return t[:a] + t[b] + t[a+1:b] + t[a] + t[b+1:] if a != b else t
stats = dict(ok=0, err=0, bad=0)
for it in range(int(sys.argv[2])):
    text = rnd.choice(["", " ", "\n\n"]) + (rnd.choice(["\n", " \n \n", "\r\n"])).join(stmt() for _ in range(rnd.randint(1, 4))) + rnd.choice(["", "\n", "  ", "\n\n "])
    if rnd.random() < 0.5:
        for _ in range(rnd.randint(1, 2)): text = mutate(text)
    try: real = typed(conv(parse(text)))
    except ParseError: real = None
    except ZeroDivisionError: real = "ZeroDivisionError"
    mod = model_parse(text); mod = typed(mod) if isinstance(mod, list) else mod
    if real != mod:
        stats["bad"] += 1
        if stats["bad"] <= 6: print("MISMATCH", repr(text), "\n  real", real, "\n  mod ", mod)
    elif real is None: stats["err"] += 1
    else: stats["ok"] += 1
print(stats)
