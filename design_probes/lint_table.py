"""Design probe for C20: exact-rational decision table (lintQ) vs real lint.check, away from thresholds."""
import random, sys
from fractions import Fraction as F
from recipe_grid.compiler import compile
from recipe_grid.lint import check
from recipe_grid.units import UNIT_SYSTEM

def conv(frm, to):
    return F(str(UNIT_SYSTEM.convert_between(frm, to))) if not isinstance(UNIT_SYSTEM.convert_between(frm, to), F) else UNIT_SYSTEM.convert_between(frm, to)
def lintQ(total, uses):
    """total: None | (value, unit|None); uses: list of ('q', v, unit|None) | ('p', v) | ('rem',). returns list of kinds or 'CRASH'"""
    out = []; problem = False; u = F(0)
    for x in uses:
        if x[0] == "q":
            if total is None: problem = True; out.append("sub_recipe_quantity_unknown"); continue
            tv, tu = total
            if (x[2] is None) != (tu is None): problem = True; out.append("sub_recipe_reference_incompatible_units"); continue
            if x[2] is None: c = F(1)
            else:
                try: c = conv(x[2].lower(), tu.lower())
                except KeyError: problem = True; out.append("sub_recipe_reference_incompatible_units"); continue
            if tv == 0: return "CRASH"
            u += F(str(x[1])) * c / F(str(tv))
        elif x[0] == "rem":
            if u >= 1: problem = True; out.append("sub_recipe_reference_non_positive_remainder")
            u = max(F(1), u)
        else: u += F(str(x[1]))
    if not problem:
        if abs(u - 1) <= F(2, 100) * max(abs(u), 1): pass
        elif u < 1: out.append("sub_recipe_not_used_up")
        else: out.append("sub_recipe_used_too_much")
    return out, u

rnd = random.Random(int(sys.argv[1]) if len(sys.argv) > 1 else 0)
stats = dict(agree=0, skipped_boundary=0, bad=0, crash=0)
UN = [None, "g", "kg", "oz", "ml", "cup", "tsp", "clove", "sack"]
for it in range(int(sys.argv[2]) if len(sys.argv) > 2 else 5000):
    tot_unit = rnd.choice(UN)
    kind = rnd.choice(["ing", "ing", "ing", "step", "noqty", "two"])
    tv = rnd.choice([1, 2, 10, 100, 250, 0.5, 1.5, 0])
    def qtxt(v, u): return f"{v}{' ' + u if u and u not in ('sack',) else ''}" if u != "sack" else "{" + f"{v} sack" + "}"
    if kind == "ing": d = f"x = {qtxt(tv, tot_unit)} flour"; total = (tv, tot_unit)
    elif kind == "step": d = f"x = sift({qtxt(tv, tot_unit)} flour)"; total = (tv, tot_unit)
    elif kind == "noqty": d = "x = flour"; total = None
    else: d = f"x = mix({qtxt(tv, tot_unit)} flour, water)"; total = None
    uses = []; texts = []
    for _ in range(rnd.randint(2, 4)):
        k = rnd.random()
        if k < 0.45:
            uu = rnd.choice([tot_unit, tot_unit, rnd.choice(UN)]); v = rnd.choice([1, 2, 5, 50, 125, 0.25, 0.5, 49])
            uses.append(("q", v, uu)); texts.append(f"{qtxt(v, uu)} x")
        elif k < 0.8:
            v = rnd.choice(["1/2", "1/3", "1/4", "0.5", "0.49", "0.3", "2/3", "0.25"]); uses.append(("p", F(v))); texts.append(f"{v} of x")
        else: uses.append(("rem",)); texts.append("rest of x")
    src = d + "\nf(" + ", ".join(texts) + ")"
    try: rec = compile([src])
    except Exception as e: print("compile failed", src, e); continue
    try: real = [l.kind.name for l in check(rec)]
    except ZeroDivisionError: real = "CRASH"
    m = lintQ(total, uses)
    if m == "CRASH" or real == "CRASH":
        if (m == "CRASH") == (real == "CRASH"): stats["crash"] += 1
        else: stats["bad"] += 1; print("CRASH MISMATCH", src, real, m)
        continue
    kinds, u = m
    near = any(abs(u - t) < F(1, 10**9) for t in (F(98, 100), F(100, 98), F(1)))
    if real == kinds: stats["agree"] += 1
    elif near: stats["skipped_boundary"] += 1
    else:
        stats["bad"] += 1
        if stats["bad"] < 6: print("MISMATCH", repr(src), real, kinds, float(u))
print(stats)
