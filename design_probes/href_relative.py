"""Design probe for C14.1: href.relative composed with RFC 3986 resolution is the identity (outside the prefix case)."""
import random
from urllib.parse import urljoin, urlsplit, quote, unquote
from recipe_grid.static_site.href import relative
rnd = random.Random(5)
segs = ["a", "b", "c", "index.html", "x.html", "a b", "é", "serves1", "..x", "a.b"]
bad = prefix_cases = 0
for i in range(200000):
    f = "/" + "/".join(rnd.choice(segs) for _ in range(rnd.randint(1, 5)))
    t = "/" + "/".join(rnd.choice(segs) for _ in range(rnd.randint(1, 5)))
    rel = relative(f, t)
    fdir = f.split("/")[:-1]; tp = t.split("/")
    res = unquote(urlsplit(urljoin("http://h" + quote(f), quote(rel))).path)
    if res != t:
        if tp == fdir[:len(tp)]: prefix_cases += 1
        else: bad += 1; print("BAD", f, t, repr(rel), res)
print("bad", bad, "prefix cases (excluded by hypothesis)", prefix_cases)
