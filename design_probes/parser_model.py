"""Design probe: direct-style transcription of grammar.peg + ast.py (the thing to write in Lean).
Returns AST as nested tuples incl. offsets; None on syntax error."""
import re
from fractions import Fraction
from recipe_grid.units import UNIT_SYSTEM

UNITS = list(UNIT_SYSTEM.iter_names())       # regex order
SPECIAL = set("\"',:=/(){}")
def is_space(c): return re.match(r"\s", c) is not None
def is_word(c): return re.match(r"\w", c) is not None
def is_hsp(c): return c in " \t"
ESC = {"\\": "\\", "'": "'", '"': '"', "a": "\a", "b": "\b", "f": "\f", "n": "\n", "r": "\r", "t": "\t", "v": "\v"}

class P:
    def __init__(s, text): s.t = text; s.n = len(text); s.zero = False
    # --- lexical helpers
    def hsp(s, i):          # hsp: one or more [ \t]; returns new i or None
        j = i
        while j < s.n and is_hsp(s.t[j]): j += 1
        return j if j > i else None
    def ohsp(s, i):         # hsp?
        j = s.hsp(i); return i if j is None else j
    def sp(s, i):
        j = i
        while j < s.n and is_space(s.t[j]): j += 1
        return j if j > i else None
    def osp(s, i):
        j = s.sp(i); return i if j is None else j
    def digits(s, i):
        j = i
        while j < s.n and s.t[j] in "0123456789": j += 1
        return j if j > i else None
    def lit(s, i, c): return i + 1 if i < s.n and s.t[i] == c else None
    def boundary(s, i):     # \b at position i, evaluated in the slice starting at match start (prefix irrelevant: preceding char is a word char)
        before = is_word(s.t[i - 1]) if i > 0 else False
        after = is_word(s.t[i]) if i < s.n else False
        return before != after
    def ci_word(s, i, word):  # case-insensitive literal with \s+ for spaces in word; returns end or None  (re (?i) semantics approximated by lower()/special fold)
        m = re.compile("(?i)" + re.escape(word).replace(r"\ ", r"\s+")).match(s.t, i)
        return m.end() if m else None
    # --- numbers
    def decimal(s, i):
        j = s.digits(i)
        if j is None: return None
        k = j
        if k < s.n and s.t[k] == ".":
            k += 1
            while k < s.n and s.t[k] in "0123456789": k += 1
        txt = s.t[i:k]
        v = float(txt)
        return ((i, int(v) if "." not in txt else v), k)
    def fraction(s, i):
        # (int hsp)?  -- PEG: if both match, committed
        off = None; integer = 0; j = i
        a = s.digits(i)
        if a is not None:
            b = s.hsp(a)
            if b is not None:
                off = i; integer = int(s.t[i:a]); j = b
        n0 = j; a = s.digits(j)
        if a is None: return None
        numer = int(s.t[j:a]); j = s.ohsp(a)
        j = s.lit(j, "/")
        if j is None: return None
        j = s.ohsp(j); d0 = j; a = s.digits(j)
        if a is None: return None
        denom = int(s.t[j:a])
        if denom == 0:
            s.zero = True
            return ((off if off is not None else n0, Fraction(0)), a)
        return ((off if off is not None else n0, integer + Fraction(numer, denom)), a)
    def number(s, i):
        return s.fraction(i) or s.decimal(i)
    # --- strings
    def naked(s, i):
        def inner(c): return c not in SPECIAL and c not in "\n\r"
        def edge(c): return c not in SPECIAL and not is_space(c)
        if i >= s.n or not edge(s.t[i]): return None
        j = i + 1
        while j < s.n and inner(s.t[j]): j += 1
        # backtrack to last edge char (regex: first char, then optional (inner* edge))
        k = j
        while k > i + 1 and not edge(s.t[k - 1]): k -= 1
        return ([("sub", i, s.t[i:k])], k)
    def quoted(s, i, q):
        if s.lit(i, q) is None: return None
        j = i + 1; out = ""
        while True:
            if j < s.n and s.t[j] == "\\" and j + 1 < s.n:
                c = s.t[j + 1]; out += ESC.get(c, c); j += 2
            elif j < s.n and s.t[j] != q and s.t[j] not in "\n\r":
                # NB: a lone backslash at the very end is matched by the [^q\n\r] alternative
                out += s.t[j]; j += 1
            else: break
        if s.lit(j, q) is None: return None
        return ([("sub", i, out)], j + 1)
    def bracketed(s, i):
        if s.lit(i, "{") is None: return None
        j = i + 1; out = []; cur = ""; cur_off = i
        while True:
            r = s.number(j) if j < s.n and s.t[j] in "0123456789" else None
            if r is not None:
                (off, v), j = r
                if cur: out.append(("sub", cur_off, cur))
                cur = ""; cur_off = None; out.append(("num", off, v)); continue
            if j < s.n and s.t[j] == "\\" and j + 1 < s.n:
                c = s.t[j + 1]; cur += ESC.get(c, c)
                if cur_off is None: cur_off = j
                j += 2; continue
            if j < s.n and s.t[j] not in "0123456789{}\n\r":
                cur += s.t[j]
                if cur_off is None: cur_off = j
                j += 1; continue
            break
        if s.lit(j, "}") is None: return None
        if cur_off is not None: out.append(("sub", cur_off, cur))
        return (out, j + 1)
    def string(s, i, static=False):
        r = s.naked(i) or s.quoted(i, "'") or s.quoted(i, '"') or (None if static else s.bracketed(i))
        if r is None: return None
        subs, j = r
        # (hsp? string)?
        k = s.ohsp(j)
        r2 = s.string(k, static)
        if r2 is not None:
            subs2, j2 = r2
            if k > j: subs = subs + [("sub", j, s.t[j:k])]
            return (subs + subs2, j2)
        return (subs, j)
    # --- amounts
    def preposition(s, i):   # (?i)of([ \t]+the)?\b
        m = re.compile(r"(?i)of([ \t]+the)?\b", re.DOTALL).match(s.t[i:])
        return i + m.end() if m else None
    def hsp_prep(s, i):      # (hsp preposition)?  returns (text, newpos)
        j = s.hsp(i)
        if j is None: return ("", i)
        k = s.preposition(j)
        if k is None: return ("", i)
        return (s.t[i:k], k)
    def remainder(s, i):
        m = re.compile(r"(?i)(remaining|remainder|rest|left[ \t]*over)\b", re.DOTALL).match(s.t[i:])
        return i + m.end() if m else None
    def known_unit(s, i):
        m = re.compile(r"(?i)(" + "|".join(re.escape(n).replace(r"\ ", r"\s+") for n in UNITS) + r")\b", re.DOTALL).match(s.t[i:])
        return i + m.end() if m else None
    def proportion(s, i):
        j = s.remainder(i)
        if j is not None:
            prep, k = s.hsp_prep(j)
            return (("prop", i, None, False, s.t[i:j], prep), k)
        r = s.number(i)
        if r is None: return None
        (off, v), j = r
        # alt 0: hsp preposition
        a = s.hsp(j)
        if a is not None:
            b = s.preposition(a)
            if b is not None: return (("prop", off, v, False, None, s.t[j:b]), b)
        # alt 1: hsp? "%" (hsp preposition)?
        a = s.ohsp(j); b = s.lit(a, "%")
        if b is not None:
            prep, k = s.hsp_prep(b)
            return (("prop", off, v / 100, True, None, s.t[j:b] + prep), k)
        b = s.lit(a, "*")
        if b is not None: return (("prop", off, v, False, None, s.t[j:b]), b)
        return None
    def explicit_quantity(s, i):
        j = s.lit(i, "{")
        if j is None: return None
        j = s.ohsp(j); r = s.number(j)
        if r is None: return None
        (off, v), j = r
        unit = None; spacing = ""
        k = s.ohsp(j); r2 = s.string(k, static=True)
        if r2 is not None:
            unit, j2 = r2; spacing = s.t[j:k]; j = j2
        j = s.ohsp(j); j = s.lit(j, "}")
        if j is None: return None
        prep, j = s.hsp_prep(j)
        return (("qty", i, v, unit, spacing, prep), j)
    def implicit_quantity(s, i):
        r = s.number(i)
        if r is None: return None
        (off, v), j = r
        k = s.ohsp(j); u = s.known_unit(k)
        if u is not None:
            prep, e = s.hsp_prep(u)
            return (("qty", off, v, [("sub", k, s.t[k:u])], s.t[j:k], prep), e)
        return (("qty", off, v, None, "", ""), j)
    def reference(s, i):
        r = s.proportion(i) or s.explicit_quantity(i) or s.implicit_quantity(i)
        amt = None; j = i
        if r is not None:
            amt, j = r; j = s.ohsp(j)     # committed (Maybe not retried)
        r2 = s.string(j)
        if r2 is None: return None
        return (("ref", r2[0], amt), r2[1])
    # --- expressions
    def step(s, i):
        r = s.string(i)
        if r is None: return None
        name, j = r; j = s.ohsp(j); j = s.lit(j, "(")
        if j is None: return None
        j = s.osp(j); r = s.expr(j)
        if r is None: return None
        e, j = r; inputs = [e]
        while True:
            k = s.osp(j); k = s.lit(k, ",")
            if k is None: break
            k = s.osp(k); r = s.expr(k)
            if r is None: break
            e, j = r; inputs.append(e)
        k = s.osp(j); k2 = s.lit(k, ",")
        if k2 is not None: j = k2
        j = s.osp(j); j = s.lit(j, ")")
        if j is None: return None
        return (("step", name, inputs), j)
    def expr(s, i):
        r = s.step(i) or s.reference(i)
        if r is not None: return r
        j = s.lit(i, "(")
        if j is None: return None
        j = s.osp(j); r = s.ltr(j)
        if r is None: return None
        e, j = r; j = s.osp(j); j = s.lit(j, ")")
        if j is None: return None
        return (e, j)
    def ltr(s, i):
        r = s.expr(i)
        if r is None: return None
        e, j = r
        while True:
            k = s.ohsp(j); k = s.lit(k, ",")
            if k is None: break
            k = s.ohsp(k); r = s.string(k)
            if r is None: break
            e = ("step", r[0], [e]); j = r[1]
        return (e, j)
    def eol(s, i):
        j = i
        while j < s.n and is_hsp(s.t[j]): j += 1
        if j < s.n and s.t[j] in "\r\n":
            j += 1
            while j < s.n and is_space(s.t[j]): j += 1
            return j
        return j if j == s.n else None
    def stmt(s, i):
        outs = None; named = False; j = i
        r = s.string(i)
        if r is not None:
            os_ = [r[0]]; k = r[1]
            while True:
                a = s.ohsp(k); a = s.lit(a, ",")
                if a is None: break
                a = s.ohsp(a); r2 = s.string(a)
                if r2 is None: break
                os_.append(r2[0]); k = r2[1]
            a = s.ohsp(k)
            m = re.compile(":?=").match(s.t, a)
            if m:
                outs = os_; named = m.group(0) == ":="; j = s.ohsp(m.end())
        r = s.ltr(j)
        if r is None: return None
        e, j = r; j = s.eol(j)
        if j is None: return None
        return (("stmt", e, outs, named), j)
    def recipe(s):
        j = s.osp(0); stmts = []
        while True:
            r = s.stmt(j)
            if r is None: break
            if r[1] <= j and False: break
            stmts.append(r[0]); j = r[1]
            if j >= s.n: break
        if not stmts or j != s.n: return None
        return stmts

def model_parse(text):
    try:
        p = P(text); r = p.recipe()
        if r is not None and p.zero: return "ZeroDivisionError"
        return r
    except ZeroDivisionError:
        return "ZeroDivisionError"
    except RecursionError:
        return "RecursionError"

# ---- convert real AST to same tuple form
from recipe_grid.parser import ast
def conv_string(st): return [("sub", x.offset, x.string) if isinstance(x, ast.Substring) else ("num", x.offset, x.number) for x in st.substrings]
def conv_amt(a):
    if a is None: return None
    if isinstance(a, ast.Quantity): return ("qty", a.offset, a.value, conv_string(a.unit) if a.unit is not None else None, a.value_unit_spacing, a.preposition)
    return ("prop", a.offset, a.value, a.percentage, a.remainder_wording, a.preposition)
def conv_expr(e):
    if isinstance(e, ast.Step): return ("step", conv_string(e.name), [conv_expr(x) for x in e.inputs])
    return ("ref", conv_string(e.name), conv_amt(e.quantity_or_proportion))
def conv(r): return [("stmt", conv_expr(s.expr), [conv_string(o) for o in s.outputs] if s.outputs else None, s.named) for s in r.stmts]
def typed(x):
    """make 1 vs 1.0 vs Fraction(1) distinguishable"""
    if isinstance(x, (list, tuple)): return type(x)(typed(y) for y in x)
    if isinstance(x, bool) or x is None or isinstance(x, str): return x
    if isinstance(x, (int, float, Fraction)): return (type(x).__name__, x)
    return x
