"""Design probe for C18: 'longest serving suffix' spec (no regex) vs the real title/servings extraction."""
import random, sys, html
from recipe_grid.markdown import compile_markdown

PREPS = [["to", "serve"], ["to", "serves"], ["serve"], ["serves"], ["for"], ["makes"], ["serving"]]   # what the pinned pattern accepts
DOCUMENTED = [["to", "serve"], ["to", "make"], ["serves"], ["for"], ["makes"], ["serving"]]              # docs/source/markdown_reference.rst
def is_ws(c): return c in " \t\n\r\x0b\x0c"   # heading text is a single line; only blanks matter here

def spec(text):
    """text = rendered heading text. Returns (title, servings). Longest suffix of shape ws+ PREP(ws-separated words) ws+ DIGITS ws*"""
    t = text
    # strip trailing ws, then digits
    j = len(t)
    while j > 0 and is_ws(t[j - 1]): j -= 1
    k = j
    while k > 0 and t[k - 1] in "0123456789": k -= 1
    if k == j: return (html.unescape(text.strip()), None)
    digits = t[k:j]
    # need ws+ before digits
    a = k
    while a > 0 and is_ws(t[a - 1]): a -= 1
    if a == k: return (html.unescape(text.strip()), None)
    best = None
    for prep in PREPS:
        # match prep words backwards separated by ws+
        pos = a; ok = True
        for w in reversed(prep):
            if t[max(0, pos - len(w)):pos].lower() != w or pos - len(w) < 0: ok = False; break
            pos -= len(w)
            if w is not prep[0]:
                b = pos
                while b > 0 and is_ws(t[b - 1]): b -= 1
                if b == pos: ok = False; break
                pos = b
        if not ok: continue
        # need ws+ before the preposition
        b = pos
        while b > 0 and is_ws(t[b - 1]): b -= 1
        if b == pos: continue
        # regex .search is leftmost: the match starts at the first ws of the run before prep => start = b
        if best is None or b < best[0]: best = (b, pos)
    if best is None: return (html.unescape(text.strip()), None)
    b, pos = best
    # title = text[:match.start()] + match['space'] then stripped  => text[:pos].strip()
    return (html.unescape(t[:pos].strip()), int(digits))

rnd = random.Random(int(sys.argv[1]) if len(sys.argv) > 1 else 0)
WORDS = ["Stew", "for", "to", "serve", "serves", "makes", "make", "serving", "2", "10", "Food", "&amp;", "drink", "FOR", "To", "SERVES", "forty", "before", "x", "03", "for2", "."]
bad = 0; n = 0; withs = 0
for it in range(int(sys.argv[2]) if len(sys.argv) > 2 else 20000):
    ws = [rnd.choice(WORDS) for _ in range(rnd.randint(1, 6))]
    text = ""
    for w in ws: text += w + rnd.choice([" ", " ", "  ", "\t"])
    text = text.rstrip() + rnd.choice(["", " ", "  "])
    if not text.strip(): continue
    doc = "# " + text
    mr = compile_markdown(doc)
    # the rendered heading text: marko strips the ATX heading content; use what the renderer saw
    rendered = text.strip()
    exp = spec(rendered)
    got = (mr.title, mr.servings)
    n += 1; withs += got[1] is not None
    if got != exp:
        bad += 1
        if bad < 8: print("MISMATCH", repr(doc), got, exp)
print("n", n, "with servings", withs, "bad", bad)
