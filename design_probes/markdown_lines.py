"""Design probe for C19/C13: reported error line = document line of the faulty statement (LF files),
recipe blocks are grouped as specified, and CRLF shifts the line (finding F7)."""
import random, sys
from recipe_grid.markdown import compile_markdown
from recipe_grid.compiler import NameRedefinedError, ProportionGivenForIngredientError
from peggie import ParseError

rnd = random.Random(int(sys.argv[1]) if len(sys.argv) > 1 else 0)
def prose(): return rnd.choice(["Some text.", "More *text* here {2}.", "## Sub heading", "A line\nand another.", "- a list item\n- another", "> a quote"])

def make_doc():
    """returns (lines, blocks) where blocks = list of dict(kind, group_start, stmts=[(doc_line_index, text)])"""
    lines = ["# Title for 2", ""]
    blocks = []
    nblocks = rnd.randint(1, 4); counter = [0]
    for b in range(nblocks):
        for _ in range(rnd.randint(0, 2)): lines.extend(prose().split("\n")); lines.append("")
        lines.append("Separator paragraph."); lines.append("")   # so that an indented block never continues a list item
        container = rnd.choice(["top", "top", "list", "quote"])
        fenced = rnd.random() < 0.5
        lang = rnd.choice(["recipe", "recipe", "new-recipe"]) if fenced else None
        fence = rnd.choice(["```", "~~~", "````"])
        if container == "top": first = cont = ""
        elif container == "list": lines.append("- item text"); lines.append(""); first = cont = "  "
        else: first = cont = "> "
        if container == "quote": lines.append("> quoted text"); lines.append(">")
        ind = "" if fenced else "    "
        find = rnd.choice(["", " ", "   "]) if fenced else ""
        stmts = []
        if fenced: lines.append(cont + find + fence + lang)
        for s in range(rnd.randint(1, 4)):
            counter[0] += 1
            text = f"n{counter[0]} = f(x{counter[0]}, y)"
            if rnd.random() < 0.3 and s > 0: lines.append((cont + (find if fenced else ind)).rstrip() if container != "quote" else ">")
            stmts.append((len(lines), text)); lines.append(cont + (find if fenced else ind) + text)
        if fenced: lines.append(cont + find + fence)
        lines.append("")
        blocks.append(dict(new=(lang == "new-recipe"), stmts=stmts))
    return lines, blocks

ok = bad = crlf_shift = 0
for it in range(int(sys.argv[2]) if len(sys.argv) > 2 else 3000):
    lines, blocks = make_doc()
    # groups
    groups = []; 
    for bl in blocks:
        if bl["new"] or not groups: groups.append([])
        groups[-1].append(bl)
    # sanity: compiles, and grouping matches
    doc = "\n".join(lines) + "\n"
    mr = compile_markdown(doc)
    assert [len(g) for g in mr.recipes] == [len(g) for g in groups], (doc, mr.recipes)
    # inject a redefinition fault: pick a group, a later statement redefines an earlier name of the same group
    g = rnd.choice(groups)
    allst = [st for bl in g for st in bl["stmts"]]
    if len(allst) < 2: continue
    i = rnd.randrange(1, len(allst)); j = rnd.randrange(0, i)
    line_idx, text = allst[i]; name = allst[j][1].split(" = ")[0]
    new_text = name + " = g(z)"
    faulty = list(lines); faulty[line_idx] = faulty[line_idx].replace(text, new_text)
    for ending in ("\n", "\r\n"):
        d = ending.join(faulty) + ending
        try:
            compile_markdown(d); print("no error?!", repr(d)); bad += 1
        except NameRedefinedError as e:
            if ending == "\n":
                if e.line == line_idx + 1 and e.snippet == new_text and e.column == 1: ok += 1
                else:
                    bad += 1
                    if bad < 5: print("MISMATCH", e.line, line_idx + 1, repr(e.snippet), repr(d))
            else:
                if e.line != line_idx + 1: crlf_shift += 1
print("ok", ok, "bad", bad, "crlf docs with shifted line", crlf_shift)
