/-! Calibration probe for C02.1: tiling of the layout (throw-away). -/

structure PCell where
  row : Nat
  col : Nat
  rows : Nat
  cols : Nat
  tag : Nat
deriving Repr, DecidableEq

structure Tbl where
  h : Nat
  w : Nat
  cells : List PCell
deriving Repr

def PCell.covers (x : PCell) (r c : Nat) : Bool :=
  x.row ≤ r && r < x.row + x.rows && x.col ≤ c && c < x.col + x.cols

def cover (cs : List PCell) (r c : Nat) : Nat := cs.countP (·.covers r c)

def CellOK (t : Tbl) (x : PCell) : Prop :=
  0 < x.rows ∧ 0 < x.cols ∧ x.row + x.rows ≤ t.h ∧ x.col + x.cols ≤ t.w

structure Tiles (t : Tbl) : Prop where
  ok : ∀ x ∈ t.cells, CellOK t x
  one : ∀ r c, r < t.h → c < t.w → cover t.cells r c = 1

/-- extend the right-most cells -/
def padCell (w0 w : Nat) (x : PCell) : PCell :=
  if x.col + x.cols = w0 then { x with cols := w - x.col } else x

def pad (t : Tbl) (w : Nat) : Tbl :=
  if t.w ≥ w then t else { t with w := w, cells := t.cells.map (padCell t.w w) }

def shiftDown (d : Nat) (x : PCell) : PCell := { x with row := x.row + d }
def shiftRight (d : Nat) (x : PCell) : PCell := { x with col := x.col + d }

def vcat (a b : Tbl) : Tbl := ⟨a.h + b.h, a.w, a.cells ++ b.cells.map (shiftDown a.h)⟩
def hcat (a b : Tbl) : Tbl := ⟨a.h, a.w + b.w, a.cells ++ b.cells.map (shiftRight a.w)⟩

theorem cover_append (a b : List PCell) (r c : Nat) : cover (a ++ b) r c = cover a r c + cover b r c := by
  simp [cover, List.countP_append]

theorem cover_eq_zero_of (cs : List PCell) (r c : Nat) (h : ∀ x ∈ cs, x.covers r c = false) : cover cs r c = 0 := by
  simp only [cover, List.countP_eq_zero]
  intro x hx; simp [h x hx]

theorem covers_shiftDown (x : PCell) (d r c : Nat) :
    (shiftDown d x).covers r c = (decide (d ≤ r) && x.covers (r - d) c) := by
  simp only [PCell.covers, shiftDown]
  rw [Bool.eq_iff_iff]
  simp only [Bool.and_eq_true, decide_eq_true_eq]
  grind

theorem covers_shiftRight (x : PCell) (d r c : Nat) :
    (shiftRight d x).covers r c = (decide (d ≤ c) && x.covers r (c - d)) := by
  simp only [PCell.covers, shiftRight]
  rw [Bool.eq_iff_iff]
  simp only [Bool.and_eq_true, decide_eq_true_eq]
  grind

theorem cover_shiftDown (cs : List PCell) (d r c : Nat) :
    cover (cs.map (shiftDown d)) r c = if d ≤ r then cover cs (r - d) c else 0 := by
  simp only [cover, List.countP_map, Function.comp_def, covers_shiftDown]
  split <;> rename_i h <;> simp [h]

theorem cover_shiftRight (cs : List PCell) (d r c : Nat) :
    cover (cs.map (shiftRight d)) r c = if d ≤ c then cover cs r (c - d) else 0 := by
  simp only [cover, List.countP_map, Function.comp_def, covers_shiftRight]
  split <;> rename_i h <;> simp [h]

theorem cover_zero_outside (t : Tbl) (ht : Tiles t) (r c : Nat) (h : t.h ≤ r ∨ t.w ≤ c) : cover t.cells r c = 0 := by
  apply cover_eq_zero_of
  intro x hx
  obtain ⟨_, _, h3, h4⟩ := ht.ok x hx
  simp [PCell.covers]; omega

theorem tiles_vcat (a b : Tbl) (ha : Tiles a) (hb : Tiles b) (hw : a.w = b.w) : Tiles (vcat a b) := by
  constructor
  · intro x hx
    simp only [vcat, List.mem_append, List.mem_map] at hx
    rcases hx with hx | ⟨y, hy, rfl⟩
    · obtain ⟨h1, h2, h3, h4⟩ := ha.ok x hx
      exact ⟨h1, h2, by simp [vcat]; omega, by simp [vcat]; omega⟩
    · obtain ⟨h1, h2, h3, h4⟩ := hb.ok y hy
      exact ⟨h1, h2, by simp [vcat, shiftDown]; omega, by simp [vcat, shiftDown]; omega⟩
  · intro r c hr hc
    simp only [vcat] at hr hc ⊢
    rw [cover_append, cover_shiftDown]
    by_cases h : r < a.h
    · rw [ha.one r c h hc]; simp; omega
    · rw [cover_zero_outside a ha r c (by omega)]
      have : a.h ≤ r := by omega
      simp [this]
      exact hb.one (r - a.h) c (by omega) (by omega)

theorem tiles_hcat (a b : Tbl) (ha : Tiles a) (hb : Tiles b) (hh : a.h = b.h) : Tiles (hcat a b) := by
  constructor
  · intro x hx
    simp only [hcat, List.mem_append, List.mem_map] at hx
    rcases hx with hx | ⟨y, hy, rfl⟩
    · obtain ⟨h1, h2, h3, h4⟩ := ha.ok x hx
      exact ⟨h1, h2, by simp [hcat]; omega, by simp [hcat]; omega⟩
    · obtain ⟨h1, h2, h3, h4⟩ := hb.ok y hy
      exact ⟨h1, h2, by simp [hcat, shiftRight]; omega, by simp [hcat, shiftRight]; omega⟩
  · intro r c hr hc
    simp only [hcat] at hr hc ⊢
    rw [cover_append, cover_shiftRight]
    by_cases h : c < a.w
    · rw [ha.one r c hr h]; simp; omega
    · rw [cover_zero_outside a ha r c (by omega)]
      have : a.w ≤ c := by omega
      simp [this]
      exact hb.one r (c - a.w) (by omega) (by omega)

theorem tiles_single (tag h w : Nat) (hh : 0 < h) (hw : 0 < w) : Tiles ⟨h, w, [⟨0, 0, h, w, tag⟩]⟩ := by
  constructor
  · intro x hx; simp at hx; subst hx; exact ⟨hh, hw, by simp, by simp⟩
  · intro r c hr hc
    simp only at hr hc
    simp [cover, PCell.covers]; omega

theorem covers_padCell (x : PCell) (w0 w r c : Nat) (h1 : 0 < x.cols) (h2 : x.col + x.cols ≤ w0) (hw : w0 < w) :
    (padCell w0 w x).covers r c =
      if c < w0 then x.covers r c else (decide (c < w) && x.covers r (w0 - 1)) := by
  unfold padCell
  by_cases hE : x.col + x.cols = w0 <;> by_cases hc : c < w0 <;>
    simp only [hE, hc, if_true, if_false, PCell.covers] <;>
    (rw [Bool.eq_iff_iff]; simp only [Bool.and_eq_true, decide_eq_true_eq]; grind)

theorem tiles_pad (t : Tbl) (w : Nat) (ht : Tiles t) (hw0 : 0 < t.w) : Tiles (pad t w) := by
  unfold pad
  split
  · exact ht
  · rename_i hlt
    have hlt : t.w < w := by omega
    constructor
    · intro x hx
      simp only [List.mem_map] at hx
      obtain ⟨y, hy, rfl⟩ := hx
      obtain ⟨h1, h2, h3, h4⟩ := ht.ok y hy
      unfold padCell
      split
      · exact ⟨h1, by simp; omega, h3, by simp; omega⟩
      · exact ⟨h1, h2, h3, by simp; omega⟩
    · intro r c hr hc
      simp only at hr hc
      have key : cover (t.cells.map (padCell t.w w)) r c =
          if c < t.w then cover t.cells r c else cover t.cells r (t.w - 1) := by
        simp only [cover, List.countP_map, Function.comp_def]
        split
        · apply List.countP_congr
          intro x hx
          obtain ⟨h1, h2, h3, h4⟩ := ht.ok x hx
          rw [covers_padCell x t.w w r c h2 h4 hlt]; simp [*]
        · apply List.countP_congr
          intro x hx
          obtain ⟨h1, h2, h3, h4⟩ := ht.ok x hx
          rw [covers_padCell x t.w w r c h2 h4 hlt]; simp [*]
      rw [key]
      split
      · exact ht.one r c hr (by assumption)
      · exact ht.one r (t.w - 1) hr (by omega)
