import Basic
/-! Calibration probe: the recursive layout and `layout_tiles` by mutual induction. -/

inductive Tree where
  | leaf (tag : Nat)
  | step (tag : Nat) (first : Tree) (rest : List Tree)
  | titled (tag : Nat) (body : Tree)
  | untitled (body : Tree)

def maxW : List Tbl → Nat
  | [] => 0
  | t :: ts => max t.w (maxW ts)

/-- stack tables (already of common width `w`) -/
def vstack (w : Nat) : List Tbl → Tbl
  | [] => ⟨0, w, []⟩
  | t :: ts => vcat (pad t w) (vstack w ts)

mutual
def layout : Tree → Tbl
  | .leaf tag => ⟨1, 1, [⟨0, 0, 1, 1, tag⟩]⟩
  | .step tag f rest =>
    let ts := layout f :: layoutList rest
    let w := maxW ts
    let s := vstack w ts
    hcat s ⟨s.h, 1, [⟨0, 0, s.h, 1, tag⟩]⟩
  | .titled tag b =>
    let t := layout b
    vcat ⟨1, t.w, [⟨0, 0, 1, t.w, tag⟩]⟩ t
  | .untitled b => layout b
def layoutList : List Tree → List Tbl
  | [] => []
  | t :: ts => layout t :: layoutList ts
end

def Good (t : Tbl) : Prop := Tiles t ∧ 0 < t.w ∧ 0 < t.h

theorem pad_w (t : Tbl) (w : Nat) : (pad t w).w = max t.w w := by
  unfold pad
  split
  · rename_i h; show t.w = max t.w w; omega
  · rename_i h; show w = max t.w w; omega
theorem pad_h (t : Tbl) (w : Nat) : (pad t w).h = t.h := by
  unfold pad; split <;> rfl

theorem vstack_w (w : Nat) (ts : List Tbl) : (vstack w ts).w = match ts with | [] => w | t :: _ => max t.w w := by
  cases ts <;> simp [vstack, vcat, pad_w]

theorem maxW_ge (ts : List Tbl) : ∀ t ∈ ts, t.w ≤ maxW ts := by
  induction ts with
  | nil => simp
  | cons a as ih =>
    intro t ht
    simp only [List.mem_cons] at ht
    rcases ht with rfl | ht
    · simp [maxW]; omega
    · have := ih t ht; simp [maxW]; omega

/-- stacking good tables that are no wider than `w` gives a tiling of width `w` -/
theorem tiles_vstack (w : Nat) (hw : 0 < w) (ts : List Tbl) (hg : ∀ t ∈ ts, Good t) (hle : ∀ t ∈ ts, t.w ≤ w) :
    Tiles (vstack w ts) ∧ (vstack w ts).w = w ∧ (ts ≠ [] → 0 < (vstack w ts).h) := by
  induction ts with
  | nil =>
    refine ⟨⟨by simp [vstack], by simp [vstack]⟩, by simp [vstack], by simp⟩
  | cons a as ih =>
    have ha := hg a (by simp)
    have hla := hle a (by simp)
    obtain ⟨ih1, ih2, _⟩ := ih (fun t ht => hg t (by simp [ht])) (fun t ht => hle t (by simp [ht]))
    have hpw : (pad a w).w = w := by rw [pad_w]; omega
    refine ⟨?_, ?_, ?_⟩
    · simp only [vstack]
      exact tiles_vcat _ _ (tiles_pad a w ha.1 ha.2.1) ih1 (by rw [hpw, ih2])
    · simp [vstack, vcat, hpw]
    · intro _; simp [vstack, vcat, pad_h]; have := ha.2.2; omega

mutual
theorem layout_good : ∀ t : Tree, Good (layout t)
  | .leaf tag => by
    refine ⟨tiles_single tag 1 1 (by omega) (by omega), by simp [layout], by simp [layout]⟩
  | .step tag f rest => by
    have hf := layout_good f
    have hr := layoutList_good rest
    simp only [layout]
    let ts := layout f :: layoutList rest
    have hg : ∀ t ∈ ts, Good t := by
      intro t ht; simp only [ts, List.mem_cons] at ht
      rcases ht with rfl | ht
      · exact hf
      · exact hr t ht
    have hwpos : 0 < maxW ts := by
      have := maxW_ge ts (layout f) (by simp [ts]); have := hf.2.1; omega
    obtain ⟨h1, h2, h3⟩ := tiles_vstack (maxW ts) hwpos ts hg (maxW_ge ts)
    have hh : 0 < (vstack (maxW ts) ts).h := h3 (by simp [ts])
    refine ⟨?_, ?_, ?_⟩
    · exact tiles_hcat _ _ h1 (tiles_single tag _ 1 hh (by omega)) rfl
    · simp [hcat]
    · simpa [hcat] using hh
  | .titled tag b => by
    have hb := layout_good b
    simp only [layout]
    refine ⟨?_, ?_, ?_⟩
    · exact tiles_vcat _ _ (tiles_single tag 1 _ (by omega) hb.2.1) hb.1 rfl
    · simpa [vcat] using hb.2.1
    · simp only [vcat]; omega
  | .untitled b => by simpa [layout] using layout_good b
theorem layoutList_good : ∀ ts : List Tree, ∀ t ∈ layoutList ts, Good t
  | [] => by simp [layoutList]
  | a :: as => by
    intro t ht
    simp only [layoutList, List.mem_cons] at ht
    rcases ht with rfl | ht
    · exact layout_good a
    · exact layoutList_good as t ht
end

theorem layout_tiles (t : Tree) : Tiles (layout t) := (layout_good t).1
#print axioms layout_tiles
