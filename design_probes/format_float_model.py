"""Design probe for C11: exact-rational model of format_float vs the real function, and the value theorem."""
from fractions import Fraction as F
import random, math, sys
from recipe_grid.number_formatting import format_float
def rhe(q):
    fl = q.numerator // q.denominator; r = q - fl
    if r > F(1, 2) or (r == F(1, 2) and fl % 2 == 1): fl += 1
    return fl
def budget(x, sig=3):
    I = x.numerator // x.denominator
    n = len(str(I)) if I != 0 else 0
    return I, max(0, sig - n)
def model_format_float(x, sig=3):
    I, d = budget(x, sig); f = x - I
    Fd = rhe(f * 10**d)
    s = str(Fd).rjust(d, "0") if d > 0 else ""
    if Fd >= 10**d: s = "0" * d
    s = s.rstrip("0")
    return str(rhe(x)) if s == "" else f"{I}.{s}"
if __name__ == "__main__":
    rnd = random.Random(int(sys.argv[1]) if len(sys.argv) > 1 else 7); bad = 0; N = 0
    def cases():
        for i in range(200000):
            k = rnd.random()
            if k < 0.3: yield rnd.uniform(0, 10**rnd.randint(-4, 15))
            elif k < 0.6:
                d = rnd.randint(0, 3); x = float(rnd.randint(0, 10**(3 - d)) + rnd.randint(0, 10**d) / 10**d + 0.5 / 10**d)
                for _ in range(rnd.randint(0, 2)): x = math.nextafter(x, rnd.choice([0.0, 1e300]))
                yield x
            elif k < 0.8: yield rnd.randint(0, 10**6) / 2**rnd.randint(0, 12)
            else: yield float(rnd.randint(0, 10**rnd.randint(0, 18)))
    for x in cases():
        N += 1; got = format_float(x); q = F(x); I, d = budget(q)
        v = F(rhe(q * 10**d), 10**d)
        if not (got == model_format_float(q) and F(got) == v and abs(F(got) - q) <= F(1, 2 * 10**d)):
            bad += 1; print("BAD", repr(x), got)
    print("N", N, "bad", bad)
