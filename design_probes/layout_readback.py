"""Design probe for C02.6: which trees draw identically? Find the right `drawing` normal form."""
import random, sys, itertools, collections
sys.path.insert(0, __import__("os").path.dirname(__import__("os").path.abspath(__file__)))
from recipe_grid.recipe import Ingredient, Step, SubRecipe, Reference
from recipe_grid.scaled_value_string import ScaledValueString as SVS
from recipe_grid.renderer.recipe_to_table import recipe_tree_to_table

def table_key(t):
    tb = recipe_tree_to_table(t)
    out = []
    for (r, c), cell in tb.to_dict().items():
        v = cell.value
        kind = type(v).__name__
        label = str(v.description) if hasattr(v, "description") else (str(v.sub_recipe.output_names[0]) if isinstance(v, Reference) else ",".join(map(str, v.output_names)))
        out.append((r, c, cell.rows, cell.columns, kind, label, cell.border_left.name, cell.border_right.name, cell.border_top.name, cell.border_bottom.name))
    return (tb.rows, tb.columns, tuple(sorted(out)))

# enumerate small trees
def trees(n, root=True):
    """all trees with exactly n nodes (labels fixed by kind to force collisions)"""
    if n == 1:
        yield Ingredient(SVS("i"))
        return
    # sub recipe wrappers
    for body in trees(n - 1, False):
        yield SubRecipe(body, (SVS("s"),), show_output_names=True)
        yield SubRecipe(body, (SVS("s"),), show_output_names=False)
        if root: yield SubRecipe(body, (SVS("a"), SVS("b")))
    # steps with k inputs
    for k in range(1, n):
        for split in compositions(n - 1, k):
            for kids in itertools.product(*[list(trees(m, False)) for m in split]):
                yield Step(SVS("f"), tuple(kids))
def compositions(n, k):
    if k == 1: yield (n,); return
    for first in range(1, n - k + 2):
        for rest in compositions(n - first, k - 1): yield (first,) + rest

def drawing(t, root=True, ctx_outlined=False):
    """normal form: ('leaf',l) | ('step',l,[..]) | ('titled',l,d) | ('outlined',d) | ('multi',l,d)"""
    if isinstance(t, Ingredient): d = ("leaf", "i")
    elif isinstance(t, Reference): d = ("leaf", "r")
    elif isinstance(t, Step): d = ("step", "f", tuple(drawing(x, False) for x in t.inputs))
    elif isinstance(t, SubRecipe):
        if len(t.output_names) > 1:
            return ("multi", drawing_body_outlined(t.sub_tree))
        inner = drawing(t.sub_tree, False)
        if t.show_output_names:
            d = ("titled", inner)
        else:
            d = outline(inner)
        return d
    if root: d = outline(d)
    return d
def drawing_body_outlined(t):
    return outline(drawing(t, False))
def outline(d):
    # outlined(outlined x) = outlined x ; outlined(titled x) = titled x
    if d[0] in ("outlined", "titled"): return d
    return ("outlined", d)

groups = collections.defaultdict(set)
N = int(sys.argv[1]) if len(sys.argv) > 1 else 6
count = 0
for n in range(1, N + 1):
    for t in trees(n):
        groups[table_key(t)].add(drawing(t)); count += 1
bad = [(k, v) for k, v in groups.items() if len(v) > 1]
print("trees", count, "distinct tables", len(groups), "ambiguous tables", len(bad))
for k, v in bad[:5]:
    print("TABLE", k); 
    for d in v: print("   ", d)
# also the converse: distinct tables with the same drawing?
inv = collections.defaultdict(set)
for k, v in groups.items():
    for d in v: inv[d].add(k)
bad2 = [d for d, ks in inv.items() if len(ks) > 1]
print("drawings with several tables:", len(bad2))
for d in bad2[:3]: print("   ", d, len(inv[d]))
