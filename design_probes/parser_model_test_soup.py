import random, sys
sys.path.insert(0, __import__("os").path.dirname(__import__("os").path.abspath(__file__)))
from parser_model import model_parse, conv, typed
from recipe_grid.parser import parse
from peggie import ParseError
sys.setrecursionlimit(1000)
rnd = random.Random(int(sys.argv[1]) if len(sys.argv) > 1 else 0)
TOK = ["spam", "eggs", "2", "1/2", "1 1/2", "0.5", "3.", "g", "kg", "tea spoon", "Tsp", "of", "of the", "OF", "rest", "remaining", "left over", "%", "*", "(", ")", ",", "=", ":=", "{", "}", "'", '"', "\\", "\n", " ", "  ", "\t", "\r\n", "é", "\xa0", "x", "fry", "'a b'", '"c"', "{2 eggs}", "{3}", "{1/2 x}", "1/0", "K", "ſ", "/", ":", "-", "a.b", " "]
stats = dict(ok=0, err=0, bad=0)
for it in range(int(sys.argv[2]) if len(sys.argv) > 2 else 30000):
    n = rnd.randint(1, 14)
    text = "".join(rnd.choice(TOK) + rnd.choice(["", "", " "]) for _ in range(n))
    try:
        real = typed(conv(parse(text)))
    except ParseError: real = None
    except ZeroDivisionError: real = "ZeroDivisionError"
    except RecursionError: real = "RecursionError"
    mod = model_parse(text)
    mod = typed(mod) if isinstance(mod, list) else mod
    if real != mod:
        stats["bad"] += 1
        if stats["bad"] <= 8: print("MISMATCH", repr(text), "\n  real", real, "\n  mod ", mod)
    elif real is None: stats["err"] += 1
    else: stats["ok"] += 1
print(stats)
