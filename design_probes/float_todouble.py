from fractions import Fraction as F
import random, math
def to_double(q):
    """round-to-nearest-even of exact rational q to binary64 (normal range), as exact Fraction"""
    if q == 0: return F(0)
    s = -1 if q < 0 else 1; q = abs(q)
    # find e with 2^52 <= q / 2^e < 2^53
    e = q.numerator.bit_length() - q.denominator.bit_length() - 53
    while q / F(2)**e >= 2**53: e += 1
    while q / F(2)**e < 2**52: e -= 1
    m = q / F(2)**e
    fl = m.numerator // m.denominator
    r = m - fl
    if r > F(1,2) or (r == F(1,2) and fl % 2 == 1): fl += 1
    return s * fl * F(2)**e
rnd = random.Random(1)
bad = 0
for i in range(20000):
    a = rnd.choice([rnd.uniform(0, 1000), rnd.randint(0, 10**6)/10**rnd.randint(0,6), float(rnd.randint(1, 10**15))])
    b = rnd.choice([rnd.uniform(0, 10), 453.59237, 236.58824, 0.01, rnd.randint(1,100)/7])
    fr = F(rnd.randint(1, 1000), rnd.randint(1, 1000))
    n = rnd.randint(0, 10**6)
    checks = [
      (F(a*b), to_double(F(a)*F(b))),
      (F(a/100), to_double(F(a)/100)),
      (F(a*fr), to_double(F(a)*to_double(fr))),
      (F(fr*a), to_double(to_double(fr)*F(a))),
      (F(n*b), to_double(F(n)*F(b))),
      (F(float(fr)), to_double(fr)),
      (F(n/100), to_double(F(n,100))),
      (F(a+b), to_double(F(a)+F(b))),
      (F(a+fr), to_double(F(a)+to_double(fr))),
    ]
    s = "%d.%0*d" % (rnd.randint(0,999), rnd.randint(1,12), rnd.randint(0, 10**6))
    checks.append((F(float(s)), to_double(F(s))))
    for j,(x,y) in enumerate(checks):
        if x != y: bad += 1; print("MISMATCH", j, a, b, fr, n, s)
print("bad", bad)
print(type(3*F(1,2)), type(2.5*F(1,2)), type(F(1,2)*2.5), type(3*2.5), 1.1*3*F(1,3))
