"""Design probe for C14.3/C16: model of authored-link rewriting (source file -> page lookup, serving-count
substitution, asset path, percent-encoding) vs the real generator. Reproduces finding F10."""
import os, random, shutil, sys, tempfile, posixpath
from pathlib import Path
from html.parser import HTMLParser
from urllib.parse import urlsplit, urlunsplit, quote, unquote
from recipe_grid.static_site.website import generate_static_site

class A(HTMLParser):
    """collect href of <a> whose text is 'L<i>' and src of <img alt='L<i>'>"""
    def __init__(s): super().__init__(); s.out = {}; s.cur = None
    def handle_starttag(s, tag, attrs):
        a = dict(attrs)
        if tag == "a": s.cur = a.get("href")
        if tag == "img" and (a.get("alt") or "").startswith("L"): s.out[a["alt"]] = a.get("src")
    def handle_data(s, data):
        if s.cur is not None and data.startswith("L"): s.out[data] = s.cur
    def handle_endtag(s, tag):
        if tag == "a": s.cur = None

def relative(f, t):
    fp = f.split("/")[:-1]; tp = t.split("/"); c = 0
    for a, b in zip(fp, tp):
        if a != b: break
        c += 1
    return "/".join([".."] * (len(fp) - c) + tp[c:])

rnd = random.Random(int(sys.argv[1]) if len(sys.argv) > 1 else 0)
ok = bad = f10 = 0
for it in range(int(sys.argv[2]) if len(sys.argv) > 2 else 30):
    M = rnd.randint(1, 3)
    # fixed small shape, random content: root/{README?, a/{r1.md, r2.md, img 1.png, sub/{r3.md, README?}}, b/{r4.md}}
    has_root_readme = rnd.random() < 0.5; has_sub_readme = rnd.random() < 0.5
    recipes = {"a/r1.md": rnd.choice([None, 1, 2]), "a/r2.md": rnd.choice([None, 1]), "a/sub/r3.md": rnd.choice([None, 1]), "b/r4.md": rnd.choice([None, 1])}
    recipes = {k: (v if v is None or v <= M else 1) for k, v in recipes.items()}
    assets = ["a/img 1.png", "b/data#1.txt"]
    targets = list(recipes) + ["a", "a/sub", "b", ""] + assets + (["README.md"] if has_root_readme else []) + (["a/sub/README.md"] if has_sub_readme else [])
    # lookup: source (relative posix path) -> (page path, scalable)
    lookup = {}
    for r, n in recipes.items():
        stem = r[:-3]
        lookup[r] = (f"/serves{n}/{stem}.html", True) if n else (f"/categories/{stem}.html", False)
    for dname in ["a", "a/sub", "b"]: lookup[dname] = (f"/categories/{dname}/index.html", True)
    lookup[""] = ("/categories/index.html", True)
    if has_root_readme: lookup["README.md"] = ("/index.html", True)
    if has_sub_readme: lookup["a/sub/README.md"] = ("/categories/a/sub/index.html", True)
    d = Path(tempfile.mkdtemp(prefix="rgsite")); src = d / "site"; out = d / "out"
    links = {}   # recipe -> list of (label, url)
    for r in recipes:
        ls = []
        for i in range(rnd.randint(1, 4)):
            t = rnd.choice(targets)
            form = rnd.choice(["abs", "rel", "rel"])
            if form == "abs": url = "/" + quote(t)
            else:
                url = quote(posixpath.relpath(t or ".", posixpath.dirname(r) or "."))
            url += rnd.choice(["", "", "#frag", "?q=1"])
            ls.append((f"L{i}", url, t))
        links[r] = ls
    for r, n in recipes.items():
        p = src / r; p.parent.mkdir(parents=True, exist_ok=True)
        body = f"# T{r[-5]}" + (f" for {n}" if n else "") + "\n\n    1 x\n\n" + "\n\n".join(f"[{lab}]({u})" for lab, u, _ in links[r]) + "\n"
        p.write_text(body)
    for a in assets: (src / a).write_bytes(os.urandom(8))
    if has_root_readme: (src / "README.md").write_text("# Home\n\nhi\n")
    if has_sub_readme: (src / "a/sub/README.md").write_text("# Sub\n\nhi\n")
    try:
        generate_static_site(src, out, M)
        for r, n in recipes.items():
            stem = r[:-3]
            pages = [f"/serves{m}/{stem}.html" for m in range(1, M + 1)] if n else [f"/categories/{stem}.html"]
            for page in pages:
                a = A(); a.feed((out / page[1:]).read_text())
                for lab, url, t in links[r]:
                    parts = urlsplit(url)
                    if t in lookup:
                        wp, scalable = lookup[t]
                        if page.startswith("/serves") and scalable:
                            wp = "/".join(page.split("/")[:2] + wp.split("/")[2:])
                    else:
                        wp = "/assets/" + t
                    exp = urlunsplit(parts._replace(path=quote(relative(page, wp))))
                    got = a.out.get(lab)
                    if got == exp: ok += 1
                    else:
                        bad += 1
                        if bad < 6: print("MISMATCH", page, url, "got", got, "exp", exp)
                    # F10: target exists?
                    res = posixpath.normpath(posixpath.join(posixpath.dirname(page), unquote(urlsplit(got).path)))
                    if not (out / res.lstrip("/")).is_file(): f10 += 1
        for a_ in assets:
            used = any(t == a_ for ls in links.values() for _, _, t in ls)
            assert (out / "assets" / a_).is_file() == used
            if used: assert (out / "assets" / a_).read_bytes() == (src / a_).read_bytes()
    finally:
        shutil.rmtree(d)
print("links ok", ok, "bad", bad, "links resolving to a non-file (F10-type)", f10)
