"""Design probe for C02/C04: dict-level layout model vs real code; borders spec; HTML placement."""
import random, sys
from recipe_grid.recipe import Ingredient, Step, SubRecipe, Reference
from recipe_grid.scaled_value_string import ScaledValueString as SVS
from recipe_grid.renderer.recipe_to_table import recipe_tree_to_table
from recipe_grid.renderer.table import Cell, ExtendedCell, BorderType
from recipe_grid.renderer.html import render_recipe_tree
from html.parser import HTMLParser

N, E, X = "normal", "sub_recipe", "none"
cnt = [0]
def gen(rnd, depth, root=True):
    cnt[0] += 1; i = cnt[0]
    r = rnd.random()
    if root and r < 0.15:
        return SubRecipe(gen(rnd, depth, False), (SVS(f"o{i}a"), SVS(f"o{i}b")))
    if depth <= 0 or r < 0.25:
        if rnd.random() < 0.2:
            return Reference(SubRecipe(Ingredient(SVS(f"r{i}")), (SVS(f"r{i}"),)))
        return Ingredient(SVS(f"i{i}"))
    if r < 0.45:
        return SubRecipe(gen(rnd, depth-1, False), (SVS(f"s{i}"),), show_output_names=rnd.random() < 0.6)
    return Step(SVS(f"f{i}"), tuple(gen(rnd, depth-1, False) for _ in range(rnd.randint(1, 4))))

# ---- model (dict level). cell = dict(row,col,rows,cols,node(path),l,r,t,b)
def mk(row, col, rows, cols, path): return dict(row=row, col=col, rows=rows, cols=cols, node=path, l=N, r=N, t=N, b=N)
def pad(t, w):
    h, w0, cs = t
    if w0 >= w: return t
    return (h, w, [dict(c, cols=w - c["col"]) if c["col"] + c["cols"] == w0 else c for c in cs])
def setb(t, ty):
    h, w, cs = t
    out = []
    for c in cs:
        c = dict(c)
        if c["col"] == 0: c["l"] = ty
        if c["col"] + c["cols"] == w: c["r"] = ty
        if c["row"] == 0: c["t"] = ty
        if c["row"] + c["rows"] == h: c["b"] = ty
        out.append(c)
    return (h, w, out)
def layout(t, path=(), root=True):
    if isinstance(t, (Ingredient, Reference)):
        tb = (1, 1, [mk(0, 0, 1, 1, path)])
        return setb(tb, E) if root else tb
    if isinstance(t, Step):
        ts = [layout(x, path + (i,), False) for i, x in enumerate(t.inputs)]
        w = max(x[1] for x in ts); ts = [pad(x, w) for x in ts]
        cs = []; r0 = 0
        for (h, _, c) in ts:
            cs += [dict(x, row=x["row"] + r0) for x in c]; r0 += h
        cs.append(mk(0, w, r0, 1, path))
        tb = (r0, w + 1, cs)
        return setb(tb, E) if root else tb
    if isinstance(t, SubRecipe):
        (h, w, cs) = layout(t.sub_tree, path + (0,), False)
        if len(t.output_names) == 1:
            if t.show_output_names:
                hd = mk(0, 0, 1, w, path)
                return setb((h + 1, w, [hd] + [dict(x, row=x["row"] + 1) for x in cs]), E)
            return setb((h, w, cs), E)
        (h, w, cs) = setb((h, w, cs), E)
        oc = mk(0, w, h, 1, path); oc.update(t=X, r=X, b=X)
        return (h, w + 1, cs + [oc])

def node_at(t, path):
    for i in path:
        t = t.inputs[i] if isinstance(t, Step) else t.sub_tree
    return t
def real_cells(t):
    tb = recipe_tree_to_table(t)
    out = []
    for (r, c), cell in tb.to_dict().items():
        out.append((r, c, cell.rows, cell.columns, id(cell.value), cell.border_left.name, cell.border_right.name, cell.border_top.name, cell.border_bottom.name))
    return tb.rows, tb.columns, sorted(out)
def model_cells(t):
    h, w, cs = layout(t)
    return h, w, sorted((c["row"], c["col"], c["rows"], c["cols"], id(node_at(t, c["node"])), c["l"], c["r"], c["t"], c["b"]) for c in cs)

# ---- borders spec, geometry-independent
def subtree_paths(t, path=()):
    yield path
    if isinstance(t, Step):
        for i, x in enumerate(t.inputs): yield from subtree_paths(x, path + (i,))
    elif isinstance(t, SubRecipe): yield from subtree_paths(t.sub_tree, path + (0,))
def outlined(t, path=(), root=True):
    """paths p whose cell set (cells with node path extending p) is outlined"""
    if isinstance(t, SubRecipe):
        if len(t.output_names) == 1: yield (path, True)   # include own header
        else: yield (path + (0,), True)                    # body only
        yield from outlined(t.sub_tree, path + (0,), False)
    else:
        if root: yield (path, True)
        if isinstance(t, Step):
            for i, x in enumerate(t.inputs): yield from outlined(x, path + (i,), False)
def check_borders(t):
    h, w, cs = layout(t)
    regions = []
    for p, _ in outlined(t):
        mine = [c for c in cs if c["node"][:len(p)] == p]
        r0 = min(c["row"] for c in mine); r1 = max(c["row"] + c["rows"] for c in mine)
        c0 = min(c["col"] for c in mine); c1 = max(c["col"] + c["cols"] for c in mine)
        assert sum(c["rows"] * c["cols"] for c in mine) == (r1 - r0) * (c1 - c0), "region not rect"
        regions.append((p, r0, r1, c0, c1))
    for c in cs:
        multi = isinstance(node_at(t, c["node"]), SubRecipe) and len(node_at(t, c["node"]).output_names) > 1
        for side in "lrtb":
            exp = N
            if multi and side in "trb": exp = X
            else:
                for (p, r0, r1, c0, c1) in regions:
                    if c["node"][:len(p)] != p: continue
                    on = {"l": c["col"] == c0, "r": c["col"] + c["cols"] == c1, "t": c["row"] == r0, "b": c["row"] + c["rows"] == r1}[side]
                    if on: exp = E
            assert c[side] == exp, (c, side, exp)

# ---- HTML placement (WHATWG forming a table, td only)
class TP(HTMLParser):
    def __init__(s): super().__init__(); s.rows = []; s.depth = 0
    def handle_starttag(s, tag, attrs):
        a = dict(attrs)
        if tag == "tr": s.rows.append([])
        if tag == "td": s.rows[-1].append((int(a.get("rowspan", 1)), int(a.get("colspan", 1)), a.get("class")))
def place(rows):
    occ = set(); out = []
    for y, row in enumerate(rows):
        x = 0
        for (rs, cs_, cl) in row:
            while (y, x) in occ: x += 1
            out.append((y, x, rs, cs_))
            for dy in range(rs):
                for dx in range(cs_): 
                    assert (y + dy, x + dx) not in occ
                    occ.add((y + dy, x + dx))
            x += cs_
    H = max(y for y, x in occ) + 1; W = max(x for y, x in occ) + 1
    assert len(occ) == H * W
    return H, W, sorted(out)

rnd = random.Random(int(sys.argv[1]) if len(sys.argv) > 1 else 0)
n = 0
for it in range(3000):
    t = gen(rnd, rnd.randint(0, 6))
    assert real_cells(t) == model_cells(t), "model != code"
    check_borders(t)
    h, w, cs = layout(t)
    p = TP(); p.feed(render_recipe_tree(t))
    assert place(p.rows) == (h, w, sorted((c["row"], c["col"], c["rows"], c["cols"]) for c in cs)), "html place"
    assert len(p.rows) == h and all(r for r in p.rows)
    n += 1
print("ok", n)
