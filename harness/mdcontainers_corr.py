#!/venv/bin/python
"""Correspondence for task L20: marko's code blocks (kind+lang, pos, captured source) in documents with ONE level of container
(block quotes, list items) and the padded source recipe_grid/markdown.py builds from them, against the Lean model `scanBlocks2` /
`paddedSource` (requests `md-blocks2`, `md-indoc2`).

    /venv/bin/python /tmp/lw/L20/corr_L20.py [seed] [n_structured] [n_soup]

Exit status 1 on any disagreement on a document the model accepts as a member of the sub-language D2 (`md-indoc2` = T), when the
statement of `scan2_block_lines` fails on marko's own output for such a document, when `md-indoc` = T but `md-indoc2` = F or the two
scanners differ (the conservative extension), or when a document of the boundary probe is accepted.  Documents outside D2 are compared
too, for information only (no claim)."""
import os
import random
import re
import sys
from collections import Counter

HERE = os.path.dirname(os.path.dirname(os.path.abspath(__file__)))
sys.path.insert(0, HERE)

from harness import sexp  # noqa: E402
from harness import mdblocks_corr as B  # noqa: E402
from harness.mdblocks_corr import real_view, pipeline_recipe_blocks, norm, ask, model_view, fix_str, G, WORDS, STMTS, LANGS, PLAIN_FIRST  # noqa: E402
from peggie.error_message_generation import offset_to_line_and_column  # noqa: E402

# ------------------------------------------------------------------ the statement of scan2_block_lines, on marko's outputs
CPREFIX = re.compile(r"(?: *| {0,3}> ?)\Z")


def is_cprefix(s):
    return CPREFIX.match(s) is not None


def line_property2(text, view):
    """every line of the padded source after the padding is the document line of the same number less a container prefix (spaces; or ≤3 spaces,
    `>`, ≤1 space) and ≤3 (fenced) / ≤4 (indented) spaces of indentation"""
    doc_lines = norm(text).splitlines()
    bad = []
    for kind, lang, pos, src, padded in view:
        k = offset_to_line_and_column(norm(text), pos)[0] - 1 + (1 if kind == "fenced" else 0)
        plines = padded.splitlines()
        if plines[:k] != [""] * k:
            bad.append(("padding", pos))
            continue
        for j, s in enumerate(plines[k:]):
            ln = k + j
            if ln >= len(doc_lines):
                if not (kind == "indented" and s == "" and ln == len(doc_lines) and j == len(plines) - k - 1):
                    bad.append(("beyond", pos, j))
                continue
            d = doc_lines[ln]
            ok = False
            if d.endswith(s):
                n = len(d) - len(s)
                pre = d[:n]
                for p in range(0, 4 if kind == "fenced" else 5):
                    if p <= n and pre[n - p:] == " " * p and is_cprefix(pre[:n - p]):
                        ok = True
            if not ok:
                bad.append(("line", pos, j, s, d))
    return bad


# ------------------------------------------------------------------ generation
MARKERS = ["-", "-", "+", "*", "1.", "1)", "2.", "7)", "10.", "0.", "123456789."]


class G2(G):
    """structured documents of D2: the pieces of D (harness/mdblocks_corr.G) mixed with block quotes and lists"""

    def inner_fenced(self, out, terminate=True):
        r = self.rng
        ch = r.choice("`~")
        n = r.choice([3, 3, 3, 4, 5])
        ind = r.choice([0, 0, 0, 1, 2, 3])
        lang = r.choice(LANGS[:6] + ["recipe", "new-recipe", "recipe", "new-recipe"])
        if ch == "`":
            lang = lang.replace("`", "")
        self.feat["in-container fence%s%d/indent%d" % (ch, n, ind)] += 1
        out.append(" " * ind + ch * n + r.choice(["", "", " ", "  "]) + lang + r.choice(["", "", " ", "  "]))
        for _ in range(r.choice([0, 1, 2, 3, 4, 6])):
            out.append(self.content_line(ch, n, ind))
        if terminate:
            out.append(" " * r.randint(0, 3) + ch * (n + r.choice([0, 0, 0, 1, 2])) + r.choice(["", "", " ", "   "]))
        else:
            self.feat["in-container unterminated"] += 1

    def inner_para(self, out, first_plain=False):
        r = self.rng
        for i in range(r.randint(1, 3)):
            if i == 0 and not first_plain and r.random() < 0.25:
                out.append(" " * r.choice([0, 0, 1, 3]) + r.choice(PLAIN_FIRST))
            elif i > 0 and r.random() < 0.2:
                out.append(" " * r.randint(4, 7) + r.choice(STMTS + [self.words()]))
            else:
                out.append(" " * r.choice([0, 0, 0, 1, 2, 3]) + self.words())

    def inner_indented(self, out):
        r = self.rng
        self.feat["in-container indented"] += 1
        n = r.randint(1, 3)
        for i in range(n):
            out.append(" " * r.choice([4, 4, 4, 5, 6, 8]) + r.choice(STMTS) + r.choice(["", "", " "]))
            if i + 1 < n and r.random() < 0.4:
                self.feat["in-container interior-blank"] += 1
                for _ in range(r.randint(1, 2)):
                    out.append(r.choice(["", "", " ", "  ", "   ", "    ", "    ", "     ", "       "]))

    def inner_heading(self, out):
        r = self.rng
        out.append(" " * r.choice([0, 0, 1, 3]) + "#" * r.randint(1, 6) + " " + self.words(1, 3))

    def inner_pieces(self, first_line_nonblank=True, allow_unterminated=True, quote=False):
        """inner lines of a container (without prefix); returns (lines, last_kind)"""
        r = self.rng
        out = []
        last = None
        n = r.randint(1, 4)
        for i in range(n):
            k = r.choice(["para", "para", "fenced", "fenced", "fenced", "heading", "blank", "indented", "indented"])
            if i == 0 and first_line_nonblank and k == "blank":
                k = "para"
            if k == "indented" and (last == "para" or (i == 0 and not quote)):
                if i == 0:
                    k = "heading"
                else:
                    out.append("")
            if k == "indented":
                self.inner_indented(out)
            elif k == "para":
                self.inner_para(out)
            elif k == "fenced":
                self.inner_fenced(out, terminate=not (allow_unterminated and i == n - 1 and r.random() < 0.3))
            elif k == "heading":
                self.inner_heading(out)
            else:
                for _ in range(r.randint(1, 2)):
                    out.append(r.choice(["", "", " ", "  "]))
            last = k
            if r.random() < 0.3 and i + 1 < n:
                out.append(r.choice(["", "", " "]))
        return out, last

    def quote(self, after_k=None):
        r = self.rng
        self.feat["quote"] += 1
        inner, last = self.inner_pieces(quote=True)
        style = r.choice(["space", "space", "nospace", "mixed"])
        ind = r.choice([0, 0, 0, 1, 2, 3]) if after_k is None else r.choice([0, 0, 1])
        for l in inner:
            sp = " " if style == "space" else "" if style == "nospace" else r.choice([" ", ""])
            i = ind if r.random() < 0.8 or after_k is not None else r.randint(0, 3)
            self.lines.append(" " * i + ">" + sp + l)
        return last

    def lst(self):
        r = self.rng
        self.feat["list"] += 1
        marker = r.choice(MARKERS)
        n_items = r.randint(1, 3)
        loose = r.random() < 0.4
        last = None
        prev_k = 4
        for it in range(n_items):
            ind = r.choice([i for i in [0, 0, 0, 1, 2, 3] if i < prev_k or r.random() < 0.05])
            mid = r.choice([1, 1, 1, 2, 3, 4])
            if marker[-1] in ".)":
                m = str(r.choice([1, 2, 3, 10, 99])) + marker[-1] if it > 0 else marker
            else:
                m = marker
            k = ind + len(m) + mid
            prev_k = k
            inner, last = self.inner_pieces()
            self.feat["item k=%d" % k] += 1
            for j, l in enumerate(inner):
                if j == 0:
                    self.lines.append(" " * ind + m + " " * mid + l.lstrip(" "))
                elif l.strip(" ") == "" and r.random() < 0.7:
                    # short blank line
                    self.lines.append(" " * r.randint(0, k))
                else:
                    self.lines.append(" " * k + l)
            if it + 1 < n_items and (loose or r.random() < 0.2):
                self.lines.append(r.choice(["", "", " "]))
        return last

    def doc(self):
        r = self.rng
        prev = "start"
        for _ in range(r.randint(1, 8)):
            k = r.choice(["heading", "para", "blanks", "fenced", "indented", "quote", "quote", "quote", "list", "list", "list"])
            if k == "indented" and prev in ("para", "quote-para", "list"):
                self.blanks()
            if k == "para" and prev in ("quote-para", "list-para"):
                if r.random() < 0.45:
                    self.blanks()
                else:
                    self.feat["lazy-continuation"] += 1
            if k == "heading":
                self.heading()
            elif k == "para":
                self.para()
            elif k == "blanks":
                self.blanks()
            elif k == "fenced":
                self.fenced()
            elif k == "indented":
                self.indented()
            elif k == "quote":
                last = self.quote(after_k=(2 if prev.startswith("list") else None))
                k = "quote-para" if last == "para" else "quote"
            else:
                last = self.lst()
                k = "list-para" if last == "para" else "list"
            prev = k
            if r.random() < 0.45:
                self.blanks()
                prev = "blanks"
        if r.random() < 0.1:
            self.fenced(terminate=False)


LINE_POOL2 = B.LINE_POOL + [
    "> ", ">", "- ", "1. ", "  - ", "> x", ">x", ">  x", "   > x", "    > x", "> ```", ">```recipe", "> ```recipe", ">  ~~~new-recipe", "> ~~~", ">```", ">    ```", ">     code",
    "> # h", "> - a", ">> a", "> > a", "- a", "- ```recipe", "-  ~~~", "+ a", "* a", "1. a", "1) a", "2. a", "10. ```", "  x", "   x", "  ```", "   ```", "    ```", "  ~~~", "     ~~~",
    "  - a", "   1. a", "    - a", "-", "-a", "-     a", "- > a", "- # h", "- - a", "* * *", "- - -", "---", "> ---", "> ===", "  ", "   ", ">\x0cx", ">\xa0x", "-\x0ca", "- \xa0a",
    ">\rx", "> x\ry", "1234567890. a", "١. a", "- ***", "> <div>", "- [x]: y", "  y = 2", ">   y = 2", "  ```recipe", "   ~~~ new-recipe", "> ", ">  ", "-  ", "1.", "1.  ",
]


def line_soup2(rng):
    out = []
    crlf = rng.random()
    for _ in range(rng.randint(1, 9)):
        e = rng.choice(["\n", "\r\n"]) if crlf < 0.8 else rng.choice(["\n", "\n", "\r\n", "\r\n", "\r", "\r\r\n"])
        out.append(rng.choice(LINE_POOL2) + e)
    t = "".join(out)
    if rng.random() < 0.2:
        t = t[:-1]
    return t


SOUP2 = B.SOUP + [">", ">", "> ", "- ", "- ", "1. ", "2) ", "+ ", "* ", "  ", "  ", "   ", ">"]

EXDOC2 = ("Stew\r\n\r\n> Note:\r\n>\r\n>  ```recipe\r\n>  x = 1 egg\r\n>    y = fry(x)\r\n>  ```\r\n\r\n1. First\r\n\r\n   ~~~new-recipe\r\n   z = 2 eggs\r\n\r\n    w = boil(z)\r\n   ~~~\r\n2. Done\r\n")

CORNERS2 = B.CORNERS + [
    EXDOC2,
    ">", "> ", ">\n", "> \n", ">  \n", "> a", "> a\n", ">a\n", "   >a\n", "    >a\n", "> ```recipe\n> x\n> ```\n", ">```recipe\n>x\n>```\n", ">  ```recipe\n>   x\n> y\n>  ```\n",
    "> ```recipe\n> x\ny\n", "> ```recipe\n> x\n", "> ```recipe\n> x", "> ```recipe\n>", "> ```recipe\n> ", "> ```recipe", "> a\n>\n> ```recipe\n> x\n", "> a\n> ```recipe\n> x\n> ```\n> b\n",
    "> foo\nbar\n    baz\n", "> foo\n```\nx\n", "> foo\n# h\n    code\n", "> foo\n\n    code\n", "> ```\n> x\n> ```\n    code\n", "> foo\n- a\n", "> foo\n2. a\n", "> foo\n-\n",
    "> foo\n    > bar\n", "> ```\n>\n>  \n>x\n", ">   ```\n>x\n>    y\n", "   > ```\n   > x\n > y\n>z\n    > w\n", "> ```\n> ```\n> ```\n", "text\n> q\n", "text\n> ```recipe\n> x\n",
    "    code\n> q\n", "    code\n\n> ```recipe\n> x\n", "```\n> x\n```\n", "> # h\n> ```recipe\n> x\n", "> ~~~new-recipe a\n> x\n> ~~~~\n", ">\t```\n", "> a\n> b\n>\n> c\n",
    "- ```recipe\n  x\n  ```\n", "-   ```recipe\n    x\n\n  y\n    ```\n", "1. foo\n\n    ```recipe\n    x\n   y\n", "- a\n\n  ~~~new-recipe\n   x\n\n  ~~~\n- b\n",
    "- a\n  ", "- a\n  \n", "- a\n  ```\n", "- a\n  ```\n  ", "- a\n  ```\n ", "- a\n  ```\n \n", "- a\n  ```\n\n  x\n", "- a\n  ```\n   \n  x\n", "- ```recipe\n\n x\n", "- ```recipe\n\n  x\n \n  y\n",
    "1. ```recipe\n   x\n   ```\n", "  - a\n    ```\n    b\n", " 10. a\n     ```\n     b\n", "- a\n  ```\n  b\n- c\n", "- a\n\n    ```\n    b\n", "- a\n\n     ```\n     b\n", "- a\n\n      ```\n",
    "- a\n      lazy?\n", "- a\nlazy\n", "- a\n lazy\n", "- a\n\n lazy\n", "- a\n\npara\n", "- a\n\n  para\n\n- b\n", "* a\n* b\n\n```recipe\nx\n```\n", "- a\n```recipe\nx\n```\n",
    "- a\n  ```recipe\n  x\n```\n", "- a\n  ```recipe\n  x\n  ```\nlazy?\n", "text\n- item\n", "text\n2. item\n", "text\n1) item\n", "text\n1. ```recipe\n   x\n", "text\n- ```recipe\n  x\n",
    "- a\n+ b\n  ```\n  x\n", "- a\n1. b\n   ```\n   x\n", "1. a\n2. b\n3. c\n   ```recipe\n   x\n   ```\n", "-    a\n     ```\n     x\n", "-    a\n  ```\n  x\n", "- a\n   ```\n  x\n ```\n",
    "- a\n\n\n  ```\n  b\n", "- a\n    \n  ```\n  b\n", "- # h\n  ```\n  b\n", "- a\n  # h\n  ```\n  b\n", "- a\n> b\n", "> a\n- b\n  ```\n  x\n", "- a\n  ```\n  x\n> y\n", "- ```\n  x\n- ```\n  y\n",
    "    code\n- a\n", ">     code\n", "> # h\n>     code\n", "- a\n\n      code\n", ">     a\n>\n>     b\n", ">     a\n> \n>     \n>     b\n", ">     a\n>\n", ">     a\n>     ",
    "- x\n\n      a\n\n      b\n", "- x\n\n      a\n      \n \n      b\n", "- x\n\n      a\n  \n      b\nlazy?\n", "1. x\n\n       a\n   y\n", "> a\n>\n>     code\n>  b\n", ">     a\nb\n", ">     a\n    b\n",
    "- # h\n      code\n", "- ```\n  a\n  ```\n      code?\n", ">      six\n>     \r\n>       seven\n", "- a\n\n    notcode\n\n      code\n", "123456789. a\n           ```\n           x\n", "- a\n  b\n  c\n", "- a\n\n  b\n\n  ```recipe\n  x\n  ```\n\n  c\n\nd\n",
]

BOUNDARY2 = [
    ("quote-eof", ">"), ("quote-eof-sp", "> a\n> "), ("quote-ff", ">\x0ca\n"), ("quote-nbsp", ">\xa0```\n>\xa0x\n"), ("quote-cr", ">\rx\n"), ("quote-code-blank5", ">     a\n>      \n>     b\n"),
    ("quote-code-blank-ff", ">     a\n> \x0c\n>     b\n"), ("quote-nested", ">> a\n"), ("quote-list", "> - a\n"), ("quote-html", "> <div>\n"), ("quote-setext", "> a\n> ===\n"),
    ("quote-thematic", "> ***\n"), ("quote-tab", ">\tx\n"), ("quote-linkref", "> [x]: y\n"), ("lazy-setext", "> a\n===\n"), ("lazy-html", "> a\n<div>\n"),
    ("item-eof", "- a\n  "), ("item-empty", "-\n"), ("item-empty-sp", "-  \n  a\n"), ("item-5sp", "-     code\n"), ("item-code-blank7", "- x\n\n      a\n       \n      b\n"), ("item-code-blank8", "- x\n\n      a\n        \n      b\n"), ("item-ff", "-\x0ca\n"),
    ("item-nbsp", "- \xa0a\n"), ("item-nested", "- a\n  - b\n"), ("item-nested-first", "- - a\n"), ("item-quote", "- > a\n"), ("item-quote-2", "- a\n  > b\n"), ("item-thematic", "- - -\n"),
    ("item-thematic-in", "- ***\n"), ("item-html", "- <div>\n"), ("item-tab", "-\ta\n"), ("item-eof-marker", "-"), ("item-10digits", "1234567890. a\n"), ("item-no-interrupt", "text\n2. a\n"),
    ("item-setext", "text\n-\n"), ("item-fence-ff", "- ```recipe\x0c\n  x\n"), ("quote-fence-cr", "> ```recipe\r\r\n> x\n"), ("item-body-ws", "-  a\n\n    ```recipe\n   \x0cx\n    ```\n"),
    ("unicode-digit-in-quote", "> ١. a\n"), ("unicode-digit", "١. a\n\n       code\n"), ("unicode-digit-fullwidth", "１. a\n\n       code\n"),
    ("unicode-digit-para", "text\n١. a\n"), ("unicode-digit-item", "١. ```recipe\n   x\n"), ("unicode-digit-lazy", "> a\n١. b\n"), ("unicode-digit-in-item", "- a\n  ٣) b\n"),
]


def collect(seed, n_struct, n_soup, ask=None):
    ask = ask or globals()["ask"]
    rng = random.Random(seed)
    docs = []
    for i in range(n_struct):
        g = G2(rng, exotic=(i % 7 == 6))
        g.doc()
        t, mode, final, bom = g.text()
        docs.append(("structured-exotic" if g.exotic else "structured", t, dict(mode=mode, final=final, bom=bom, feat=g.feat)))
    for i in range(n_struct // 4):
        g = G(rng, exotic=False)      # documents of D
        g.doc()
        t, mode, final, bom = g.text()
        docs.append(("structured-D", t, dict(mode=mode, final=final, bom=bom, feat=g.feat)))
    for i in range(n_soup):
        docs.append(("soup", B.soup(rng, SOUP2), {}))
    for i in range(n_soup):
        docs.append(("line-soup", line_soup2(rng), {}))
    for t in CORNERS2:
        docs.append(("corner", t, {}))
    for name, t in BOUNDARY2:
        docs.append(("boundary", t, dict(name=name)))

    seen, uniq = set(), []
    for d in docs:
        if d[1] not in seen or d[0] == "boundary":
            seen.add(d[1])
            uniq.append(d)
    docs = uniq

    reqs = []
    for _, t, _ in docs:
        reqs.append(sexp.tag("md-blocks2", sexp.s(t)))
        reqs.append(sexp.tag("md-indoc2", sexp.s(t)))
        reqs.append(sexp.tag("md-blocks", sexp.s(t)))
        reqs.append(sexp.tag("md-indoc", sexp.s(t)))
        reqs.append(sexp.tag("md-tags2", sexp.s(t)))
    replies = ask(reqs)

    dist = Counter()
    feat = Counter()
    disagreements = []
    outside_disagree = Counter()
    outside_examples = {}
    prop_fail = []
    boundary_rows = []
    in_d_by_group = Counter()
    total_by_group = Counter()
    crashes = []
    for i, (group, t, meta) in enumerate(docs):
        mblocks = model_view(replies[5 * i])
        ind2 = replies[5 * i + 1]
        mblocks1 = model_view(replies[5 * i + 2])
        ind1 = replies[5 * i + 3]
        total_by_group[group] += 1
        # the conservative extension, observed
        if ind1 and not (ind2 and mblocks == mblocks1):
            disagreements.append(("not-conservative", t, mblocks1, mblocks))
        try:
            rview, nested, top = real_view(t)
        except Exception as e:
            crashes.append((group, t, repr(e), ind2))
            if ind2:
                disagreements.append(("marko-raised-in-D2", t, repr(e), None))
            if group == "boundary":
                boundary_rows.append((meta["name"], ind2, "marko raised"))
            continue
        pipe = pipeline_recipe_blocks(t)
        expect_pipe = [(k, l, p, s) for (k, l, p, s, _) in rview if k == "indented" or l in ("recipe", "new-recipe")]
        if [(k, (None if k == "indented" else l), p, s) for (k, l, p, s) in pipe] != [(k, (None if k == "indented" else l), p, s) for (k, l, p, s) in expect_pipe]:
            disagreements.append(("pipeline-vs-parse", t, pipe, expect_pipe))
        m_cmp = [(k, l, p, fix_str(s), fix_str(pd)) for (k, l, p, s, pd, _) in mblocks]
        r_cmp = [(k, l, p, s, pd) for (k, l, p, s, pd) in rview]
        agree = (m_cmp == r_cmp)
        if group == "boundary":
            boundary_rows.append((meta["name"], ind2, agree))
            if ind2:
                disagreements.append(("boundary-accepted", t, None, None))
            continue
        if not ind2:
            dist["outside-D2/" + group] += 1
            if not agree:
                outside_disagree[group] += 1
                outside_examples.setdefault(group, []).append(t)
            continue
        in_d_by_group[group] += 1
        if not agree:
            disagreements.append(("blocks", t, r_cmp, m_cmp))
            continue
        for (k, l, p, s, pd, start), (_, _, _, _, rpd) in zip(mblocks, rview):
            pad = offset_to_line_and_column(norm(t), p)[0] - 1 + (1 if k == "fenced" else 0)
            if start != pad + 1:
                disagreements.append(("startLine", t, pad + 1, start))
        bad = line_property2(t, rview)
        if bad:
            prop_fail.append((t, bad))
        # distribution
        kinds_seen = set()
        for tg in replies[5 * i + 4]:
            ctx = tg[1] if isinstance(tg[1], str) else "none" if tg[1] is None else tg[1][0]
            ctx = "none" if ctx in (None, "none") else ctx
            name = "lazy-continuation(no prefix)" if (tg[0] == "lazy" and ctx != "none" and tg[2] == 0) else tg[0]
            kinds_seen.add("line %s in %s" % (name, ctx))
        for k_ in kinds_seen:
            dist["docs with a " + k_] += 1
        dist["blocks/doc=%d" % min(len(rview), 6)] += 1
        if nested:
            dist["docs with a block inside a container"] += 1
        if not ind1:
            dist["docs in D2 but not in D"] += 1
        blocks_full, _ = B.real_blocks(t)
        for (k, l, p, s, depth) in blocks_full:
            where = "top" if depth == 0 else "quote" if depth == 1 else "list-item"
            dist["block %s in %s" % (k if k == "indented" else "fenced:" + (l if l in ("recipe", "new-recipe", "python", "", "RECIPE") else "other"), where)] += 1
            dist["source-lines=%d" % min(len(s.splitlines()), 6)] += 1
        if meta.get("mode"):
            dist["endings=" + meta["mode"]] += 1
            dist["final-newline=%s" % meta["final"]] += 1
            if meta["bom"]:
                dist["bom"] += 1
            feat.update(meta["feat"])
        for name in set(top):
            dist["top-level:" + name] += 1

    return dict(docs=len(docs), total_by_group=total_by_group, in_d_by_group=in_d_by_group, dist=dist, feat=feat, outside_disagree=outside_disagree,
                outside_examples=outside_examples, crashes=crashes, boundary_rows=boundary_rows, prop_fail=prop_fail, disagreements=disagreements)


def main():
    seed = int(sys.argv[1]) if len(sys.argv) > 1 else 20260930
    n_struct = int(sys.argv[2]) if len(sys.argv) > 2 else 4000
    n_soup = int(sys.argv[3]) if len(sys.argv) > 3 else 3000
    r = collect(seed, n_struct, n_soup)
    total_by_group, in_d_by_group, dist, feat = r["total_by_group"], r["in_d_by_group"], r["dist"], r["feat"]
    print("documents (distinct): %d" % r["docs"])
    for g in sorted(total_by_group):
        print("  %-18s %5d   accepted by md-indoc2: %5d" % (g, total_by_group[g], in_d_by_group[g]))
    print("distribution over the accepted documents:")
    for k in sorted(dist):
        print("  %-48s %d" % (k, dist[k]))
    print("generator features (accepted structured documents):")
    for k in sorted(feat):
        print("  %-48s %d" % (k, feat[k]))
    print("outside D2, model and marko differ (no claim): %s" % dict(r["outside_disagree"]))
    for g, ts in r["outside_examples"].items():
        for t in ts[:4]:
            print("   e.g. %s: %s" % (g, repr(t) if len(repr(t)) <= 160 else repr(t)[:160] + "…"))
    crashes = r["crashes"]
    print("marko raised an exception on %d documents (all outside D2: %s)" % (len(crashes), all(not c[3] for c in crashes)))
    for c in crashes[:3]:
        print("   e.g. %s -> %s" % (repr(c[1]) if len(repr(c[1])) <= 160 else "…" + repr(c[1])[-160:], c[2]))
    print("boundary probe (name, md-indoc2, model agrees with marko anyway):")
    for row in r["boundary_rows"]:
        print("  %-26s indoc2=%s agree=%s" % row)
    print("line property (padded line = document line less container prefix and indentation) violated on accepted documents: %d" % len(r["prop_fail"]))
    for t, bad in r["prop_fail"][:10]:
        print("   %r -> %r" % (t, bad[:2]))
    print("DISAGREEMENTS: %d" % len(r["disagreements"]))
    for d in r["disagreements"][:25]:
        print("  %s\n    doc   = %r\n    real  = %r\n    model = %r" % d)
    sys.exit(1 if r["disagreements"] or r["prop_fail"] else 0)


if __name__ == "__main__":
    main()
