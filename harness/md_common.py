"""Shared pieces of the Markdown checks (C09, C10, C13, C18, C19)."""
import random as _random
from fractions import Fraction

from . import sexp, rsexp, gen_md


def doc_sexp(mr):
    svs = sexp.lst(lambda kv: sexp.tag("p", sexp.s(kv[0]), rsexp.svs(kv[1])), list(mr.scaled_value_strings.items()))
    recipes = sexp.lst(lambda kv: sexp.tag("r", sexp.s(kv[0]), sexp.b(kv[1].follows is None), sexp.lst(rsexp.tree, kv[1].recipe_trees)),
                       list(mr.recipe_placeholders.items()))
    pp = "none"
    if mr.pre_title_placeholder is not None and mr.post_title_placeholder is not None:
        pp = "(some %s)" % sexp.tag("pp", sexp.s(mr.pre_title_placeholder), sexp.s(mr.post_title_placeholder))
    return sexp.tag("doc", sexp.s(mr.html), svs, recipes, sexp.b(mr.title is not None), sexp.opt(str, mr.servings), pp)


def gen_scale(rng):
    return rng.choice([1, 1, 2, 3, Fraction(1, 2), Fraction(3, 2), Fraction(5, 4), 0.5, 1.5, 10, Fraction(1, 3), 1.0])


def heading_events(events):
    return [e for e in events if e[0] == "heading"]


def block_events(events):
    return [e for e in events if e[0] in ("recipe-block", "other-fence")]
