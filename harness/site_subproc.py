"""generate one site in a fresh interpreter:  python -m harness.site_subproc SRC OUT M MODE SEED   (MODE: sorted | rev | shuffle)
prints a JSON object {file: sha256} or {"raises": name}"""
import hashlib
import json
import sys
from pathlib import Path


def main():
    src, out, M, mode, seed = sys.argv[1], sys.argv[2], int(sys.argv[3]), sys.argv[4], int(sys.argv[5])
    from harness.props.c17 import Listing
    from harness import gen_site
    from recipe_grid.static_site.website import generate_static_site
    try:
        with Listing(mode, seed):
            generate_static_site(Path(src), Path(out), M)
    except Exception as e:  # noqa
        print(json.dumps({"raises": type(e).__name__}))
        return
    o = Path(out)
    print(json.dumps({f: hashlib.sha256((o / f[1:]).read_bytes()).hexdigest() for f in gen_site.output_files(o)}))


if __name__ == "__main__":
    main()
