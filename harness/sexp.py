"""S-expression encoding shared with lean/RecipeGrid/Model/Sexp.lean."""
from fractions import Fraction


def s(text):
    return "(s" + "".join(" %d" % ord(c) for c in text) + ")"


def num(x):
    if isinstance(x, bool):
        raise TypeError("bool is not a number here")
    if isinstance(x, int):
        return "(int %d)" % x
    if isinstance(x, Fraction):
        return "(frac %d %d)" % (x.numerator, x.denominator)
    if isinstance(x, float):
        p, q = x.as_integer_ratio()
        return "(flt %d %d)" % (p, q)
    raise TypeError(type(x))


def opt(f, x):
    return "none" if x is None else "(some %s)" % f(x)


def lst(f, xs):
    return "(l" + "".join(" " + f(x) for x in xs) + ")"


def b(x):
    return "T" if x else "F"


def tag(t, *xs):
    return "(" + " ".join((t,) + tuple(xs)) + ")"


def parse(text):
    """Parse one S-expression into nested Python lists of str atoms."""
    stack = [[]]
    tok = []
    for ch in text:
        if ch in "() \n\r\t":
            if tok:
                stack[-1].append("".join(tok))
                tok = []
            if ch == "(":
                stack.append([])
            elif ch == ")":
                top = stack.pop()
                stack[-1].append(top)
        else:
            tok.append(ch)
    if tok:
        stack[-1].append("".join(tok))
    if len(stack) != 1 or len(stack[0]) != 1:
        raise ValueError("bad sexp: %r" % text[:200])
    return stack[0][0]


def decode(x):
    """Turn a parsed reply into plain Python data: strings, numbers, lists, tagged tuples."""
    if isinstance(x, str):
        if x == "none":
            return None
        if x == "T":
            return True
        if x == "F":
            return False
        try:
            return int(x)
        except ValueError:
            return x
    if not x:
        return ()
    head = x[0]
    if head == "s":
        return "".join(chr(int(c)) for c in x[1:])
    if head == "l":
        return [decode(y) for y in x[1:]]
    if head == "some" and len(x) == 2:
        return decode(x[1])
    if head == "int" and len(x) == 2:
        return ("int", int(x[1]))
    if head in ("frac", "flt") and len(x) == 3:
        return (head, Fraction(int(x[1]), int(x[2])))
    return tuple(decode(y) for y in x)


def pynum(x):
    """Canonical comparable form of a Python number matching decode() of Num.toSexp."""
    if isinstance(x, int):
        return ("int", x)
    if isinstance(x, Fraction):
        return ("frac", x)
    if isinstance(x, float):
        return ("flt", Fraction(*x.as_integer_ratio()))
    raise TypeError(type(x))
