#!/venv/bin/python
"""Correspondence for task L4: recipe_grid.number_parser.number(text) against the Lean model `numberReader`
(request `(read-number <text>)`), plus the grammar's `number` rule against the same texts where it matches completely.

Run:  /venv/bin/python /tmp/lw/L4/corr_L4.py [--seed N] [--soup-len 5|6]
Exit status 0 iff there is no disagreement."""
import itertools
import random
import subprocess
import sys
from collections import Counter
from fractions import Fraction
from pathlib import Path

HERE = Path(__file__).resolve().parent.parent
sys.path.insert(0, str(HERE))

from harness import sexp  # noqa: E402
from harness.props import c11  # noqa: E402
from recipe_grid.number_formatting import format_number  # noqa: E402
from recipe_grid.number_parser import number as parse_number  # noqa: E402

DRIVER = HERE / "lean" / ".lake" / "build" / "bin" / "driver"
ALPHABET = "0123456789./ \t"
MAXLEN = 300


def ask(requests):
    if not requests:
        return []
    p = subprocess.run([str(DRIVER)], input="\n".join(requests) + "\n", stdout=subprocess.PIPE, stderr=subprocess.PIPE,
                       text=True, timeout=3600)
    lines = p.stdout.splitlines()
    if p.returncode != 0 or len(lines) != len(requests):
        raise RuntimeError("driver failed: rc=%s, %d replies for %d requests; stderr=%s" % (p.returncode, len(lines), len(requests), p.stderr[-400:]))
    return [sexp.decode(sexp.parse(l)) for l in lines]


def impl(text):
    """what the real code does: ('value', (kind, exact value)) or the name of the exception class"""
    try:
        r = parse_number(text)
    except Exception as e:  # noqa
        return type(e).__name__
    if isinstance(r, float) and (r != r or r in (float("inf"), float("-inf"))):
        return ("value", ("flt", repr(r)))
    return ("value", sexp.pynum(r))


def in_l(text):
    return len(text) <= MAXLEN and all(c in ALPHABET for c in text)


def classify(text, res):
    if not in_l(text):
        return "outside-L"
    if isinstance(res, tuple):
        kind = res[1][0]
        if kind == "frac":
            return "L:Fraction" + (" (mixed)" if any(c in " \t" for c in text.split("/")[0].strip()) and text.split("/")[0].strip(" \t").count(" ") + text.split("/")[0].strip(" \t").count("\t") > 0 else "")
        if kind == "int":
            return "L:int" + (" (stripped blanks)" if text != text.strip() else "")
        return "L:float" + (" (stripped blanks)" if text != text.strip() else "") + (" (no digit before the point)" if text.strip().startswith(".") else "") + (" (no digit after the point)" if text.strip().endswith(".") else "")
    return "L:" + res


def main():
    seed = 20260930
    soup_len = 5
    args = sys.argv[1:]
    while args:
        a = args.pop(0)
        if a == "--seed":
            seed = int(args.pop(0))
        elif a == "--soup-len":
            soup_len = int(args.pop(0))
    rng = random.Random(seed)
    streams = []  # (stream name, text, expect_outside)

    # 1. every format_number(x) for x from C11's generators
    xs = list(c11.CORPUS) + c11.gen_numbers(rng, 6000)
    shown = {}
    for x in xs:
        shown.setdefault(format_number(x), x)
    for t in shown:
        streams.append(("format_number", t, False))

    # 2. exhaustive short soups
    for n in range(0, soup_len + 1):
        for tup in itertools.product(ALPHABET, repeat=n):
            streams.append(("soup", "".join(tup), False))

    # 3. the fraction spellings of check_reader
    for i in (None, 0, 1, 2, 9, 10, 12, 107):
        for n in (0, 1, 2, 3, 7, 9, 10, 11, 12, 25, 99, 100, 113):
            for d in (0, 1, 2, 3, 4, 7, 8, 10, 11, 12, 16, 100):
                for text in (("%d/%d", "%d / %d", "%d\t/%d") if i is None else ("%d %d/%d", "%d  %d / %d", "%d\t%d/ %d")):
                    streams.append(("check_reader spellings", text % ((n, d) if i is None else (i, n, d)), False))
    for t in ("0", "7", "12", "1234567", "3.14", "0.5", "10.25", "007"):
        streams.append(("check_reader spellings", t, False))

    # 4. structured random texts of L (long digit runs, many decimals, blanks everywhere)
    def digs(lo, hi):
        return "".join(rng.choice("0123456789") for _ in range(rng.randint(lo, hi)))

    def hs(lo, hi):
        return "".join(rng.choice(" \t") for _ in range(rng.randint(lo, hi)))
    for _ in range(4000):
        k = rng.random()
        if k < 0.2:
            t = hs(0, 2) + digs(1, rng.choice([3, 20, 290])) + hs(0, 2)
        elif k < 0.5:
            t = hs(0, 1) + digs(0, rng.choice([2, 17, 25, 140])) + "." + digs(0, rng.choice([2, 17, 30, 140])) + hs(0, 1)
        elif k < 0.6:
            t = "0." + "0" * rng.randint(0, 280) + digs(1, 17)
        elif k < 0.8:
            t = digs(1, 4) + hs(0, 2) + "/" + hs(0, 2) + rng.choice([digs(1, 3), "0", "00", "0" + digs(1, 2)])
        elif k < 0.95:
            t = digs(1, 4) + hs(1, 3) + digs(1, 4) + hs(0, 2) + "/" + hs(0, 2) + rng.choice([digs(1, 3), "0", "000", "0" + digs(1, 2)])
        else:
            t = "".join(rng.choice(ALPHABET) for _ in range(rng.randint(6, 12)))
        streams.append(("structured L", t[:MAXLEN], False))
    # hand-picked corner cases in L
    for t in ["", ".", " ", "\t", "1 2", "1/2/3", " 12", "12 ", "1 /2", "1 / 2", "007", "12.", ".5", "1.5", " .5 ", "1. ", "1 .5", "1/0", "1 1/0", "0/0",
              "0/5", "4/2", "00/01", "1  2/3", "1.2.3", "1./2", "1 2 3/4", " 1/2", "1/2 ", "1\t \t3/4", "1 2/ 3", "1 2 /3", "9007199254740993", "9007199254740993.",
              "0.1", "0.30000000000000004", "2.675", "1.005", "123456789012345678901234567890.5", "5e-324".replace("e-", "."), "9" * 300, "9" * 299 + ".",
              "." + "0" * 298 + "1", "1" + "0" * 298 + ".", "4.35", "0.5000000000000000277555756156289135105907917022705078125",
              "9007199254740992.5", "9007199254740993.5", "1.00000000000000011102230246251565404236316680908203125", "1.00000000000000011102230246251565404236316680908203126",
              "179769313486231570" + "0" * 280, "10 3/4", "10  3 /  4", "3/4", "1 3/4", "10", "0", "0.002", "1.25", "1.5\t", "2 1/00", "1 01/02", "10.2", "0.111", "0.125"]:
        streams.append(("corner cases in L", t, False))

    # 5. just outside L: the model must answer `outside` (signs, underscores, exponents, other spaces, other digits, names)
    for t in ["-1", "+1", "1_000", "1e3", "1E3", "1.5e2", "\u00a012", "12\u00a0", "\u0661\u0662", "\u0661/\u0662", "inf", "nan", "Infinity", "-0.0", "0x10",
              "1\n", "\n1", "1\r", "1/2\n", "1\u20092", "\uff11", "1,5", "1\u20442", "\u00bd", "1 1/2x", "a", "1\v2", "1\f", "\x0c1", "1\x1c",
              "9" * 301, "1/" + "3" * 300, " " * 301, "1." + "0" * 299, "1\u30002", "\u0663.\u0665", "1\uff0e5", "--1", "1-", "(1)", "1:2", "1 1/2\u00a0",
              "\u00a01 1/2", "1\u00a01/2", "\u0967", "1\u2028", "\ufeff1", "1\x00", "1\x85"]:
        assert not in_l(t), t
        streams.append(("outside L (boundary)", t, True))
    for _ in range(1500):
        base = list(rng.choice(list(shown)) if rng.random() < 0.5 else "".join(rng.choice(ALPHABET) for _ in range(rng.randint(1, 6))))
        bad = rng.choice(["-", "+", "_", "e", "E", "\u00a0", "\u0663", "\n", "\r", "\v", "\f", "x", ",", "\u2044", "\u3000", "\uff10", "i", "n", "\x1f", "\x85", "\u2028"])
        base.insert(rng.randint(0, len(base)), bad)
        streams.append(("outside L (mutated)", "".join(base), True))

    # ---- run both
    import dataclasses
    import peggie
    from recipe_grid.parser.grammar import grammar
    from recipe_grid.parser.ast import RecipeTransformer
    number_grammar = dataclasses.replace(grammar, start_rule="number")

    def grammar_number(text):
        """the real grammar's rule `number` at offset 0 of the bare text: None | ((kind, value), end offset)"""
        parser = peggie.Parser(number_grammar)
        try:
            pt = parser.parse(text)
        except peggie.ParseError:
            return None
        end = parser._offset
        off, v = RecipeTransformer().transform(pt)
        assert off == 0
        return (sexp.pynum(v), end)

    texts = [t for _, t, _ in streams]
    replies = ask([sexp.tag("read-number", sexp.s(t)) for t in texts])
    greplies = ask([sexp.tag("grammar-number", sexp.s(t)) for t in texts])

    dist = Counter()
    gdist = Counter()
    per_stream = Counter()
    disagreements = []
    reader_differences = Counter()
    reader_difference_samples = {}
    for (stream, text, expect_outside), model, gmodel in zip(streams, replies, greplies):
        res = impl(text)
        per_stream[stream] += 1
        # (a) the grammar rule, real code against Parser.number (any text)
        gres = grammar_number(text)
        if gres != gmodel:
            disagreements.append((stream + " [grammar number]", text, gres, gmodel))
        # (b) number() against numberReader
        if expect_outside or not in_l(text):
            dist["outside-L"] += 1
            if model != "outside":
                disagreements.append((stream, text, "outside (no claim)", model))
            continue
        dist[classify(text, res)] += 1
        if model != res:
            disagreements.append((stream, text, res, model))
        # (c) the two readers of the real code compared on L
        if gres is None:
            gdist["grammar: no match"] += 1
        elif gres[1] != len(text):
            gdist["grammar: matches a proper prefix"] += 1
        else:
            gdist["grammar: matches the whole text (%s)" % gres[0][0]] += 1
            if res != ("value", gres[0]):
                disagreements.append((stream + " [readers_agree violated on the real code]", text, res, gres))
        if isinstance(res, tuple) and (gres is None or gres[1] != len(text)):
            # the three classes of theorem `readers_differ_exactly`
            st = text.strip(" \t")
            head = st.split("/")[0]
            if st != text:
                why = "blanks around the number"
            elif st.startswith("."):
                why = "no digit before the point"
            elif "/" in st and head.rstrip(" \t") != head and head.rstrip(" \t").isdigit():
                why = "blank before the slash, no integer part"
            else:
                why = "NOT COVERED BY readers_differ_exactly"
                disagreements.append((stream + " [readers_differ_exactly violated on the real code]", text, res, gres))
            reader_differences["number() reads it, the grammar rule does not match it all: " + why] += 1
            reader_difference_samples.setdefault(why, text)
        if res == "ZeroDivisionError":
            # theorem `zeroDivision_only_outside_grammar`
            if gres is not None and gres[1] == len(text):
                disagreements.append((stream + " [zeroDivision_only_outside_grammar violated on the real code]", text, res, gres))
            reader_differences["number() raises ZeroDivisionError; the grammar rule matches %s" % (
                "nothing" if gres is None else "only the integer before the slash" if text[:gres[1]].isdigit() else "a proper prefix")] += 1
            reader_difference_samples.setdefault("ZeroDivisionError", text)

    # (d) theorem `redisplay_stable` on the real code: showing what number() reads from a shown text gives that text again
    redisplay = Counter()
    for t, x in shown.items():
        back = parse_number(t)
        again = format_number(back)
        redisplay["format_number(number(format_number(x))) == format_number(x)" if again == t else "REDISPLAY DIFFERS"] += 1
        if again != t:
            disagreements.append(("redisplay_stable violated on the real code", repr(x), t, again))

    print("streams:")
    for k, v in per_stream.items():
        print("  %-28s %7d" % (k, v))
    print("what was exercised (by behaviour of the real number()):")
    for k, v in sorted(dist.items()):
        print("  %-60s %7d" % (k, v))
    print("the grammar's number rule on the texts of L:")
    for k, v in sorted(gdist.items()):
        print("  %-60s %7d" % (k, v))
    print("where the readers differ on L (real code):")
    for k, v in sorted(reader_differences.items()):
        print("  %-100s %7d" % (k, v))
    print("  samples: %r" % reader_difference_samples)
    print("redisplay of what was read back (real code):")
    for k, v in sorted(redisplay.items()):
        print("  %-100s %7d" % (k, v))
    print("distinct texts: %d, total: %d" % (len(set(texts)), len(texts)))
    print("disagreements: %d" % len(disagreements))
    for d in disagreements[:40]:
        print("  DISAGREE stream=%s text=%r impl=%r model=%r" % d)
    return 1 if disagreements else 0


if __name__ == "__main__":
    sys.exit(main())
