#!/venv/bin/python
"""Correspondence for C16c: data URLs of embedded local files (C16).

Compares, on the same inputs,
  * CPython's base64.b64encode / base64.b64decode(validate=True)           vs  b64encode / b64decode of Model/DataUrl.lean,
  * the canonical decoder b64decodeCanon                                    vs  "b64decode(validate=True) accepts AND re-encoding gives the input",
  * the REAL embed_local_links_as_data_urls (called on an lxml tree, and through generate_standalone_page) on real files
                                                                            vs  dataUrl (guess_type's media type) bytes, and parseDataUrl of it,
  * posixpath.splitext / mimetypes.guess_type                               vs  splitExt / guessTypeWith over CPython's own tables,
  * lxml's serialisation of a src attribute                                 vs  attrVerbatim (which characters are written as they are).
Exit status 1 on any disagreement.  Run:  /venv/bin/python harness/dataurl_corr.py [seed] [quick]
"""
import sys, os, random, base64, binascii, collections, subprocess, shutil, tempfile, re, html as html_mod, mimetypes, posixpath
from pathlib import Path
from urllib.parse import quote

HERE = Path(__file__).resolve().parent.parent
sys.path.insert(0, str(HERE))
from harness import sexp  # noqa: E402

DRIVER = HERE / "lean" / ".lake" / "build" / "bin" / "driver"
SEED = int(sys.argv[1]) if len(sys.argv) > 1 else 20260930
QUICK = len(sys.argv) > 2 and sys.argv[2] == "quick"
rng = random.Random(SEED)
dist = collections.Counter()
disagreements = []
ALPHA = "ABCDEFGHIJKLMNOPQRSTUVWXYZabcdefghijklmnopqrstuvwxyz0123456789+/"
VERBATIM = set("!#%'()*+,-./0123456789:;=?@ABCDEFGHIJKLMNOPQRSTUVWXYZ_abcdefghijklmnopqrstuvwxyz~")


def ask(requests):
    if not requests:
        return []
    p = subprocess.run([str(DRIVER)], input="\n".join(requests) + "\n", stdout=subprocess.PIPE, stderr=subprocess.PIPE, text=True, timeout=1800)
    lines = p.stdout.splitlines()
    if p.returncode != 0 or len(lines) != len(requests):
        raise RuntimeError("driver failed: rc=%s, %d replies for %d requests; stderr=%s" % (p.returncode, len(lines), len(requests), p.stderr[-400:]))
    return [sexp.decode(sexp.parse(l)) for l in lines]


def bl(bs):
    return sexp.lst(str, bs)


def disagree(group, inp, impl, model):
    disagreements.append((group, inp, impl, model))


def show(x, n=120):
    r = repr(x)
    return r if len(r) <= n else r[:n] + "...(%d)" % len(r)


# ---------------------------------------------------------------- 1. encoder
def gen_bytes(n):
    k = rng.random()
    if k < 0.6:
        return bytes(rng.randrange(256) for _ in range(n))
    if k < 0.7:
        return bytes([rng.choice([0, 255])] * n)
    if k < 0.8:
        return bytes(rng.choice([0, 1, 127, 128, 254, 255, 0x3f, 0x40, 0xfb, 0xfc]) for _ in range(n))
    if k < 0.9:
        return bytes(rng.randrange(32, 127) for _ in range(n))
    return bytes((i * 7 + n) % 256 for i in range(n))


def run_encoder():
    cases = []
    for n in range(0, 201):
        for _ in range(6):
            cases.append(gen_bytes(n))
    for n in (65535, 65536, 65537, 4095, 4096, 4097):
        cases.append(gen_bytes(n))
    cases += [b"", b"\x00", b"\xff", b"\x00\x00", b"\xff\xff", b"\x00\x00\x00", b"\xff\xff\xff", b"\x89PNG\r\n\x1a\n\x00\x00\x00\rIHDR", bytes(range(256))]
    # every value of each of the three positions of a group (all 64 digits in every one of the four digit positions)
    for a in range(256):
        cases += [bytes([a]), bytes([a, 255 - a]), bytes([255 - a, a, (a * 37) % 256])]
    replies = ask(["(b64 %s)" % bl(c) for c in cases])
    for c, r in zip(cases, replies):
        want = base64.b64encode(c).decode("ascii")
        dist["b64encode len%%3=%d" % (len(c) % 3)] += 1
        if r != want:
            disagree("b64encode", show(c), show(want), show(r))
    # decode(encode) on both sides, and the canonical decoder
    replies = ask(["(b64d %s)" % sexp.s(base64.b64encode(c).decode()) for c in cases])
    replies2 = ask(["(b64dc %s)" % sexp.s(base64.b64encode(c).decode()) for c in cases])
    for c, r, r2 in zip(cases, replies, replies2):
        dist["decode(encode)"] += 1
        if r != ("ok", list(c)) or r2 != ("ok", list(c)):
            disagree("decode-of-encode", show(c), "ok", show((r, r2)))
    # not bytes
    r = ask(["(b64 (l 1 2 256))", "(data-url (s 97) (l 300))"])
    if r != [("bad-request", "bytes")] * 2:
        disagree("not-bytes", "256", "bad-request", r)


# ---------------------------------------------------------------- 2. decoder
def py_decode(s):
    try:
        return ("ok", list(base64.b64decode(s, validate=True)))
    except (binascii.Error, ValueError) as e:
        return ("bad", type(e).__name__ + ": " + str(e)[:60])


def py_canon(s):
    """canonical RFC 4648: accepted by CPython AND the re-encoding is the input"""
    r = py_decode(s)
    if r[0] == "ok" and base64.b64encode(bytes(r[1])).decode() == s:
        return r
    return ("bad", "non-canonical")


def mutate(s):
    s = list(s)
    k = rng.randrange(12)
    pos = rng.randrange(len(s) + 1)
    if k == 0 and s:
        del s[min(pos, len(s) - 1)]                      # wrong length
    elif k == 1:
        s.insert(pos, rng.choice(ALPHA))                 # wrong length
    elif k == 2:
        s.insert(pos, "=")                               # padding in the middle / extra padding
    elif k == 3:
        s.insert(pos, rng.choice(" \n\r\t-_.,*\x00\x7f\x80\xe9Α ="))   # bad character
    elif k == 4 and s:
        s[min(pos, len(s) - 1)] = rng.choice("-_ \n!@#$%^&*()é")              # url-safe alphabet / bad char
    elif k == 5 and s:
        # non-canonical trailing bits: change the last digit before the padding
        i = len(s) - 1
        while i >= 0 and s[i] == "=":
            i -= 1
        if i >= 0:
            s[i] = rng.choice(ALPHA)
    elif k == 6:
        s += ["="] * rng.randrange(1, 5)                 # extra padding at the end
    elif k == 7:
        while s and s[-1] == "=":
            s.pop()                                      # padding removed
    elif k == 8:
        s = ["="] * rng.randrange(1, 3) + s              # leading padding
    elif k == 9 and s:
        s[min(pos, len(s) - 1)] = "="
    elif k == 10:
        s = s + list(rng.choice(["A", "AA", "AAA", "A=", "A==", "AA=", "=A", "==A", "=A=", "AA=A", "AAA=A", "AA==A", "AA===", "AAA=="]))
    else:
        rng.shuffle(s)
    return "".join(s)


def run_decoder():
    cases = []
    # every string of length <= 4 over a small alphabet that has all the classes of characters
    small = ["A", "/", "=", "-"]
    for n in range(0, 6):
        def rec(prefix, n=n):
            if len(prefix) == n:
                cases.append("".join(prefix))
                return
            for ch in small:
                rec(prefix + [ch])
        rec([])
    # random alphabet-and-padding strings of every length 0..24
    for n in range(0, 25):
        for _ in range(30):
            cases.append("".join(rng.choice(ALPHA + "====") for _ in range(n)))
    # valid encodings with a mutation
    for n in range(0, 60):
        for _ in range(25):
            s = base64.b64encode(gen_bytes(n)).decode()
            cases.append(mutate(s))
            if rng.random() < 0.3:
                cases.append(mutate(mutate(s)))
    # non-canonical trailing bits, exhaustively for the last digit
    for d in ALPHA:
        cases += ["Q" + d + "==", "QU" + d + "=", "QUJDQ" + d + "==", "QUJDQU" + d + "="]
    cases += ["QUJD=", "QUJD==", "QUJD===", "QUJD====", "QUJD=====", "QQ=", "QQ==", "QQ===", "QUI=", "QUI==", "Q===", "=QQ=", "QQ==QQ==", "Q", "QUJDQ", "QQ=Q", "QU=I",
              "", "=", "==", "====", "QUJDQQ", "QUJDQQ=", "QUJDQQ==", "QUJDQUI=", "QQ\n==", "QQ==\n", "QUJD\n", " QUJD", "QUJD ", "QU JD", "QQ= =", "QUJD= ", "QUJD=A", "Q=", "Q==", "Q=Q=",
              "Q=QQ", "QUJDQ=", "QUJDQ===", "QUJD=é", "QUJé", "é", "QUJD\x00", "\x00", "QUJD=\x00", "_-__", "QUJD-_8="]
    replies = ask(["(b64d %s)" % sexp.s(c) for c in cases])
    replies2 = ask(["(b64dc %s)" % sexp.s(c) for c in cases])
    noncanon = []
    for c, r, r2 in zip(cases, replies, replies2):
        want = py_decode(c)
        dist["b64decode " + ("accepted" if want[0] == "ok" else want[1].split(":")[0] + ":" + re.sub(r"\d+", "N", want[1].split(": ", 1)[1])[:34])] += 1
        got = r if r == "bad" else tuple(r)
        if (want[0] == "bad") != (got == "bad") or (want[0] == "ok" and got != want):
            disagree("b64decode", repr(c), show(want), show(got))
        wantc = py_canon(c)
        gotc = r2 if r2 == "bad" else tuple(r2)
        dist["b64decodeCanon " + ("accepted" if wantc[0] == "ok" else "rejected")] += 1
        if (wantc[0] == "bad") != (gotc == "bad") or (wantc[0] == "ok" and gotc != wantc):
            disagree("b64decodeCanon", repr(c), show(wantc), show(gotc))
        if want[0] == "ok" and wantc[0] == "bad":
            dist["accepted by CPython, not canonical"] += 1
            if len(noncanon) < 6:
                noncanon.append((c, bytes(want[1])))
    return noncanon


# ---------------------------------------------------------------- 3. the real code
EXTS = ["png", "jpg", "jpeg", "gif", "svg", "txt", "bin", "", "PNG", "JpG", "SVG", "tar.gz", "tgz", "svgz", "gz", "Z", "z", "tar.bz2", "txz", "TGZ", "html", "css", "js", "json",
        "xml", "csv", "pdf", "webp", "woff2", "mp3", "mp4", "ico", "md5", "unknownext", "d.ts", "min.js", "a.b.c", "tar.GZ", "TAR.gz", "gz.png", "png.gz", "png.", "", "py", "wasm", "7z",
        "avif", "webmanifest", "mjs", "gz.gz", "br", "json.br", "xz", "bz2", "txt.gz", "txt.bz2", "TXT.GZ", "txt.GZ", "TXT.gz", "SVGZ", "svg.gz", "tar.xz", "txt.Z", "txt.z",
        "tar.BZ2", "tbz2", "taz", "TaZ", "svg.br", "html.xz"]
# compressed files of the defect report (commit cc91d96), always present
FORCED = ["pic.svgz", "notes.txt.gz", "x.tar.gz", "x.tgz", "notes.txt.bz2", "PIC.SVGZ", "X.TGZ", "NOTES.TXT.GZ", "notes.txt.GZ", "NOTES.TXT.gz", "x.png.Z", "x.png.z", "plain.gz", "pic.svg",
          "notes.txt", "x.tar", "x.txz", "x.json.br"]


def project_type(pair):
    """the choice of rewrite_link (commit cc91d96)"""
    t, enc = pair
    return "application/octet-stream" if t is None or enc is not None else t


def tables():
    db = mimetypes._db
    return tbl(db.suffix_map), tbl(db.encodings_map), tbl(db.types_map[True])
STEMS = ["photo", "a b", "café", ".hidden", "..two", "x.y", "data:x", "100%", "q?x", "h#x", "UPPER", "semi;colon", "a,b", "amp&er", "quo'te", "plus+", "eq=", "(p)", "~t", "t.gz"]


def run_real(builtin):
    """builtin: the media types come from CPython's own tables only (a machine without mime.types files) and the model
    computes the whole URL from the file NAME (embed-url); otherwise this machine's tables, media type passed to the model"""
    tag = "[built-in tables] " if builtin else "[machine tables] "
    saved_db = mimetypes._db
    if builtin:
        mimetypes._db = mimetypes.MimeTypes(filenames=())
    from recipe_grid.static_site.html_postprocessing import embed_local_links_as_data_urls, postprocess_html
    from recipe_grid.static_site.standalone_page import generate_standalone_page
    import lxml.html
    scratch = Path(tempfile.mkdtemp(prefix="l24-")).resolve()
    try:
        root = scratch / "site"
        (root / "sub.dir").mkdir(parents=True)
        files = []   # (relative url, path, bytes)
        seen = set()
        i = 0
        for stem in STEMS:
            for ext in rng.sample(EXTS, 14):
                name = stem + ("." + ext if ext else "")
                if name in seen or name in (".", ".."):
                    continue
                seen.add(name)
                d = root if i % 3 else root / "sub.dir"
                n = rng.choice([0, 1, 2, 3, 4, 5, 17, 64, 255, 256, 257, 1000])
                data = gen_bytes(n)
                (d / name).write_bytes(data)
                rel = ("" if d == root else "sub.dir/") + name
                files.append((rel, d / name, data))
                i += 1
        import gzip
        for nm in FORCED:
            if nm not in seen:
                seen.add(nm)
                data = gzip.compress(b"<svg xmlns='http://www.w3.org/2000/svg'/>", mtime=0) if "." in nm and nm.rsplit(".", 1)[1].lower() in ("gz", "svgz", "tgz") else gen_bytes(9)
                (root / nm).write_bytes(data)
                files.append((nm, root / nm, data))
        for n in (65535, 65536, 65537):
            nm = "big%d.bin" % n
            data = gen_bytes(n)
            (root / nm).write_bytes(data)
            files.append((nm, root / nm, data))
        # a PNG header
        (root / "pixel.png").write_bytes(b"\x89PNG\r\n\x1a\n\x00\x00\x00\rIHDR\x00\x00\x00\x01\x00\x00\x00\x01")
        files.append(("pixel.png", root / "pixel.png", (root / "pixel.png").read_bytes()))
        source = root / "r.md"
        source.write_text("# R for 2\n\n    1 x\n")

        # (a) the stage itself on an lxml tree: the exact string returned by rewrite_link is the attribute's value
        urls = []
        for rel, path, data in files:
            form = rng.randrange(3)
            url = quote(rel) if form == 0 else "/" + quote(rel) if form == 1 else "./" + quote(rel)
            urls.append(url)
        html = "<div>" + "".join('<img src="%s">' % html_mod.escape(u, quote=True) for u in urls) + "</div>"
        tree = lxml.html.fragment_fromstring(html)
        embed_local_links_as_data_urls(tree, source=source, root=root)
        got = [img.get("src") for img in tree.iter("img")]
        serialised = lxml.html.tostring(tree).decode("utf-8")
        ser_urls = re.findall(r'<img src="([^"]*)">', serialised)
        assert len(got) == len(files) == len(ser_urls), (len(got), len(files), len(ser_urls))
        # the media type is the MODEL's (guessTypeWith over the tables in force), cross-checked with the rule applied to CPython's pair
        mimes = [project_type(mimetypes.guess_type(path)) for _, path, _ in files]
        if builtin:
            replies = ask(["(embed-url %s %s)" % (sexp.s(p.name), bl(d)) for (_, p, d) in files])
        else:
            sm, em, tm = tables()
            model_m = ask(["(guess-type %s %s %s %s)" % (sm, em, tm, sexp.s(p.name)) for (_, p, _) in files])
            for (rel, _, _), a, b in zip(files, mimes, model_m):
                if a != b:
                    disagree("media type (machine tables)", rel, a, b)
            replies = ask(["(data-url %s %s)" % (sexp.s(m), bl(d)) for m, (_, _, d) in zip(model_m, files)])
        parsed = ask(["(data-url-parse %s)" % sexp.s(g) for g in got])
        for (rel, path, data), m, g, r, pr, su in zip(files, mimes, got, replies, parsed, ser_urls):
            suffix = "".join(Path(rel).suffixes[-2:]) or "(none)"
            dist[tag + "embedded file " + m] += 1
            dist[tag + "embedded files"] += 1
            if mimetypes.guess_type(path)[1] is not None:
                dist[tag + "embedded files with an encoding suffix (all application/octet-stream)"] += 1
                if not g.startswith("data:application/octet-stream;base64,"):
                    disagree("compressed file not octet-stream", rel, show(g), "")
            if g != r:
                disagree("embed-vs-dataUrl", rel, show(g), show(r))
            if pr != ("ok", m, list(data)):
                disagree("parseDataUrl(real data URL)", rel, show((m, data)), show(pr))
            if su != g:
                disagree("serialised-attribute-verbatim", rel, show(g), show(su))
            # RFC 2397 reading by Python
            head, _, payload = g.partition(",")
            if not (head == "data:" + m + ";base64" and base64.b64decode(payload, validate=True) == data):
                disagree("python-reading-of-real-url", rel, show(g), "")

        # (b) through generate_standalone_page (markdown -> HTML -> lxml -> serialised -> template)
        some = rng.sample(files, 40) + files[-4:] + [f for f in files if f[0] in FORCED]
        md_ok = [(rel, p, d) for rel, p, d in some if not any(ch in rel for ch in "()<> \"'\\&#?%;")]   # names that need no markdown escaping
        source2 = root / "page.md"
        source2.write_text("# Page for 2\n\n    1 x\n\n" + "\n\n".join("![I%d](%s)" % (i, quote(rel)) for i, (rel, _, _) in enumerate(md_ok)) + "\n")
        page = generate_standalone_page(source2, embed_local_links=True)
        page_urls = re.findall(r'src="(data:[^"]*)"', page)
        if len(page_urls) != len(md_ok):
            disagree("standalone-page-count", "page.md", len(md_ok), len(page_urls))
        else:
            if builtin:
                replies = ask(["(embed-url %s %s)" % (sexp.s(p.name), bl(d)) for _, p, d in md_ok])
            else:
                sm, em, tm = tables()
                ms = ask(["(guess-type %s %s %s %s)" % (sm, em, tm, sexp.s(p.name)) for _, p, _ in md_ok])
                replies = ask(["(data-url %s %s)" % (sexp.s(m), bl(d)) for m, (_, _, d) in zip(ms, md_ok)])
            for (rel, p, d), u, r in zip(md_ok, page_urls, replies):
                dist[tag + "standalone page: embedded files"] += 1
                if u != r:
                    disagree("standalone-page-vs-dataUrl", rel, show(u), show(r))
    finally:
        mimetypes._db = saved_db
        shutil.rmtree(scratch, ignore_errors=True)


# ---------------------------------------------------------------- 3b. reading data URLs
def py_parse(u, canon):
    """RFC 2397 reading as in harness/props/c16.py: split at the first comma, header must end in ;base64"""
    if not u.startswith("data:"):
        return "bad"
    rest = u[5:]
    if "," not in rest:
        return "bad"
    head, _, payload = rest.partition(",")
    if not head.endswith(";base64"):
        return "bad"
    r = py_canon(payload) if canon else py_decode(payload)
    return ("ok", head[:-7], r[1]) if r[0] == "ok" else "bad"


def run_parse():
    cases = []
    mts = ["image/png", "text/plain", "", "a,b", "text/plain;charset=utf-8", ";base64", "x;base64", "image/svg+xml", "é/ü", "a b", "data:"]
    for _ in range(600):
        m = rng.choice(mts)
        u = "data:%s;base64,%s" % (m, base64.b64encode(gen_bytes(rng.randrange(0, 12))).decode())
        k = rng.randrange(10)
        if k == 0:
            u = u[rng.randrange(1, 6):]
        elif k == 1:
            u = u.replace(",", "", 1)
        elif k == 2:
            u = u.replace(";base64", rng.choice(["", ";base32", ";BASE64", ";base64 ", ";base64;x"]), 1)
        elif k == 3:
            u = u.replace("data:", rng.choice(["DATA:", "data", "data::", " data:"]), 1)
        elif k == 4:
            head, _, payload = u.partition(",")
            u = head + "," + mutate(payload)
        elif k == 5:
            u = u + rng.choice([",", "=", ",AAAA", " "])
        cases.append(u)
    cases += ["", "data:", "data:,", "data:;base64,", "data:;base64", "data:,;base64,AAAA", "data:text/plain,hello", "data:a;base64,QR==", "data:a;base64,QUJD=", ";base64,", "data:;base64;base64,QQ=="]
    r1 = ask(["(data-url-parse %s)" % sexp.s(u) for u in cases])
    r2 = ask(["(data-url-parse-canon %s)" % sexp.s(u) for u in cases])
    for u, a, b in zip(cases, r1, r2):
        for canon, got in ((False, a), (True, b)):
            want = py_parse(u, canon)
            got = got if got == "bad" else tuple(got)
            dist["parseDataUrl%s %s" % ("Canon" if canon else "", "accepted" if want != "bad" else "rejected")] += 1
            if got != want:
                disagree("parseDataUrl" + ("Canon" if canon else ""), u, show(want), show(got))


# ---------------------------------------------------------------- 4. media type rule
def tbl(d):
    return sexp.lst(lambda kv: "(l %s %s)" % (sexp.s(kv[0]), sexp.s(kv[1])), sorted(d.items()))


def run_guess():
    mimetypes.init()
    db = mimetypes._db
    sm, em, tm = tbl(db.suffix_map), tbl(db.encodings_map), tbl(db.types_map[True])
    names = []
    names += FORCED
    for stem in STEMS + ["", ".", "..", "...", ".a.", "a..b", "a.", ".a", "..a.b"]:
        for ext in EXTS:
            nm = stem + ("." + ext if ext else "")
            if "/" not in nm:
                names.append(nm)
    exts = sorted(db.types_map[True])
    for _ in range(150):
        e = rng.choice(exts)
        e = e.upper() if rng.random() < 0.3 else e
        names.append(rng.choice(["f", "f.x", ".f", "F.tar"]) + e + rng.choice(["", "", ".gz", ".Z", ".bz2", ".GZ"]))
    names = sorted(set(names))
    rs = ask(["(splitext %s)" % sexp.s(n) for n in names])
    for n, r in zip(names, rs):
        dist["splitext"] += 1
        if tuple(r) != posixpath.splitext(n):
            disagree("splitext", n, posixpath.splitext(n), r)
    builtin = mimetypes.MimeTypes(filenames=())
    for label, guess, reqs in (
            ("machine tables", db.guess_type, ("(guess-pair %s %s %s %%s)" % (sm, em, tm), "(guess-type %s %s %s %%s)" % (sm, em, tm), "(guess-type-old %s %s %s %%s)" % (sm, em, tm))),
            ("built-in tables (Gen/Mime.lean)", builtin.guess_type, ("(guess-pair-builtin %s)", "(guess-type-builtin %s)", None))):
        # (the machine's tables travel with every request: in the quick tier a sample of the names)
        use = names if (reqs[2] is None or not QUICK) else sorted(set(FORCED + rng.sample(names, 160)))
        pairs = ask([reqs[0] % sexp.s(n) for n in use])
        news = ask([reqs[1] % sexp.s(n) for n in use])
        olds = ask([reqs[2] % sexp.s(n) for n in use]) if reqs[2] else [None] * len(use)
        for n, pr, nw, od in zip(use, pairs, news, olds):
            want = guess("/some.dir/" + n)
            kind = ("typed" if want[0] else "untyped") + (", encoded" if want[1] else "")
            dist["guess_type, %s: %s" % (label, kind)] += 1
            if tuple(pr) != want:
                disagree("guess-pair " + label, n, want, pr)
            if nw != project_type(want):
                disagree("guess-type (new rule) " + label, n, project_type(want), nw)
            if od is not None and od != (want[0] or "application/octet-stream"):
                disagree("guess-type-old " + label, n, want[0], od)
            if want[0] and want[1]:
                dist["guess_type, %s: names on which the old and the new rule differ" % label] += 1
    # the hypotheses of the theorems about the media type, on the tables of this machine
    for ext, t in db.types_map[True].items():
        dist["types_map value checked: no comma, all characters written verbatim by lxml"] += 1
        if "," in t or not set(t) <= VERBATIM:
            disagree("types_map value", ext, t, "comma or a character that lxml changes")
    dist["types_map entries (this machine)"] = len(db.types_map[True])
    dist["types_map entries (CPython built-in only)"] = len(mimetypes.MimeTypes(filenames=()).types_map[True])


# ---------------------------------------------------------------- 5. lxml attribute serialisation


def run_lxml():
    import lxml.html
    t = lxml.html.fragment_fromstring('<div><img src="x"></div>')
    cps = list(range(1, 0x180)) + [0x2028, 0x1F600]
    reqs = ["(attr-verbatim %d)" % c for c in cps]
    rs = ask(reqs)
    for c, r in zip(cps, rs):
        v = "data:" + chr(c) + "x"
        try:
            t[0].set("src", v)
            same = lxml.html.tostring(t).decode("utf-8") == '<div><img src="%s"></div>' % v
        except ValueError:
            same = False
        dist["lxml src attribute: " + ("verbatim" if same else "changed or refused")] += 1
        if same != r:
            disagree("attr-verbatim", c, same, r)


def main():
    run_encoder()
    noncanon = run_decoder()
    run_parse()
    run_real(False)
    run_real(True)
    run_guess()
    run_lxml()
    print("seed", SEED)
    for k in sorted(dist):
        print("  %-90s %d" % (k, dist[k]))
    print("examples accepted by base64.b64decode(validate=True) that are not canonical:")
    for c, b in noncanon:
        print("   %r -> %r  (canonical: %r)" % (c, b, base64.b64encode(b).decode()))
    print("disagreements:", len(disagreements))
    for d in disagreements[:40]:
        print("  ", d)
    sys.exit(1 if disagreements else 0)


if __name__ == "__main__":
    main()
