#!/venv/bin/python
"""Correspondence for task L22: what `recipe_grid.markdown.compile_markdown(doc)` does — returns (number of independent recipes) or raises
ParseError / NameRedefinedError / ProportionGivenForIngredientError with `.line`, `.column`, `.snippet` — against the Lean model `mdCompile`
(request `md-compile`), on documents of the sub-language D2 (`md-indoc2`), with and without faults.

    /venv/bin/python /tmp/lw/L22/corr_L22.py [seed] [n]

Streams: (a) the single-fault documents of harness/props/c19.py (`gen_case`; the HTML comment that ends its lists replaced by a paragraph so that
the documents are in D2), (b) documents with several independent recipes, several blocks per recipe and 0-4 faults anywhere (`gen_multi`), (c) the
structured documents of harness/mdcontainers_corr.py (`G2`: block structure stress, most recipe blocks do not parse) and of `G` (sub-language D),
(d) line soup, (e) hand-picked corner cases (empty blocks, blank-only blocks, which fault wins).
Exit status 1 on any disagreement on a document with `md-compile` != outside.  Documents outside D2 are compared with `md-compile-any` for
information only (no claim)."""
import os
import random
import sys
from collections import Counter

HERE = os.path.dirname(os.path.dirname(os.path.abspath(__file__)))
sys.path.insert(0, HERE)

from harness import sexp, gen_md  # noqa: E402
from harness import mdblocks_corr as B  # noqa: E402
from harness import mdcontainers_corr as C2  # noqa: E402
from harness.props import c19  # noqa: E402
from peggie import ParseError  # noqa: E402
from recipe_grid.compiler import NameRedefinedError, ProportionGivenForIngredientError  # noqa: E402
from recipe_grid import markdown as M  # noqa: E402


# ------------------------------------------------------------------ the real code
import re  # noqa: E402
PRE = re.compile(r"(?: *| {0,3}> ? {0,4})\Z")       # container prefix (isCPrefix) followed by at most 4 spaces


def real_outcome(doc):
    try:
        r = M.compile_markdown(doc)
    except ParseError as e:
        return ("syntax", e.line, e.column, e.snippet)
    except NameRedefinedError as e:
        return ("redefined", e.line, e.column, e.snippet)
    except ProportionGivenForIngredientError as e:
        return ("proportion", e.line, e.column, e.snippet)
    except Exception as e:  # noqa
        return ("exception", type(e).__name__)
    return ("ok", len(r.recipes))


def model_outcome(m):
    if m == "outside":
        return ("outside",)
    m = tuple(m)
    if m[0] == "ok":
        return ("ok", m[1])
    if m[0] == "undocumented":
        return ("exception", m[1])
    return (m[0], m[1], m[2], B.fix_str(m[3]))


# ------------------------------------------------------------------ generation
FAULT_KINDS = ["redefined", "proportion", "syntax"]
PROSE = ["Some text.", "Mix {2} eggs with {1/2} cup of milk.", "Plain *emphasis* and `code {3}` span.", "A line with 50% and #hash.",
         "Use {1 1/2} tsp \\{not scaled\\} of salt{}.", "Line one\nline two {3} continues.", "Then:", "1986 was a year"]
SYNTAX_FAULTS = [f for f in c19.SYNTAX_FAULTS if "\t" not in f] + ["fry(1 g x%d", ") x%d", "x%d = 2", "= x%d", "1 g", "a%d := := b", "{x%d", "x%d }", "'", "f(x%d,)"]


def gen_multi(rng, eol):
    """several independent recipes, several blocks each, 0-4 faults at random statements; returns (document text, meta)"""
    doc = gen_md.Doc()
    if rng.random() < 0.6:
        doc.add(["#" * rng.randint(1, 3) + " " + rng.choice(["Stew for 2", "Bread", "Fish & chips serves 4", "x"]), ""])
    ngroups = rng.choice([1, 2, 2, 3])
    all_blocks = []
    for gi in range(ngroups):
        for bi, stmts in enumerate(c19.simple_desc(rng, rng.choice([1, 2, 3]))):
            all_blocks.append((gi, bi, stmts))
    nfaults = rng.choice([0, 1, 1, 2, 2, 3, 4])
    kinds = []
    for _ in range(nfaults):
        fi = rng.randrange(len(all_blocks))
        gi, bi, stmts = all_blocks[fi]
        si = rng.randrange(len(stmts))
        kind = rng.choice(FAULT_KINDS)
        if kind == "redefined":
            earlier = [s for (g, b, ss) in all_blocks[:fi + 1] if g == gi for s in (ss if (g, b) != (gi, bi) else ss[:si]) if s.startswith("item")]
            if not earlier:
                kind = "proportion"
            else:
                name = rng.choice(earlier).split(" =")[0]
                stmts[si] = "%s%s = boil(1 g water%d)" % (rng.choice(["", "", " ", "other, "]), rng.choice([name, name.upper(), name + " "]), rng.randint(0, 99))
        if kind == "proportion":
            stmts[si] = rng.choice(["serve(  1/2 of unknown%d)", "remaining unknown%d", "mix(1 g a, 50%% of the unknown%d)", "rest of unknown%d"]) % rng.randint(0, 99)
        if kind == "syntax":
            stmts[si] = _fmt(rng.choice(SYNTAX_FAULTS), rng)
        kinds.append((kind, gi, bi))
    first = True
    n_empty = 0
    for (g, b, ss) in all_blocks:
        for _ in range(rng.randint(0, 2)):
            doc.add(rng.choice(PROSE).split("\n") + [""])
        if rng.random() < 0.1:
            doc.add(["```" + rng.choice(["python", "Recipe", "recipes", ""]), "x = (", "```", ""])
        if b == 0 and not first:
            style = "new"
        elif first:
            style = rng.choice(["indented", "recipe", "new"])
        else:
            style = rng.choice(["indented", "recipe", "recipe"])
        container = rng.choice(["top", "top", "quote", "list"])
        if style == "indented" and doc.lines and doc.lines[-1] != "":
            doc.add([""])
        if style == "indented" and doc.blocks and doc.blocks[-1]["kind"] == "indented" and doc.blocks[-1].get("end") == len(doc.lines):
            doc.add(["Then:", ""])
        text = "\n".join(ss) if rng.random() < 0.7 else "\n\n".join(ss)
        if style != "indented" and rng.random() < 0.06:
            text = rng.choice(["", "", " ", "\n", "  \n "])       # an empty / blank-only recipe block
            n_empty += 1
        extra = rng.choice([0, 0, 0, 2, 4, 1])
        lead = rng.choice([0, 0, 0, 1, 2]) if style != "indented" else 0
        lines, firstl, strip = gen_md.recipe_block_lines(rng, text, style, container, extra, lead)
        if container == "quote" and rng.random() < 0.3:
            lines = [(">" + l[2:]) if (l.startswith("> ") and not l[2:].startswith(" ")) else l for l in lines]
        if container == "list" and rng.random() < 0.5:
            m = rng.choice(["1. ", "10) ", "+   "])
            lines = [m + "item text", ""] + [(" " * len(m) + l[2:]) if l else l for l in lines[2:]]
        doc.blocks.append(dict(kind=style, group=g, container=container))
        doc.add(lines + [""])
        doc.blocks[-1]["end"] = len(doc.lines)
        if container == "list":
            doc.add(["Then:", ""])
        first = False
    if eol == "mixed":
        t = "".join(l + rng.choice(["\n", "\r\n"]) for l in doc.lines)
    else:
        t = doc.text(eol)
    if rng.random() < 0.1:
        t = t.rstrip("\r\n")
    if rng.random() < 0.05 and t[:1].isalpha():
        t = "﻿" + t
    return t, dict(faults=kinds, groups=ngroups, empty=n_empty)


def _fmt(f, rng):
    return (f % rng.randint(0, 99)) if "%d" in f else f


CORNERS = [
    # the empty recipe block and its relatives
    "```recipe\n```\n", "```recipe\n```", "```recipe\n", "```recipe", "a\n\n```recipe\n```\n", "a\r\n\r\n```recipe\r\n```\r\n", "```recipe\n\n\n```\n", "```recipe\n \n```\n",
    "```recipe\n   \n  \n```\n", "> ```recipe\n> ```\n", "> ```recipe\n", "- ```recipe\n  ```\n", "- a\n\n  ```recipe\n  ```\n", "```new-recipe\n```\n", "~~~recipe\n~~~\n",
    "```recipe\nx\n```\n\n```new-recipe\n```\n", "```recipe\n```\n\n```recipe\nx\n```\n", "```recipe\nx\n```\n\n```recipe\n```\n", "    x\n\n```recipe\n```\n",
    "```recipe\n```\n\n```new-recipe\nf(\n```\n", "text\n```recipe\n```\nmore\n", "```recipe\n\r\n```\n", "```recipe\n\n```",
    # which fault wins
    "```recipe\na = 1 g x\na = 2 g y\n```\n\n```recipe\nf(\n```\n",                    # same group: the syntax error of block 2 beats the redefinition in block 1
    "```recipe\na = 1 g x\na = 2 g y\n```\n\n```new-recipe\nf(\n```\n",                # other group: the redefinition of group 1
    "```recipe\nf(\n```\n\n```recipe\ng(\n```\n", "```recipe\n1/2 of u\n```\n\n```recipe\na = 1 g x\na = 2 g x\n```\n",
    "```recipe\na = 1 g x\n```\n\n```new-recipe\na = 2 g x\n```\n", "```recipe\na = 1 g x\n```\n\n```recipe\na = 2 g x\n```\n",
    "```recipe\na = 1 g x\n```\n\n    A = 2 g x\n", "```recipe\nok(1 g x)\n```\n\n```new-recipe\nfine\n```\n\n```new-recipe\n1/2 of u\n```\n\n```new-recipe\nf(\n```\n",
    "```recipe\na = 1 g x\nb = f(a, 1/2 of c)\na = 3\n```\n", "```recipe\nb = f(1/2 of c)\n```\n```recipe\nb = 2 g x\n```\n",
    # error at the very end of a block / of the document
    "```recipe\nf(x\n```\n", "```recipe\nf(x\n", "```recipe\nf(x", "    f(x", "    f(x\n", "    f(x\n\n", "    f(x\n    \n", "> ```recipe\n> f(x", "- ```recipe\n  f(x\n",
    "    a = 1 g x\n\n    a = 2 g y", "```recipe\nx =\n```\n", "```recipe\n'abc\n```\n", "```recipe\n'abc\n\n\n```\n", "    'abc\n\n\n    \ntext\n",
    # containers, CRLF
    "Stew\r\n\r\n> ```recipe\r\n> a = 1 g x\r\n> ```\r\n\r\n> ```new-recipe\r\n>  b = 2 g y\r\n>   b = 3 g z\r\n> ```\r\n",
    "Stew\r\n\r\n> ```recipe\r\n> a = 1 g x\r\n> ```\r\n\r\n> ```new-recipe\r\n>  b = 2 g y\r\n>   c = f(b, 1/3 of d)\r\n> ```\r\n",
    "Stew\r\n\r\n> ```recipe\r\n> a = 1 g x\r\n> ```\r\n\r\n> ```new-recipe\r\n>  b = 2 g y\r\n>   c = f(b))\r\n> ```\r\n",
    "1. First\n\n   ~~~new-recipe\n   z = 2 eggs\n\n    w = boil(z)\n   z = 3 eggs\n   ~~~\n2. Done\n", C2.EXDOC2, B.EXDOC,
    ">     a = 1 g x\n>\n>     a = 2 g y\n", "- x\n\n      a = 1 g x\n\n      f(a))\n", "   > ```recipe\n   > x )\n",
    # no recipe at all
    "", "\n", "text\n", "# Title for 2\n\ntext {2}\n", "```python\nf(\n```\n", "```Recipe\nf(\n```\n", "``` recipe x\nf(\n```\n",
    # unicode, long lines
    "```recipe\ncafé = 1 g x\ncafé = 2\n```\n", "```recipe\n\U0001F372 = 1 g x\n\U0001F372 = 2 g y\n```\n", "```recipe\nx\x0c)\n```\n", "```recipe\nx )\n```\n",
    "```recipe\nx\x1c)\n```\n", "```recipe\nx\x85y )\n```\n", "    x\x0b)\n",
    # the line just below the document
    "    f(x\x0c", "    f(x\u2028", "    f(x\x85", "text\n\n    a = 1 g x\n    f(a\x1c", "> q\n\n    f(\x0c", "    f(x\x0c\n", "    f(\r", "    f(\r\r\n", "    a = 1 g x\n    a = 2 g x\x0c",
    # the examples of Props/C19f.lean / C07d.lean
    "a\r\n\r\n> ```recipe\r\n> ```\r\n", "# Stew for 2\r\n\r\n- Sauce:\r\n\r\n      a = 1 g x\r\n\r\n```recipe\r\nfry(1/2 of a, remaining a)\r\n```\r\n",
    "Stew\r\n\r\n> ```recipe\r\n> a = 1 g x\r\n> ```\r\n\r\n> ```new-recipe\r\n>  a = 2 g y\r\n> ```\r\n", ">> ```recipe\n>> f(\n",
]


def collect(seed, n, ask=None):
    ask = ask or B.ask
    rng = random.Random(seed)
    docs = []
    for i in range(n):
        eol = rng.choice(["\n", "\n", "\r\n"])
        c = c19.gen_case(rng, eol)
        docs.append(("c19-single-fault", c["document"].replace("<!-- end list -->", "Then:"), dict(kind=c["kind"], eol=eol, container=c["container"], style=c["style"])))
    for i in range(2 * n):
        eol = rng.choice(["\n", "\n", "\r\n", "\r\n", "mixed"])
        t, meta = gen_multi(rng, eol)
        meta["eol"] = eol
        docs.append(("multi", t, meta))
    for i in range(n):
        g = C2.G2(rng, exotic=(i % 9 == 8))
        g.doc()
        t, mode, final, bom = g.text()
        docs.append(("G2", t, dict(eol=mode)))
    for i in range(n // 3):
        g = B.G(rng, exotic=False)
        g.doc()
        t, mode, final, bom = g.text()
        docs.append(("G-D", t, dict(eol=mode)))
    for i in range(n // 2):
        docs.append(("line-soup", C2.line_soup2(rng), {}))
    for t in CORNERS:
        docs.append(("corner", t, {}))
    for t in C2.CORNERS2:
        docs.append(("corner-L20", t, {}))
    seen, uniq = set(), []
    for d in docs:
        if d[1] not in seen:
            seen.add(d[1])
            uniq.append(d)
    docs = uniq
    reqs = []
    for _, t, _ in docs:
        reqs.append(sexp.tag("md-compile", sexp.s(t)))
        reqs.append(sexp.tag("md-compile-any", sexp.s(t)))
        reqs.append(sexp.tag("md-blocks2", sexp.s(t)))
    rep = ask(reqs)
    dist, total, inside = Counter(), Counter(), Counter()
    disagreements, outside_diff, outside_examples = [], Counter(), {}
    real_exceptions = []
    for i, (group, t, meta) in enumerate(docs):
        total[group] += 1
        try:
            real = real_outcome(t)
        except RecursionError:
            continue
        model = model_outcome(rep[3 * i])
        model_any = model_outcome(rep[3 * i + 1])
        blocks = B.model_view(rep[3 * i + 2])
        if model == ("outside",):
            dist["outside-D2/" + group] += 1
            if real != model_any:
                outside_diff[group] += 1
                outside_examples.setdefault(group, []).append((t, real, model_any))
            continue
        inside[group] += 1
        if real[0] == "exception":
            real_exceptions.append((t, real))
        if real != model:
            disagreements.append((group, t, real, model))
            continue
        # ---- what was exercised
        recipe_blocks = [b for b in blocks if b[0] == "indented" or b[1] in ("recipe", "new-recipe")]
        ngroups = (1 if recipe_blocks else 0) + sum(1 for b in recipe_blocks[1:] if b[1] == "new-recipe")
        eol = "crlf" if "\r\n" in t and "\n" not in t.replace("\r\n", "") else "mixed" if "\r" in t else "lf"
        dist["outcome %s" % real[0]] += 1
        dist["outcome %s / %s" % (real[0], eol)] += 1
        dist["recipe blocks/doc=%d" % min(len(recipe_blocks), 6)] += 1
        dist["independent recipes/doc=%d" % min(ngroups, 4)] += 1
        if real[0] == "ok":
            if real[1] != ngroups:
                disagreements.append(("ok-count", t, real, ngroups))
        else:
            line = real[1]
            # the block that holds the reported line, its position and container
            holder = None
            for bi, b in enumerate(recipe_blocks):
                nxt = recipe_blocks[bi + 1][5] if bi + 1 < len(recipe_blocks) else 10 ** 9
                if b[5] <= line < nxt or (b[5] - 1 == line):
                    holder = bi
            # ---- the statement of mdCompile_error_line, checked on the REAL outcome
            doc_lines = t.splitlines()
            col, q = real[2], real[3]
            d = doc_lines[line - 1] if 1 <= line <= len(doc_lines) else None
            verdict = None
            if d is not None and d.endswith(q) and PRE.match(d[:len(d) - len(q)]) and 1 <= col <= len(q) + 2:
                pre = d[:len(d) - len(q)]
                verdict = "QuotesLine"
                where = "quote" if ">" in pre else "list/indent" if len(pre) > 0 else "flush"
                dist["error %s behind prefix: %s" % (real[0], where)] += 1
                if q == "":
                    dist["error %s quoting an empty line" % real[0]] += 1
                if col == len(q) + 1:
                    dist["error column just behind the quoted line"] += 1
                if col == len(q) + 2:
                    dist["error column two behind the quoted line (end of text)"] += 1
            elif (real[0] == "syntax" and col == 2 and q == "" and d is not None
                  and any(b[0] == "fenced" and B.fix_str(b[3]) == "" and b[5] == line + 1 for b in recipe_blocks)):
                verdict = "EmptyBlockError"
            elif q == "" and line == len(doc_lines) + 1 and any(b[0] == "indented" for b in recipe_blocks):
                verdict = "BeyondEndError"
            if verdict is None:
                disagreements.append(("theorem-violated-on-real-outcome", t, real, d))
            else:
                dist["mdCompile_error_line case: " + verdict] += 1
            if holder is not None:
                g_of = 0
                for bi, b in enumerate(recipe_blocks[:holder + 1]):
                    if bi > 0 and b[1] == "new-recipe":
                        g_of += 1
                dist["error in independent recipe #%d of %d" % (min(g_of + 1, 4), min(ngroups, 4))] += 1
                dist["error in %s block" % ("indented" if recipe_blocks[holder][0] == "indented" else "fenced")] += 1
        if group == "multi":
            dist["multi: faults injected=%d" % len(meta["faults"])] += 1
            if meta["empty"]:
                dist["multi: with an empty / blank-only recipe block"] += 1
        if group == "c19-single-fault":
            dist["c19 fault %s in %s/%s" % (meta["kind"], meta["container"], meta["style"])] += 1
    return dict(docs=len(docs), total=total, inside=inside, dist=dist, disagreements=disagreements, outside_diff=outside_diff,
                outside_examples=outside_examples, real_exceptions=real_exceptions)


def main():
    seed = int(sys.argv[1]) if len(sys.argv) > 1 else 20260930
    n = int(sys.argv[2]) if len(sys.argv) > 2 else 1500
    r = collect(seed, n)
    print("seed %d: documents (distinct): %d" % (seed, r["docs"]))
    for g in sorted(r["total"]):
        print("  %-18s %5d   in D2 (compared exactly): %5d" % (g, r["total"][g], r["inside"][g]))
    print("distribution over the compared documents:")
    for k in sorted(r["dist"]):
        print("  %-62s %d" % (k, r["dist"][k]))
    print("outside D2, real code and md-compile-any differ (no claim): %s" % dict(r["outside_diff"]))
    for g, ts in r["outside_examples"].items():
        for t in ts[:3]:
            print("   e.g. %s: %r" % (g, tuple(repr(x) if len(repr(x)) < 140 else repr(x)[:140] + "…" for x in t)))
    print("documents of D2 on which compile_markdown raised something else: %d" % len(r["real_exceptions"]))
    for t, e in r["real_exceptions"][:5]:
        print("   %r -> %r" % (t, e))
    print("DISAGREEMENTS: %d" % len(r["disagreements"]))
    for d in r["disagreements"][:25]:
        print("  %s\n    doc   = %r\n    real  = %r\n    model = %r" % d)
    sys.exit(1 if r["disagreements"] else 0)


if __name__ == "__main__":
    main()
