"""Markdown documents with known structure, and in-process observation of what the recipe_grid
Markdown front end saw (heading texts, code blocks) — by wrapping methods in the harness process only."""
import random as _random
import re
from fractions import Fraction

import marko
from recipe_grid import markdown as M

from . import gen_desc

PLACEHOLDER = re.compile(r"%[A-Z]{32}%")

# ------------------------------------------------------------------ observation
EVENTS = []
_installed = False


def install():
    global _installed
    if _installed:
        return
    _installed = True
    mixin = M.RecipeGridRendererMixin
    orig_heading = mixin.render_heading
    orig_block = mixin.render_recipe_source_block
    orig_fenced = mixin.render_fenced_code

    def render_heading(self, element):
        text = self.render_children(element)
        EVENTS.append(("heading", element.level, text, self.first_heading))
        return orig_heading(self, element)

    def render_recipe_source_block(self, element, in_fenced_block):
        EVENTS.append(("recipe-block", "fenced" if in_fenced_block else "indented", element.lang if in_fenced_block else None,
                       element.pos, element.children[0].children))
        return orig_block(self, element, in_fenced_block)

    def render_fenced_code(self, element):
        if element.lang not in ("recipe", "new-recipe"):
            EVENTS.append(("other-fence", element.lang))
        return orig_fenced(self, element)

    mixin.render_heading = render_heading
    mixin.render_recipe_source_block = render_recipe_source_block
    mixin.render_fenced_code = render_fenced_code


def observe(doc):
    """returns (MarkdownRecipe or exception, events)"""
    install()
    del EVENTS[:]
    try:
        mr = M.compile_markdown(doc)
    except Exception as e:  # noqa
        return e, list(EVENTS)
    return mr, list(EVENTS)


# ------------------------------------------------------------------ generation
TITLE_WORDS = ["Stew", "Bread", "for", "to", "serve", "serves", "makes", "make", "serving", "2", "10", "Food", "&", "drink", "FOR", "To", "SERVES",
               "forty", "before", "x", "03", "for2", "Tom's", "100%", "<b>", "\"q\"", "café", "Serve", "MAKES", "a_b", "*em*", "`code`",
               "\\#1", "Fish \\& chips", "a\\*b"]
PLAIN_TITLE_WORDS = {"Stew", "Bread", "for", "to", "serve", "serves", "makes", "make", "serving", "2", "10", "Food", "&", "drink", "FOR", "To", "SERVES",
                     "forty", "before", "x", "03", "for2", "Tom's", "100%", "\"q\"", "café", "Serve", "MAKES", "a_b", "\\#1", "Fish \\& chips", "a\\*b"}
PHRASES = ["to serve", "to make", "serves", "for", "makes", "serving", "serve", "to serves", "To Serve", "FOR", "Makes", "to  serve", "to\tmake"]
PROSE = ["Some text.", "Mix {2} eggs with {1/2} cup of milk.", "Plain *emphasis* and `code {3}` span.", "A line with 50% and #hash & <b>raw</b> html.",
         "Use {1 1/2} tsp \\{not scaled\\} of salt{}.", "Escaped \\{ brace and {0.5} litres.", "Line one\nline two {3} continues.",
         "Use { to open and `}` to close.", "A lone { before <span title=\"}\">inline html</span> here.", "Brace { then <http://example.com/}> autolink."]


class Doc:
    def __init__(self):
        self.lines = []
        self.blocks = []      # recipe blocks: dict(first_line=index into lines of first code line, prefix=str, text=str, kind, new)
        self.segments = []    # for the CommonMark comparison: ("lines", [..]) | ("block", n)
        self.title = None     # (title text, phrase or None, n or None, plain: bool)  for the FIRST heading only
        self.first_heading_seen = False

    def add(self, ls):
        self.lines.extend(ls)

    def text(self, eol="\n"):
        return eol.join(self.lines) + eol


def gen_heading(rng, doc, level=None, force_servings=None):
    level = level or rng.choice([1, 1, 1, 2, 3])
    if force_servings is None and rng.random() < 0.04:
        # an empty heading
        if not doc.first_heading_seen:
            doc.first_heading_seen = True
            doc.title = dict(level=level, text="", phrase=None, n=None)
        doc.add(["#" * level + rng.choice(["", " #"]), ""])
        return
    words = [rng.choice(TITLE_WORDS) for _ in range(rng.randint(1, 4))]
    title = " ".join(words)
    phrase, n = None, None
    if force_servings or rng.random() < 0.6:
        phrase = rng.choice(PHRASES)
        n = force_servings or rng.choice([1, 2, 4, 6, 12, 100])
        title = title + rng.choice([" ", "  "]) + phrase + rng.choice([" ", "  "]) + (str(n) if rng.random() < 0.9 else "0" + str(n))
    elif rng.random() < 0.08:
        # a count written in the digits of another script is not a serving count: ordinary title text
        title = title + " " + rng.choice(PHRASES) + " " + rng.choice(["\uff14", "\u0664", "\u0967\u0968", "\uff11\uff12"])
    if level <= 2 and rng.random() < 0.25:
        lines = [title, ("=" if level == 1 else "-") * max(3, len(title))]
        # (wrapped inside the title words only: the serving phrase and its count stay on one line, which is what the differential
        #  comparison with plain CommonMark knows how to read)
        base = " ".join(words)
        cut = [i for i, ch in enumerate(base) if ch == " " and 0 < i < len(base) - 1 and base[i - 1] != " " and base[i + 1] != " "]
        if cut and rng.random() < 0.5:
            # a setext heading written over two lines (the title's text has a line break where the author wrapped it)
            i = rng.choice(cut)
            lines = [title[:i], title[i + 1:], lines[1]]
    else:
        lines = ["#" * level + " " + title + rng.choice(["", "", " #", "  "])]
    if not doc.first_heading_seen:
        doc.first_heading_seen = True
        plain = all(w in PLAIN_TITLE_WORDS for w in words)
        doc.title = dict(level=level, text=title, phrase=phrase, n=n, plain=plain, first=(len(doc.lines) == 0))
    doc.add(lines + [""])


def recipe_block_lines(rng, text, style, container, extra=0, lead_blank=0):
    """returns (lines, index of first code line within lines, prefix removed from each code line);
    extra: additional indentation of the recipe text itself (part of the block's content);
    lead_blank: blank lines between the opening fence and the first statement (fenced styles only; part of the block's content)"""
    code = [(" " * extra + l) if l.strip() else l for l in text.split("\n")]
    if style == "indented":
        body = ["    " + l if l.strip() else rng.choice(["", "    "]) for l in code]
        first, strip = 0, "    "
    else:
        fence = rng.choice(["```", "~~~", "````"])
        lang = {"recipe": "recipe", "new": "new-recipe"}[style]
        body = [fence + lang] + [""] * lead_blank + code + [fence]
        first, strip = 1 + lead_blank, ""
    if container == "top":
        return body, first, strip
    if container == "quote":
        return ["> " + l for l in body], first, "> " + strip
    # list item: text line, blank, then the block indented by the item's content offset
    lines = ["- item text", ""] + ["  " + l if l.strip() else "" for l in body]
    return lines, first + 2, "  " + strip


def gen_doc(rng, with_title=None, descs=None, fault=None, simple=False):
    """descs: list of (desc, new_group: bool); when None they are generated. Returns Doc"""
    doc = Doc()
    if with_title is None:
        with_title = rng.random() < 0.8
    if rng.random() < 0.15 and not simple:
        doc.add([rng.choice(PROSE).split("\n")[0], ""])
    if with_title:
        gen_heading(rng, doc)
    if descs is None:
        descs = []
        for gi in range(rng.choice([1, 1, 2])):
            g = gen_desc.Gen(rng)
            d = g.desc(nblocks=rng.choice([1, 2, 3]))
            if descs and rng.random() < 0.3:
                d = descs[0]        # two independent recipes made of identical blocks
            descs.append(d)
    first_block = True
    printed = {}
    for gi, d in enumerate(descs):
        if id(d) in printed and rng.random() < 0.6:
            texts, marks = printed[id(d)]      # the second recipe spells its blocks exactly like the first: character-identical blocks
        else:
            texts, marks = gen_desc.print_desc(d, gen_desc.Spelling(rng))
        printed[id(d)] = (texts, marks)
        for bi, t in enumerate(texts):
            t = t.replace("\r\n", "\n").replace("\r", "\n")
            t = "\n".join(l.rstrip(" \t") if not l.strip() else l for l in t.strip("\n").split("\n")).strip("\n")
            # prose between blocks
            for _ in range(rng.randint(0, 2)):
                k = rng.random()
                if k < 0.5:
                    doc.add(rng.choice(PROSE).split("\n") + [""])
                elif k < 0.6:
                    doc.add(["* one", "* two {2} three", ""])
                elif k < 0.7:
                    doc.add(["> quoted {3} text", ""])
                elif k < 0.8:
                    doc.add(["```" + rng.choice(["python", "python", "recipes", "recipe-grid", "new-recipes", "Recipe", "norecipe", ""]), "x = {1}", "```", ""])
                elif k < 0.9:
                    doc.add(["<div>raw {html}</div>", ""])
                else:
                    gen_heading(rng, doc, level=rng.choice([2, 3]))
            new_group = bi == 0 and not first_block
            if new_group:
                style = "new"
            elif bi == 0 and first_block:
                style = rng.choice(["indented", "recipe", "new"])
            else:
                style = rng.choice(["indented", "recipe"])
            container = "top" if simple else rng.choice(["top", "top", "top", "quote", "list"])
            if style == "indented" and container != "top":
                style = "recipe"   # keep indented blocks at top level (list/quote indentation rules are marko's business)
            if style == "indented" and doc.blocks and doc.blocks[-1]["kind"] == "indented" and doc.blocks[-1].get("end") == len(doc.lines):
                doc.add(["Then:", ""])   # two indented blocks separated only by blank lines would be one code block
            if style == "indented" and doc.lines and doc.lines[-1] != "":
                doc.add([""])
            if style == "indented" and len(doc.lines) >= 2 and doc.lines[-2].startswith(("* ", "- ", "> ")):
                doc.add(["<!-- break -->", ""])   # an indented block right after a list/quote would continue it
            lines, first, strip = recipe_block_lines(rng, t, style, container)
            doc.blocks.append(dict(first_line=len(doc.lines) + first, prefix=strip, text=t, kind=style, group=gi, container=container))
            doc.add(lines + [""])
            doc.blocks[-1]["end"] = len(doc.lines)
            if container == "list":
                doc.add(["<!-- end list -->", ""])
            first_block = False
    if rng.random() < 0.3:
        doc.add([rng.choice(PROSE).split("\n")[0], ""])
    doc.descs = descs
    return doc
