"""C16: the file-system model (Model/Fs.lean: symlinks, Path.resolve() incl. its behaviour on loops, URL -> path, containment) against the real
rewrite_link closures of resolve_local_links / embed_local_links_as_data_urls on real scratch directories, and the containment oracle.
Generators adapted from the model author's validation script."""
import base64
import os
import random
import shutil
from pathlib import Path
from urllib.parse import urlsplit, unquote, quote

from recipe_grid.static_site.html_postprocessing import resolve_local_links, embed_local_links_as_data_urls
from recipe_grid.static_site.exceptions import LinkToExternalFileError, LinkToNonExistentFileError

from . import sexp, gen_site

def path_sx(p):
    p = str(p)
    assert p.startswith("/")
    return sexp.lst(sexp.s, [c for c in p.split("/")[1:]] if p != "/" else [])

def fs_sx(top):
    """every entry below `top` (not following links) + the chain of directories down to it"""
    entries = []
    top = Path(top)
    for anc in list(reversed(top.parents))[1:] + [top]:
        entries.append(sexp.tag("n", path_sx(anc), "(dir)"))
    for d, dirs, files in os.walk(top, followlinks=False):
        for name in dirs + files:
            p = Path(d) / name
            if p.is_symlink():
                node = sexp.tag("symlink", sexp.s(os.readlink(p)))
            elif p.is_dir():
                node = "(dir)"
            else:
                node = sexp.tag("file", sexp.lst(str, list(p.read_bytes())))
            entries.append(sexp.tag("n", path_sx(p), node))
    return "(l " + " ".join(entries) + ")"

def real_rewrite(root, source, url, lookup, embed=False):
    """call the closure rewrite_link directly through a one-link tree"""
    assets = {}
    captured = {}
    class T:
        def rewrite_links(self, f): captured["f"] = f
    if embed:
        embed_local_links_as_data_urls(T(), source=source, root=root)
    else:
        resolve_local_links(T(), source=source, root=root, from_path="/x.html", source_to_page_paths=lookup, filename_to_asset_paths=assets, assets_dir_path="/assets")
    try:
        out = captured["f"](url)
    except LinkToExternalFileError:
        return ("external",)
    except LinkToNonExistentFileError:
        return ("missing",)
    except RuntimeError as e:
        return ("loop",) if "Symlink loop" in str(e) else ("raises", repr(e))
    except Exception as e:
        return ("raises", repr(e))
    if out == url and not assets:
        parts = urlsplit(url)
        if parts.scheme != "" or parts.netloc != "" or parts.path == "":
            return ("untouched",)
    if embed:
        return ("embedded", out)
    if assets:
        (k, v), = assets.items()
        return ("asset", str(k), v, k.read_bytes())
    return ("pagehref", out)

NAMES = ["a", "b", "c", "d.md", "e.txt", "x y", "é", "site", "site-private", "l1", "l2", "l3"]
def build_random(rng, scratch):
    root = scratch / "site"
    root.mkdir()
    (scratch / "site-private").mkdir()
    (scratch / "site-private" / "secret.txt").write_bytes(b"secret")
    (scratch / "outside").mkdir()
    (scratch / "outside" / "o.txt").write_bytes(b"outside")
    dirs = [scratch, root, scratch / "outside"]
    allp = []
    for _ in range(rng.randint(3, 10)):
        d = rng.choice([x for x in dirs if x == root or root in x.parents] if rng.random() < .8 else dirs)
        name = rng.choice(NAMES)
        p = d / name
        if p.exists() or p.is_symlink():
            continue
        k = rng.random()
        if k < .3:
            p.mkdir(); dirs.append(p)
        elif k < .6:
            p.write_bytes(bytes(rng.randrange(256) for _ in range(rng.randint(0, 5))))
        else:
            # symlink: relative or absolute; to existing thing, to a link, dangling, with dots
            tgt_kind = rng.random()
            cand = dirs + allp
            if rng.random() < .6: cand = [x for x in cand if root in x.parents] or cand
            t = rng.choice(cand) if cand else root
            if tgt_kind < .15:
                t = t / "nope"
            if rng.random() < .5:
                target = str(t)
                if rng.random() < .2: target = target + "/../" + t.name
                if rng.random() < .1: target = "//" .join(target.split("/",2)[1:]) if False else target.replace("/", "//", 1)[1:] if False else target
            else:
                target = os.path.relpath(t, d)
                if rng.random() < .2: target = "./" + target
                if rng.random() < .1: target = target + "/."
            if rng.random() < .08:
                target = name  # self loop
            os.symlink(target, p)
        allp.append(p)
    # an occasional 2-cycle
    if rng.random() < .4:
        d = rng.choice(dirs[1:])
        if not (d/"l1").exists() and not (d/"l1").is_symlink() and not (d/"l2").exists() and not (d/"l2").is_symlink():
            os.symlink("l2", d / "l1"); os.symlink("l1", d / "l2"); allp += [d/"l1", d/"l2"]
    return root, dirs, allp

def random_url(rng, root, dirs, allp, sd):
    k = rng.random()
    if k < .08:
        return rng.choice(["", "#f", "http://e.com/x", "//e.com/x", "mailto:x", "?q", " a", "\ta", "a\nb", "x:y", "1x:y", "a+b.c-d:zz", "a/b:c", "///site", "/", ".", "..", "a%00b", "%", "%4", "%zz", "a%2fb", "%2F", "%2e%2e/x", "HTTP:x", "é:x", "a#b?c", "a?b#c", "[x", "//[x", "//", "//?x", "/%2e%2e/outside/o.txt"])
    cand = [p for p in dirs + allp]
    if rng.random() < .7: cand = [x for x in cand if root in x.parents] or cand
    t = rng.choice(cand)
    if rng.random() < .2: t = t / rng.choice(NAMES + ["..", "nope"])
    if rng.random() < .3:
        rel = os.path.relpath(t, root)
        u = "/" + rel
    else:
        u = os.path.relpath(t, sd)     # lexical relpath: may differ from physical, fine
    if rng.random() < .2: u = u + "/../" + rng.choice(NAMES)
    if rng.random() < .1: u = "./" + u
    if rng.random() < .1: u = u + "/"
    if rng.random() < .1: u = u.replace("/", "//")
    if rng.random() < .5: u = quote(u)
    if rng.random() < .1: u = u + rng.choice(["#frag", "?q=1", "?a#b"])
    return u



def page_keys(root):
    rr = root.resolve()
    pages = {}
    for d, ds, fs_ in os.walk(rr, followlinks=False):
        dp = Path(d)
        if not dp.is_symlink():
            pages[dp] = ("/categories/x/index.html", True)
        for f in fs_:
            fp = dp / f
            if f.endswith(".md") and not fp.is_symlink() and fp.is_file():
                pages[fp] = ("/serves2/x.html", True)
        ds[:] = [x for x in ds if not (dp / x).is_symlink()]
    return rr, pages


def directed_trees(scratch):
    """the shapes the property names: link out, link back in, dotdot escapes, sibling with the root's name as prefix, loops before '..'"""
    root = scratch / "site"
    (root / "a").mkdir(parents=True)
    (scratch / "outside").mkdir()
    (scratch / "site-private").mkdir()
    (scratch / "outside" / "secret.txt").write_bytes(b"outside secret")
    (scratch / "site-private" / "secret.txt").write_bytes(b"private secret")
    (root / "top.txt").write_bytes(b"top")
    (root / "a" / "in.txt").write_bytes(b"inside")
    os.symlink("../../outside/secret.txt", root / "a" / "link-outside.txt")
    os.symlink(str(scratch / "outside"), root / "a" / "dir-outside")
    os.symlink("../top.txt", root / "a" / "link-inside.txt")
    os.symlink("loop", root / "a" / "loop")
    os.symlink("l2", root / "a" / "l1")
    os.symlink("l1", root / "a" / "l2")
    urls = ["in.txt", "link-outside.txt", "dir-outside/secret.txt", "link-inside.txt", "../../outside/secret.txt", "../../site-private/secret.txt",
            "/../outside/secret.txt", "%2e%2e/%2e%2e/outside/secret.txt", "loop/../link-outside.txt", "loop/../dir-outside/secret.txt", "l1/../link-outside.txt",
            "loop/../in.txt", "loop/x", "l1", "dir-outside/../a/in.txt", "link-inside.txt/../in.txt", "nope.txt", "loop/../nope.txt", "/a/in.txt", "/top.txt"]
    dirs = [scratch, root, scratch / "outside", root / "a"]
    return root, dirs, urls


def cases(rng, n, base):
    """yield (scratch, root, source dir, url, mode, lookup) over directed and random trees"""
    scratch = base / "directed"
    scratch.mkdir()
    root, dirs, urls = directed_trees(scratch)
    rr, pages = page_keys(root)
    for url in urls:
        for mode in ("link", "embed"):
            yield scratch, root, root / "a", url, mode, (pages if mode == "link" else {})
    for i in range(n):
        scratch = base / ("t%d" % i)
        scratch.mkdir()
        root, dirs, allp = build_random(rng, scratch)
        indirs = [d for d in dirs if d == root or root in d.parents]
        rr, pages = page_keys(root)
        for _ in range(10):
            sd = rng.choice(indirs)
            url = random_url(rng, root, dirs, allp, sd)
            mode = rng.choice(["link", "linkp", "embed"])
            if mode == "linkp":
                keys = rng.sample(sorted(pages), k=min(len(pages), rng.randint(0, 3)))
                lk = {k: pages[k] for k in keys}
            else:
                lk = pages if mode == "link" else {}
            yield scratch, root, sd, url, mode, lk


def agree(real, m, url, root, sd):
    rr = str(root.resolve())
    if real[0] in ("untouched", "external", "missing", "loop"):
        return isinstance(m, tuple) and m[0] == real[0] and len(m) == 1
    if real[0] == "asset":
        rel = [x if isinstance(x, str) else "" for x in m[1]] if isinstance(m, tuple) and m[0] == "asset" else None
        return rel is not None and real[1] == rr.rstrip("/") + "/" + "/".join(rel) and real[2] == "/assets/" + "/".join(rel) and list(real[3]) == list(m[2])
    if real[0] == "embedded":
        return isinstance(m, tuple) and m[0] == "asset" and real[1].endswith(";base64," + base64.b64encode(bytes(m[2])).decode())
    if real[0] == "pagehref":
        parts = urlsplit(url)
        path = unquote(parts.path)
        fsp = (root / Path(*path.split("/")[1:])) if path.startswith("/") else (sd / Path(*path.split("/")))
        return isinstance(m, tuple) and m[0] == "page" and m[1] == str(double_resolve(fsp))
    if real[0] == "raises" and "ValueError" in real[1] and m == ("untouched",):
        return True      # documented deviation: urlsplit's ValueError for a malformed netloc
    return False


def double_resolve(p):
    return p.resolve()


def correspondence(run, n):
    base = Path(os.path.realpath(str(gen_site.scratch_root())))
    try:
        reqs, meta = [], []
        fs_cache = {}
        for scratch, root, sd, url, mode, lk in cases(run.rng, n, base):
            fsx = fs_cache.get(scratch) or fs_cache.setdefault(scratch, fs_sx(scratch))
            real = real_rewrite(root, sd / "recipe.md", url, lk, embed=(mode == "embed"))
            if mode == "linkp":
                reqs.append(sexp.tag("fslinkp", sexp.lst(path_sx, sorted(lk)), fsx, path_sx(root), path_sx(sd), sexp.s(url)))
            else:
                reqs.append(sexp.tag("fslink" if mode == "link" else "fsembed", fsx, path_sx(root), path_sx(sd), sexp.s(url)))
            meta.append((scratch, root, sd, url, mode, real))
        rep = run.ask(reqs)
        for (scratch, root, sd, url, mode, real), m in zip(meta, rep):
            run.case(("fs", str(scratch.name), str(sd), url, mode), real[0] not in ("untouched",), kind="fs-" + mode + ":" + real[0],
                     sample={"url": url, "outcome": real[0]})
            run.groups["rewrite_link on a real directory tree"] += 1
            if not agree(real, m, url, root, sd):
                run.disagree("fs", {"tree": sorted(str(p.relative_to(scratch)) + (" -> " + os.readlink(p) if p.is_symlink() else "") for p in scratch.rglob("*")),
                                    "source_dir": str(sd.relative_to(scratch)), "url": url, "mode": mode}, repr(real)[:300], repr(m)[:300])
    finally:
        shutil.rmtree(base, ignore_errors=True)


def containment_oracle(rng, n):
    """no byte of an outside file ever reaches the output: whatever file an accepted link is served from, fully resolved, lies under the root,
    and the bytes served are that file's; a link whose file (fully resolved) lies outside, or does not exist, is refused"""
    out = []
    base = Path(os.path.realpath(str(gen_site.scratch_root())))
    try:
        for scratch, root, sd, url, mode, lk in cases(rng, n, base):
            real = real_rewrite(root, sd / "recipe.md", url, lk, embed=(mode == "embed"))
            rr = os.path.realpath(root)
            tree = sorted(str(p.relative_to(scratch)) + (" -> " + os.readlink(p) if p.is_symlink() else "") for p in scratch.rglob("*"))
            where = {"tree": tree, "source_dir": str(sd.relative_to(scratch)), "url": url, "mode": mode}
            if real[0] == "asset":
                served_from = os.path.realpath(real[1])
                if not (served_from == rr or served_from.startswith(rr + os.sep)):
                    out.append(("C16:bytes-of-a-file-outside-the-root-served", "%r in %s: the copy under %s is read from %s, outside %s" % (url, where["source_dir"], real[2], served_from, rr), where))
                elif real[3] != Path(served_from).read_bytes():
                    out.append(("C16:asset-not-byte-identical", "%r" % url, where))
                elif real[2] != "/assets/" + os.path.relpath(served_from, rr).replace(os.sep, "/") and os.path.realpath(real[1]) == real[1]:
                    out.append(("C16:asset-path-is-not-the-resolved-files-path", "%r: %s for %s" % (url, real[2], served_from), where))
            elif real[0] == "embedded":
                data = base64.b64decode(real[1].split(";base64,", 1)[1])
                outside = [p for p in scratch.rglob("*") if p.is_file() and not p.is_symlink() and not str(os.path.realpath(p)).startswith(rr + os.sep)]
                if any(data == p.read_bytes() and data for p in outside) and not any(
                        data == p.read_bytes() for p in Path(rr).rglob("*") if p.is_file() and str(os.path.realpath(p)).startswith(rr + os.sep)):
                    out.append(("C16:bytes-of-a-file-outside-the-root-served", "%r in %s: the data URL holds the bytes of a file outside %s" % (url, where["source_dir"], rr), where))
            elif real[0] == "raises":
                if not ("ValueError" in real[1] and ("[" in url or "]" in url)):
                    out.append(("C16:link-rewriting-raises", "%r: %s" % (url, real[1][:200]), where))
    finally:
        shutil.rmtree(base, ignore_errors=True)
    return out


def replay_containment(where):
    """rebuild the recorded tree (files get their recorded names as content) and re-run the oracle on the one link"""
    base = Path(os.path.realpath(str(gen_site.scratch_root())))
    try:
        for line in where["tree"]:
            name, _, target = line.partition(" -> ")
            p = base / name
            p.parent.mkdir(parents=True, exist_ok=True)
            if target:
                os.symlink(target, p)
        for line in where["tree"]:
            name, _, target = line.partition(" -> ")
            p = base / name
            if not target and not p.exists() and not p.is_symlink():
                if any(other.startswith(name + "/") for other in where["tree"]):
                    p.mkdir(parents=True, exist_ok=True)
                else:
                    p.write_bytes(("content of " + name).encode())
        root = base / "site"
        sd = base / where["source_dir"]
        rr, pages = page_keys(root)
        real = real_rewrite(root, sd / "recipe.md", where["url"], pages if where["mode"] == "link" else {}, embed=(where["mode"] == "embed"))
        out = []
        rrs = os.path.realpath(root)
        if real[0] == "asset" and not (os.path.realpath(real[1]) + os.sep).startswith(rrs + os.sep):
            out.append(("C16:bytes-of-a-file-outside-the-root-served", "%r served from %s" % (where["url"], os.path.realpath(real[1]))))
        if real[0] == "embedded":
            data = base64.b64decode(real[1].split(";base64,", 1)[1])
            if data.startswith(b"content of ") and not (os.path.realpath(base / data[len(b"content of "):].decode()) + os.sep).startswith(rrs + os.sep):
                out.append(("C16:bytes-of-a-file-outside-the-root-served", "%r embeds %r" % (where["url"], data)))
        if real[0] == "raises":
            out.append(("C16:link-rewriting-raises", real[1]))
        return out
    finally:
        shutil.rmtree(base, ignore_errors=True)
