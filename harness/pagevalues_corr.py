#!/venv/bin/python
"""Correspondence for L25: the scaled values of a rendered page.

For generated Markdown documents and the factors {1, 2, 3, 1/2, 3/2, 7/3, 0.75} (+ the page factors n/servings of documents that state
servings) compare
  * the elements of class rg-scaled-value of the REAL `MarkdownRecipe.render(k)`, in document order (text without the nested conversion list),
  * with the model's `shownNums d k (docTemplate d)` (request `page-nums`), each number formatted by the model's `formatNumber` (request `fmt`)
    followed by the spacing+unit the model says is written behind it;
and check on every (document, factor) the decidable hypotheses of the template theorem (ChainOK, HolesBelow, the HTML is the flattening of the
template), its conclusion (`fill = renderDoc`, and `renderDoc` = the real page), and - with Python's own arithmetic - that every shown number
is the written number times the factor.  Exits non-zero on any disagreement."""
import os
import random
import sys
from collections import Counter
from fractions import Fraction

HERE = os.path.dirname(os.path.dirname(os.path.abspath(__file__)))
sys.path.insert(0, HERE)

from harness import sexp, gen_md, md_common, htmltok  # noqa: E402
from harness.core import Run  # noqa: E402

SCALES = [1, 2, 3, Fraction(1, 2), Fraction(3, 2), Fraction(7, 3), 0.75]

FIXED = [
    # two prose values, two recipe blocks (the document of the Lean non-vacuity example)
    "# Pie for 4\n\nRoll {2} sheets and cut {1 1/2} rounds.\n\n    200 g flour\n    pastry = mix(flour, {3} eggs)\n\nThen:\n\n```recipe\nbake(pastry, 2 kg apples)\n```\n\nServe in {2} bowls.\n",
    # units with conversions, floats, a multi-output sub recipe, a reference with a quantity, names with numbers
    "# Stock to serve 6\n\n    1 lb bones\n    0.5 l water\n    stock, scraps = boil(bones, water)\n\nUse {0.25} of it.\n\n    soup = simmer(300 ml stock, 1 1/2 tsp salt)\n\n~~~new-recipe\n2 cups rice\nboil(rice, {4} cups water)\n~~~\n",
    # no title; a value used in a list and a quote; a block in a quote
    "Intro {1} and {10}.\n\n* one {2}\n* two\n\n> quoted {3/4}\n>\n> ```recipe\n> 3 eggs\n> ```\n",
    # unscalable title
    "# Bread\n\n{500} g in all.\n\n    500 g flour\n",
    # stated servings 1 (singular note), large numbers
    "# Feast for 1\n\n{9007199254740993} grains, {100000000000000001} more.\n\n    9007199254740993 g sand\n",
    # a number larger than a float can hold exactly next to a float
    "# Mix for 3\n\n{0.1} and {1/3} and {2.50}.\n\n    0.1 kg salt\n    1/3 cup oil\n",
    # percent signs and upper-case text next to values (the placeholder alphabet)
    "# ABC FOR 2\n\n100%{2}%ABC {3}% and %{4}\n\n    2 X\n",
    # a sub recipe whose name is shown in a header cell, a proportion of it
    "# Cake for 8\n\n    icing := mix(100 g sugar, 2 tsp water)\n    cake = bake(3 eggs, 1/2 of the icing)\n    serve(cake, remaining icing)\n",
]


def real_values(html):
    root, _ = htmltok.tree(html)
    out = []
    for n in root.iter():
        if "rg-scaled-value" in n.classes():
            out.append(n.text(lambda x: x.tag == "ul").strip())
    return out


def to_py(x):
    kind, v = x
    if kind == "int":
        return int(v)
    if kind == "frac":
        return Fraction(v)
    return float(v)


def num_sexp(x):
    kind, v = x
    if kind == "int":
        return "(int %d)" % v
    return "(%s %d %d)" % (kind, v.numerator, v.denominator)


def main():
    seed = int(sys.argv[sys.argv.index("--seed") + 1]) if "--seed" in sys.argv else 20260930
    ndocs = int(sys.argv[sys.argv.index("--docs") + 1]) if "--docs" in sys.argv else 400
    run = Run("L25", "quick", seed)
    rng = random.Random(seed)
    dist = Counter()
    bad = []

    texts = list(FIXED)
    for i in range(ndocs):
        doc = gen_md.gen_doc(rng, simple=(i % 5 == 0))
        texts.append(doc.text("\r\n" if i % 17 == 3 else "\n"))
    # a long document: more than thirty values and several blocks
    paras = ["Step %d uses {%d} spoons and {%d/4} cups." % (i, i, i) for i in range(1, 16)]
    blocks = ["    item%d = mix(%d g flour%d, water)" % (i, i, i) for i in range(1, 5)]
    texts.append("# Feast for 2\n\n" + "\n\n".join(paras[:8]) + "\n\n" + "\n\ntext\n\n".join(blocks) + "\n\n" + "\n\n".join(paras[8:]) + "\n")

    cases = []      # (text, mr, k)
    for text in texts:
        mr, _events = gen_md.observe(text)
        if isinstance(mr, Exception):
            dist["document rejected by compile_markdown: " + type(mr).__name__] += 1
            continue
        dist["document compiled"] += 1
        dist["document with %s" % ("stated servings" if mr.servings is not None else "title, no servings" if mr.title is not None else "no title")] += 1
        ks = list(SCALES)
        if mr.servings:
            # the factors of the pages /servesN/: N / stated servings, among them the native page
            ks += [Fraction(n, mr.servings) for n in sorted({1, mr.servings, mr.servings + 1, 5})]
        for k in ks:
            cases.append((text, mr, k))

    # ---- malformed stream: the request must be refused, not answered
    junk = ["(page-nums)", "(page-nums (doc) (int 1))", "(page-nums (s 1 2) (int 1))", "(page-nums %s (frac 1 0))" % md_common.doc_sexp(cases[0][1]),
            "(page-nums %s)" % md_common.doc_sexp(cases[0][1]), "(page-nums %s (int 1) (int 2))" % md_common.doc_sexp(cases[0][1])]
    for req, rep in zip(junk, run.ask(junk)):
        dist["malformed request refused"] += 1
        if not (isinstance(rep, tuple) and rep and rep[0] == "bad-request"):
            bad.append(("malformed request answered", req[:80], rep))

    reqs = [sexp.tag("page-nums", md_common.doc_sexp(mr), sexp.num(k)) for _, mr, k in cases]
    reqs2 = [sexp.tag("mdrender", md_common.doc_sexp(mr), sexp.num(k)) for _, mr, k in cases]
    reps = run.ask(reqs)
    reps2 = run.ask(reqs2)

    # format every shown number with the model's formatNumber
    fmt_reqs, index = [], {}
    for rep in reps:
        for sh in rep[6]:
            key = sh[1]
            if key not in index:
                index[key] = len(fmt_reqs)
                fmt_reqs.append(sexp.tag("fmt", num_sexp(key)))
    fmt_reps = run.ask(fmt_reqs)

    for (text, mr, k), rep, page_model in zip(cases, reps, reps2):
        assert rep[0] == "page", rep
        _, chain_ok, holes_below, flat_ok, concl_ok, nholes, shown, written = rep
        real_html = mr.render(k)
        dist["(document, factor) compared"] += 1
        dist["factor kind " + type(k).__name__] += 1
        if not chain_ok:
            bad.append(("ChainOK fails on a real document", text, k))
        if not holes_below:
            bad.append(("HolesBelow fails", text, k))
        if not flat_ok:
            bad.append(("html is not the flattening of its template", text, k))
        if not concl_ok:
            bad.append(("fill(template) != renderDoc (contradicts the theorem)", text, k))
        if page_model != real_html:
            bad.append(("renderDoc differs from the real render", text, k))
        want = real_values(real_html)
        got = [(fmt_reps[index[sh[1]]].replace("/", "⁄") + sh[2]).strip() for sh in shown]
        if want != got:
            bad.append(("scaled values differ", text, k, want, got))
        # every shown number is the written number times the factor (Python's arithmetic), the text behind it unchanged
        if len(shown) != len(written):
            bad.append(("shown and written differ in length", text, k))
        else:
            for sh, wr in zip(shown, written):
                if sexp.pynum(to_py(wr[1]) * k) != sh[1] or sh[2] != wr[2]:
                    bad.append(("shown is not written times factor", text, k, wr, sh))
                    break
        dist["scaled values compared"] += len(want)
        dist["holes in templates"] += nholes
        for sh in shown:
            dist["shown number kind " + sh[1][0]] += 1
            if sh[2]:
                dist["shown number followed by a unit"] += 1
        if nholes == 0:
            dist["page without holes"] += 1
        if mr.servings and k == 1:
            dist["native page (factor 1)"] += 1
        if any("rg-quantity-with-conversions" in n.classes() for n in htmltok.tree(real_html)[0].iter()):
            dist["page with unit conversions"] += 1
        # the count in the heading of the page for n: written servings times n/servings shows n
        if mr.servings and isinstance(k, Fraction) and (k * mr.servings).denominator == 1:
            root, _ = htmltok.tree(real_html)
            counts = [n for n in root.iter() if "rg-serving-count" in n.classes()]
            if counts:
                inner = [c.text().strip() for c in counts[0].iter() if "rg-scaled-value" in c.classes()]
                dist["heading count checked"] += 1
                if inner != [str(int(k * mr.servings))]:
                    bad.append(("heading count", text, k, inner))

    # ---- the stand-alone page for m servings: the REAL generate_standalone_page(servings=m) shows the model's numbers at the model's
    #      pageScale (some m) (some stated)
    import shutil
    import tempfile
    from recipe_grid.static_site.standalone_page import generate_standalone_page
    from pathlib import Path
    scratch = Path(tempfile.mkdtemp(prefix="l25-"))
    try:
        seen, pages = set(), []
        for text, mr, _k in cases:
            if mr.servings and text not in seen and len(seen) < 40:
                seen.add(text)
                for m in sorted({1, mr.servings, mr.servings + 1, 7}):
                    pages.append((text, mr, m))
        ks = run.ask([sexp.tag("pagescale", "(some %d)" % m, "(some %d)" % mr.servings) for _, mr, m in pages])
        reps3 = run.ask([sexp.tag("page-nums", md_common.doc_sexp(mr), num_sexp(k)) for (_, mr, _m), k in zip(pages, ks)])
        need = [sh[1] for rep in reps3 for sh in rep[6] if sh[1] not in index]
        need = list(dict.fromkeys(need))
        more = run.ask([sexp.tag("fmt", num_sexp(x)) for x in need])
        extra = dict(zip(need, more))
        for (text, mr, m), k, rep in zip(pages, ks, reps3):
            f = scratch / "doc.md"
            f.write_text(text)
            page = generate_standalone_page(f, servings=m, embed_local_links=False)
            dist["stand-alone page (servings=m) compared"] += 1
            if k != ("frac", Fraction(m, mr.servings)):
                bad.append(("pageScale", text, m, k))
            want = real_values(page)
            got = [((fmt_reps[index[sh[1]]] if sh[1] in index else extra[sh[1]]).replace("/", "\u2044") + sh[2]).strip() for sh in rep[6]]
            if want != got:
                bad.append(("stand-alone page: scaled values differ", text, m, want, got))
            if not rep[1]:
                bad.append(("ChainOK fails at a page factor", text, m))
    finally:
        shutil.rmtree(scratch, ignore_errors=True)

    print("L25 correspondence (seed %d, %d generated documents)" % (seed, ndocs))
    for key in sorted(dist):
        print("  %-60s %d" % (key, dist[key]))
    print("disagreements: %d" % len(bad))
    for b in bad[:20]:
        print("DISAGREE", repr(b)[:3000])
    return 1 if bad else 0


if __name__ == "__main__":
    sys.exit(main())
