#!/venv/bin/python
"""Correspondence for task L2: `ScaledValueExpression` (recipe_grid/markdown.py) against Model/BraceExpr.lean.

  * `(brace-match <text>)`  vs  `ScaledValueExpression.pattern.match(text)`  -> (source group, end offset) / no match
  * `(brace-parse <source>)` vs `ScaledValueExpression(match)` -> (`.string` parts, `.children`) / exception name

Exact comparison.  Usage: /venv/bin/python corr_L2.py [--quick] [--seed N]
"""
import sys, os, random, itertools, subprocess, time
from collections import Counter
from fractions import Fraction

HERE = os.path.dirname(os.path.dirname(os.path.abspath(__file__)))
sys.path.insert(0, HERE)

from harness import sexp                      # noqa: E402
from harness.rsexp import c_svs               # noqa: E402
from recipe_grid.markdown import ScaledValueExpression as SVE   # noqa: E402

DRIVER = os.path.join(HERE, "lean", ".lake", "build", "bin", "driver")


def ask(requests, chunk=50000):
    out = []
    for i in range(0, len(requests), chunk):
        part = requests[i:i + chunk]
        p = subprocess.run([DRIVER], input="\n".join(part) + "\n", stdout=subprocess.PIPE, stderr=subprocess.PIPE,
                           text=True, timeout=3600)
        lines = p.stdout.splitlines()
        if p.returncode != 0 or len(lines) != len(part):
            raise RuntimeError("driver failed rc=%s %d/%d %s" % (p.returncode, len(lines), len(part), p.stderr[-300:]))
        # decoding replies may involve integers beyond Python's str->int limit; the limit is lifted only here
        # (the real code below runs with the default limit, which is part of what is compared)
        old = sys.get_int_max_str_digits()
        sys.set_int_max_str_digits(0)
        try:
            out.extend(sexp.decode(sexp.parse(l)) for l in lines)
        finally:
            sys.set_int_max_str_digits(old)
    return out


# ------------------------------------------------------------------ the real code
def real_match(text):
    m = SVE.pattern.match(text)
    if m is None:
        return None
    return (m["source"], m.end())


class FakeMatch(dict):
    """`__init__` only reads `match["source"]`"""


def real_parse(src):
    try:
        e = SVE(FakeMatch(source=src))
    except (ValueError, OverflowError, ZeroDivisionError, RecursionError, AttributeError, TypeError, IndexError) as ex:
        return type(ex).__name__
    import math
    if any(isinstance(p, float) and math.isinf(p) for p in e.string._string):
        return "infinite-float"       # a decimal beyond the float range: the string holds float('inf'), outside the model's numbers
    return ("ok", c_svs(e.string), e.children)


def greedy_end(text):
    """end offset of the match if every backslash is read as an escape (of anything but a line feed); else None"""
    if not text.startswith("{"):
        return None
    i = 1
    while i < len(text):
        ch = text[i]
        if ch == "}":
            return i + 1
        if ch == "{":
            return None
        if ch == "\\" and i + 1 < len(text) and text[i + 1] != "\n":
            i += 2
        else:
            i += 1
    return None


def model_match(r):
    if r is None:
        return None
    return (r[0], r[1])


def model_parse(r):
    if isinstance(r, str):
        return r
    assert r[0] == "ok", r
    return ("ok", [tuple(p) for p in r[1]], r[2])


# ------------------------------------------------------------------ generators
def soups(alphabet, maxlen):
    for n in range(maxlen + 1):
        for t in itertools.product(alphabet, repeat=n):
            yield "".join(t)


HSP = [" ", "\t", "  ", " \t "]


def rand_digits(rng, lo=1, hi=4, lead_zero=True):
    n = rng.randint(lo, hi)
    s = "".join(rng.choice("0123456789") for _ in range(n))
    if lead_zero and rng.random() < 0.2:
        s = "0" * rng.randint(1, 2) + s
    return s


def rand_number(rng):
    k = rng.random()
    if k < 0.25:
        return rand_digits(rng)
    if k < 0.45:
        return rand_digits(rng) + "." + (rand_digits(rng, 0, 4) if rng.random() < 0.85 else "")
    osp = lambda: rng.choice(["", "", "", " ", "\t", "  "])
    den = rand_digits(rng) if rng.random() < 0.85 else rng.choice(["0", "00", "000", "0" + rand_digits(rng)])
    if k < 0.75:
        return rand_digits(rng) + osp() + "/" + osp() + den
    return rand_digits(rng) + rng.choice(HSP) + rand_digits(rng) + osp() + "/" + osp() + den


TEXT_CHARS = list("abcxyz ,.-/:;()'\"%\t") + ["\n", "\r", "٣", "½", "é", "①", "\u2028", "\x00", "\U0001F600"]
ESCAPES = ["\\{", "\\}", "\\\\", "\\1", "\\0", "\\ ", "\\a", "\\.", "\\/", "\\\n", "\\٣"]


def rand_text(rng):
    n = rng.randint(1, 6)
    out = []
    for _ in range(n):
        if rng.random() < 0.3:
            out.append(rng.choice(ESCAPES))
        else:
            out.append(rng.choice(TEXT_CHARS))
    return "".join(out)


def rand_source(rng):
    """a mostly valid source: numbers and text, sometimes back to back"""
    n = rng.randint(0, 6)
    out = []
    for _ in range(n):
        out.append(rand_number(rng) if rng.random() < 0.5 else rand_text(rng))
    return "".join(out)


MAL = list("{}{}\\\\\\//.. \t\n0123456789ab") + ["٣"]


def rand_malformed(rng):
    n = rng.randint(0, 14)
    return "".join(rng.choice(MAL) for _ in range(n))


def printed_values(rng):
    """strings as the documentation writes them"""
    words = ["cups", "kg", " g", "ml", " large eggs", "-inch", "%", " °C", " to ", " x ", "ish"]
    n = rng.randint(1, 4)
    out = []
    for _ in range(n):
        k = rng.random()
        if k < 0.3:
            out.append(str(rng.randint(0, 3000)))
        elif k < 0.5:
            out.append(repr(round(rng.random() * 10 ** rng.randint(0, 4), rng.randint(1, 5))))
        elif k < 0.7:
            out.append("%d/%d" % (rng.randint(0, 30), rng.randint(1, 16)))
        else:
            out.append("%d %d/%d" % (rng.randint(0, 30), rng.randint(0, 30), rng.randint(1, 16)))
        out.append(rng.choice(words))
    return "".join(out)


CORNER_SOURCES = [
    "", "4", "1 1/2", "2.5", "1.", "01/02", "1/0", "1/00", "1/000", "1 2/0", "1 2/0 ", "1/01", "10/010", "007",
    "1 /2", "1/ 2", "1 / 2", "1\t/\t2", "1 2 /3", "1  2/3", "1 2/3/4", "1/2/3", "1 2 3/4", "1 2 3 4/5", "1.5/2",
    "1/2.5", "1.2.3", "1..2", ".5", "5.", "1 . 2", "1 .5", "12 34/56", "12 34 / 56", "0/1", "0 0/1", "00", "0.0",
    "\\{", "\\}", "\\\\", "\\1", "\\", "a\\", "\\\n", "\\\n1", "\\\\\\", "\\\\{", "\\\\}", "{", "}", "{}", "a{b}c",
    "a{1}b", "}{", "\\{not one\\}", "\n", "a\nb", "1\n/2", "1 \n2/3", "٣", "٣/٤", "1٣", "½", "①/②",
    "1/2 cup", "1 cup", "1 / cup", "1 /", "1/", "/2", "1 2/", "1 2", "1 2 ", "3 4/0x", "1e5", "1E5", "1_000", "+1", "-1",
    "1/-2", "0x10", "1,5", "1 000", "1.5e3", "1\u00a02/3", "1\u20092/3", "1\x0b2/3", "1\r2/3",
    "\\1/2", "1\\/2", "1/\\2", "1 \\2/3", "1.\\5", "1\\.5",
]

LONG_SOURCES = [
    "1" * 4300, "1" * 4301, "0" * 4301, "0" * 4300 + "1", "0" * 4299 + "1",
    "1" * 4301 + ".", "1" * 4301 + ".5",
    "1" * 4301 + " 1/2", "1 " + "1" * 4301 + "/2", "1 1/" + "1" * 4301, "1/" + "0" * 4300 + "1", "1/" + "0" * 4301,
    "1" * 4301 + "/0", "1" * 4301 + " 1/0", "x" * 5000, "1" * 400 + ".5", "1" * 308 + ".5", "9" * 308 + ".9", "1" * 309 + ".",
    str(2 ** 1024 - 2 ** 970) + ".0", str(2 ** 1024 - 2 ** 970 - 1) + ".9999", str(2 ** 1024 - 2 ** 970 - 1) + ".",
    str(2 ** 1024 - 2 ** 970) + " 1/9", str(2 ** 1024 - 2 ** 970 - 1) + " 1/9", str(2 ** 1024 - 2 ** 970 - 1) + " 8/9",
    str(2 ** 1024 - 2 ** 970) + " 1/2", "1" * 400 + " 1/11", "1" * 400 + " 1/3", "1" * 400,
    "9" * 4300, "9" * 4300 + " 3/2", "9" * 4300 + " 1/1", "9" * 4300 + " 1/2", "9" * 4300 + " 2/2", "9" * 4299 + " 3/2",
    "5 " + "9" * 4300 + "/1", "9" * 4300 + "/1", "9" * 4300 + "/2", "1/" + "9" * 4300, "9" * 4300 + "/9", "1 " + "9" * 4300 + "/3",
    "1" * 4301 + ".5 " + "1" * 4301, "1" * 4301 + " x " + "1" * 400 + ".5", "1" * 400 + ".5 x " + "1" * 4301,
    "1" * 400 + ".5 " + "9" * 4300 + " 3/2", "9" * 4300 + " 3/2 " + "1" * 400 + ".5",
    "0." + "0" * 300 + "1", "0." + "1" * 500, "123456789012345678901234567890", "0.1", "0.30000000000000004",
    "9007199254740993", "9007199254740993.", "9007199254740993.0", "1.7976931348623157e308",
    "4.35", "2.675", "1.005", "0.125", "1" * 17 + "." + "1" * 17,
]


# the project's `toDouble` models normal binary64 numbers only: a decimal below 2^-1022 (more than 307 zeros after
# the point) underflows in Python and not in the model.  Reported, not compared.
MODEL_LIMIT_SOURCES = ["0." + "0" * 400 + "1", "0." + "0" * 310 + "5"]


# ------------------------------------------------------------------ written and read back (Props/C13c print_parse_roundtrip)
from recipe_grid.scaled_value_string import ScaledValueString as SVS   # noqa: E402
from harness.rsexp import svs as svs_sexp                                # noqa: E402

RT_TEXT = list("abc xyz,.-/:;()%\t{}\\0123456789") + ["\n", "٣", "½", "é"]


def rand_value(rng):
    k = rng.random()
    if k < 0.4:
        return rng.choice([0, 1, 2, 3, 10, 12, 100, 250, 1000, rng.randint(0, 10 ** rng.randint(1, 25))])
    if k < 0.7:
        return Fraction(rng.randint(0, 400), rng.randint(1, 64))
    if k < 0.8:
        return Fraction(rng.randint(0, 10 ** 20), rng.randint(1, 10 ** 10))
    return rng.choice([0.0, 0.5, 2.5, 0.1, 1.0, 1e22, 123456.789, 5e-324 * 2 ** 60, rng.random() * 10 ** rng.randint(-5, 20),
                       float(rng.randint(0, 2 ** 60))])


def rand_svs(rng):
    parts = []
    for _ in range(rng.randint(0, 6)):
        if rng.random() < 0.45:
            parts.append(rand_value(rng))
        else:
            parts.append("".join(rng.choice(RT_TEXT) for _ in range(rng.randint(1, 5))))
    return SVS(parts)


def roundtrip_check(rng, n, dist, bad):
    cases = [rand_svs(rng) for _ in range(n)]
    cases += [SVS(x) for x in ([4], [" ", 4], [1, " cup"], [1, "/", 2], [1, "/", 0], [1, " ", 2], [1, " ", Fraction(2, 3)],
                                [1, "."], [1, 2], [Fraction(1, 2), "."], [2.5, "."], [Fraction(7, 1)], [Fraction(0, 1)],
                                ["{", 1, "}"], ["\\", 1], ["1", 1, "1"], [Fraction(22, 7), " \n", 0.1])]
    replies = ask(["(brace-print %s)" % svs_sexp(x) for x in cases])
    for x, (printed, sep_ok) in zip(cases, replies):
        text = "{" + printed + "}tail"
        m = SVE.pattern.match(text)
        whole = m is not None and m["source"] == printed and m.end() == len(printed) + 2
        try:
            back = SVE(m).string if m is not None else None
            raised = None
        except (ValueError, OverflowError) as ex:      # numbers of several hundred digits (see NOTES.md)
            back, raised = None, type(ex).__name__
        import math
        if back is not None and any(isinstance(p, float) and math.isinf(p) for p in back._string):
            back, raised = None, "infinite-float"     # a decimal beyond the float range reads as infinity (shown as 'inf' since the repair)
        same = back is not None and c_svs(back) == c_svs(x)
        dist["roundtrip/sepOK=%s/%s" % (sep_ok, "read-back" if same else (raised or "read-differently"))] += 1
        if raised is not None and len(printed) > 300:
            continue            # Props/C13c braceExpr_total covers sources of at most 300 characters
        if not whole:
            bad.append(("roundtrip-match", printed, real_match(text), "whole expression expected"))
        if sep_ok and not same:
            bad.append(("roundtrip-parts", printed, c_svs(back) if back is not None else None, c_svs(x)))


def main():
    quick = "--quick" in sys.argv or "--tiny" in sys.argv
    tiny = "--tiny" in sys.argv
    seed = 20260930
    if "--seed" in sys.argv:
        seed = int(sys.argv[sys.argv.index("--seed") + 1])
    rng = random.Random(seed)
    t0 = time.time()
    dist = Counter()

    match_inputs = {}   # text -> group
    parse_inputs = {}   # source -> group

    def add_match(text, group):
        match_inputs.setdefault(text, group)

    def add_parse(src, group):
        parse_inputs.setdefault(src, group)

    # 1. exhaustive short soups: every backtracking situation
    a1, n1 = "{}\\/. 01a", (4 if tiny else 5 if quick else 6)
    for s in soups(a1, n1):
        add_match("{" + s, "soup9")
        add_parse(s, "soup9")
    a2, n2 = "{}\\/1 ", (5 if tiny else 6 if quick else 7)
    for s in soups(a2, n2):
        add_match("{" + s, "soup6")
        add_parse(s, "soup6")
    a3, n3 = "}\\\n1a\t", (4 if tiny else 5 if quick else 6)
    for s in soups(a3, n3):
        add_match("{" + s, "soup-nl")
        add_parse(s, "soup-nl")
    a4, n4 = "{}\\", (8 if tiny else 10 if quick else 13)
    for s in soups(a4, n4):
        add_match("{" + s, "soup-esc")
    # texts that do not start with "{" (match is anchored)
    for s in ["", "a{1}", " {1}", "}", "\\{1}", "{", "{}", "{}}", "{{}}", "{{1}", "{1}{2}", "{1}}", "{1}\n", "{1\n}"]:
        add_match(s, "corner")

    # 2. structured sources
    nstruct = 600 if tiny else 1500 if quick else 6000
    for _ in range(nstruct):
        s = rand_source(rng)
        add_parse(s, "structured")
        add_match("{" + s + "}" + rng.choice(["", " x", "}", "{2}", "\\}"]), "structured")
        # the same, cut short / without the closing brace
        if len(s) > 2 and rng.random() < 0.3:
            cut = s[:rng.randint(1, len(s) - 1)]
            if sum(ch.isdigit() for ch in cut) <= 14:
                add_match("{" + cut, "structured-cut")
    for _ in range(nstruct // 3):
        s = printed_values(rng)
        add_parse(s, "printed")
        add_match("{" + s + "}", "printed")
    # 3. malformed stream
    for _ in range(nstruct):
        s = rand_malformed(rng)
        add_parse(s, "malformed")
        add_match("{" + s, "malformed")
        add_match(s, "malformed-raw")
    # 4. corner cases
    for s in CORNER_SOURCES:
        add_parse(s, "corner")
        add_match("{" + s + "}", "corner")
        add_match("{" + s, "corner")
        add_match("{" + s + "}}", "corner")
    for s in (LONG_SOURCES[-14:] if tiny else LONG_SOURCES):
        add_parse(s, "long")
        add_match("{" + s + "}", "long")

    for s, r in zip(MODEL_LIMIT_SOURCES, ask(["(brace-parse %s)" % sexp.s(s) for s in MODEL_LIMIT_SOURCES])):
        print("model limit (underflow below 2^-1022, not compared): source '0.' + %d more characters: real value is 0.0 or subnormal; "
              "model agrees: %s" % (len(s) - 2, real_parse(s) == model_parse(r)))

    bad = []
    # ---- match
    texts = list(match_inputs)
    print("match: %d distinct texts" % len(texts), flush=True)
    replies = ask(["(brace-match %s)" % sexp.s(t) for t in texts])
    for t, r in zip(texts, replies):
        real = real_match(t)
        mod = model_match(r)
        g = match_inputs[t]
        if real is None:
            kind = "no-match"
        else:
            src = real[0]
            # was the search needed?  (does the greedy reading of escapes find this closing brace)
            if greedy_end(t) == real[1]:
                kind = "match-greedy"
            elif src.endswith("\\"):
                kind = "match-search-trailing-backslash"
            else:
                kind = "match-search-reread-brace"
        dist["match/%s/%s" % (g, kind)] += 1
        if real != mod:
            bad.append(("match", t, real, mod))

    # ---- parse
    srcs = list(parse_inputs)
    print("parse: %d distinct sources" % len(srcs), flush=True)
    replies = ask(["(brace-parse %s)" % sexp.s(s) for s in srcs])
    for s, r in zip(srcs, replies):
        real = real_parse(s)
        mod = model_parse(r)
        g = parse_inputs[s]
        if isinstance(real, str):
            kind = real
        else:
            kinds = set()
            for p in real[1]:
                kinds.add("text" if p[0] == "t" else p[1][0])
            kind = "+".join(sorted(kinds)) or "empty"
        dist["parse/%s/%s" % (g, kind)] += 1
        if real != mod:
            bad.append(("parse", s, real, mod))

    # ---- written by the Lean `printBrace`, read by the real code
    roundtrip_check(rng, 300 if tiny else 1000 if quick else 5000, dist, bad)

    print("distribution:")
    for k in sorted(dist):
        print("  %-55s %d" % (k, dist[k]))
    print("compared: %d match, %d parse; disagreements: %d; %.1fs" % (len(texts), len(srcs), len(bad), time.time() - t0))
    sys.set_int_max_str_digits(0)
    for b in bad[:60]:
        kind, inp, real, mod = b
        print("DISAGREE %s input=%r\n   real =%s\n   model=%s" % (kind, inp[:200], str(real)[:300], str(mod)[:300]))
    sys.exit(1 if bad else 0)


if __name__ == "__main__":
    main()
