"""Seeded generators of recipe trees / multi-block recipes built with the real constructors."""
from fractions import Fraction

from recipe_grid.recipe import Ingredient, Step, Reference, SubRecipe, Quantity, Proportion, Recipe
from recipe_grid.scaled_value_string import ScaledValueString as SVS
from recipe_grid.units import UNIT_SYSTEM

WORDS = ["spam", "eggs", "flour", "fry", "chop", "mix well", "boil", "sauce", "Tom's", "a&b", "<b>", 'say "hi"', "x>y", "50%", "#1",
         "é", "naïve", "日本", "a b", "{x}", "back\\slash", "it's \"q\"", "  padded", "tail ", "UPPER", "ß", "İ"]
UNITS = list(UNIT_SYSTEM.iter_names())
FREE_UNITS = ["sack", "handful", "<big>", "Kg", "TSP", "Tea Spoon", "x&y", "glug"]
PREPS = ["", " of", " of the", " OF  the"]


def gen_number(rng, allow_float=True):
    k = rng.random()
    if k < 0.4:
        return rng.choice([1, 2, 3, 5, 10, 12, 100, 250, 1000, rng.randint(0, 10 ** rng.randint(1, 6))])
    if k < 0.7 or not allow_float:
        return Fraction(rng.randint(1, 60), rng.choice([2, 3, 4, 5, 6, 7, 8, 9, 12, 16, 100]))
    return rng.choice([0.5, 1.5, 2.25, 0.1, 0.3, 12.5, 1.0, 100.0, rng.randint(1, 10 ** 5) / 10 ** rng.randint(1, 4)])


def gen_svs(rng, nums=True):
    parts = []
    for _ in range(rng.choice([1, 1, 1, 2, 3])):
        if nums and rng.random() < 0.25:
            parts.append(gen_number(rng))
        else:
            parts.append(rng.choice(WORDS))
        if rng.random() < 0.5:
            parts.append(" ")
    s = SVS(parts)
    if not s._string:
        s = SVS(rng.choice(WORDS[:8]))
    return s


def gen_quantity(rng):
    k = rng.random()
    v = gen_number(rng)
    if k < 0.3:
        return Quantity(v, None, "", rng.choice(PREPS))
    if k < 0.75:
        u = rng.choice(UNITS)
        if rng.random() < 0.3:
            u = rng.choice([u.upper(), u.title()])
        return Quantity(v, u, rng.choice(["", " ", "  "]), rng.choice(PREPS))
    return Quantity(v, rng.choice(FREE_UNITS), rng.choice(["", " "]), rng.choice(PREPS))


def gen_amount(rng):
    k = rng.random()
    if k < 0.25:
        return Proportion(1.0)
    if k < 0.45:
        return gen_quantity(rng)
    if k < 0.6:
        return Proportion(None, remainder_wording=rng.choice(["remaining", "rest", "Left  over", "remainder"]), preposition=rng.choice(PREPS))
    v = rng.choice([Fraction(1, 2), Fraction(1, 3), 0.25, 0.5, Fraction(2, 3), 1, 1.0, 0.1])
    pct = rng.random() < 0.4
    prep = rng.choice(["%", " %", "% of the"]) if pct else rng.choice([" of", " *", "*", " of the"])
    return Proportion(v, pct, None, prep)


def gen_tree(rng, depth, subs, allow_sub=True, max_arity=4):
    """subs: earlier sub recipe roots that may be referenced"""
    k = rng.random()
    if depth <= 0 or k < 0.3:
        if subs and rng.random() < 0.3:
            sr = rng.choice(subs)
            return Reference(sr, rng.randrange(len(sr.output_names)), gen_amount(rng))
        return Ingredient(gen_svs(rng), gen_quantity(rng) if rng.random() < 0.6 else None)
    if allow_sub and k < 0.45:
        return SubRecipe(gen_tree(rng, depth - 1, subs, True, max_arity), (gen_svs(rng),), rng.random() < 0.7)
    n = rng.choice([1, 1, 2, 2, 3, max_arity])
    return Step(gen_svs(rng), tuple(gen_tree(rng, depth - 1, subs, allow_sub, max_arity) for _ in range(n)))


def gen_root(rng, depth, subs, max_arity=4):
    k = rng.random()
    body = gen_tree(rng, depth, subs, True, max_arity)
    if k < 0.2:
        return SubRecipe(body, tuple(gen_svs(rng) for _ in range(rng.randint(2, 4))))
    if k < 0.5 and not isinstance(body, SubRecipe):
        return SubRecipe(body, (gen_svs(rng),), rng.random() < 0.7)
    return body


def gen_blocks(rng, nblocks=None, depth=3):
    """a list of Recipe objects (each following the previous) with backward references"""
    subs = []
    recipes = []
    prev = None
    for _ in range(nblocks or rng.randint(1, 3)):
        trees = []
        for _ in range(rng.randint(1, 4)):
            t = gen_root(rng, rng.randint(0, depth), subs)
            trees.append(t)
            if isinstance(t, SubRecipe):
                subs.append(t)
        prev = Recipe(tuple(trees), prev)
        recipes.append(prev)
    return recipes


def count_nodes(t):
    if isinstance(t, Step):
        return 1 + sum(count_nodes(x) for x in t.inputs)
    if isinstance(t, SubRecipe):
        return 1 + count_nodes(t.sub_tree)
    return 1
