"""Seeded generators of recipe trees / multi-block recipes built with the real constructors."""
from fractions import Fraction

from recipe_grid.recipe import Ingredient, Step, Reference, SubRecipe, Quantity, Proportion, Recipe
from recipe_grid.scaled_value_string import ScaledValueString as SVS
from recipe_grid.units import UNIT_SYSTEM

WORDS = ["spam", "eggs", "flour", "fry", "chop", "mix well", "boil", "sauce", "Tom's", "a&b", "<b>", 'say "hi"', "x>y", "50%", "#1",
         "é", "naïve", "日本", "a b", "{x}", "back\\slash", "it's \"q\"", "  padded", "tail ", "UPPER", "ß", "İ"]
# text that reads as a character reference (with and without the semicolon): shown as written, never decoded
WORDS += ["180&deg;C", "salt &amp; pepper", "&lt;b&gt;", "&#65;", "oil&not butter", "AT&amp;T", "&amp;amp;", "&#x27;"]
UNITS = list(UNIT_SYSTEM.iter_names())
FREE_UNITS = ["sack", "handful", "<big>", "Kg", "TSP", "Tea Spoon", "x&y", "glug", "Jar", "Big Tin", "ladleS", "\u00c9clat"]
PREPS = ["", " of", " of the", " OF  the"]


def gen_number(rng, allow_float=True):
    k = rng.random()
    if k < 0.4:
        return rng.choice([1, 2, 3, 5, 10, 12, 100, 250, 1000, rng.randint(0, 10 ** rng.randint(1, 6))])
    if k < 0.7 or not allow_float:
        return Fraction(rng.randint(1, 60), rng.choice([2, 3, 4, 5, 6, 7, 8, 9, 12, 16, 100]))
    return rng.choice([0.5, 1.5, 2.25, 0.1, 0.3, 12.5, 1.0, 100.0, rng.randint(1, 10 ** 5) / 10 ** rng.randint(1, 4)])


def gen_svs(rng, nums=True):
    parts = []
    for _ in range(rng.choice([1, 1, 1, 2, 3])):
        if nums and rng.random() < 0.25:
            parts.append(gen_number(rng))
        else:
            parts.append(rng.choice(WORDS))
        if rng.random() < 0.5:
            parts.append(" ")
    s = SVS(parts)
    if not s._string:
        s = SVS(rng.choice(WORDS[:8]))
    return s


def gen_quantity(rng):
    k = rng.random()
    v = gen_number(rng)
    if k < 0.3:
        return Quantity(v, None, "", rng.choice(PREPS))
    if k < 0.75:
        u = rng.choice(UNITS)
        if rng.random() < 0.3:
            u = rng.choice([u.upper(), u.title()])
        return Quantity(v, u, rng.choice(["", " ", "  "]), rng.choice(PREPS))
    return Quantity(v, rng.choice(FREE_UNITS), rng.choice(["", " "]), rng.choice(PREPS))


def gen_amount(rng):
    k = rng.random()
    if k < 0.25:
        return Proportion(1.0)
    if k < 0.45:
        return gen_quantity(rng)
    if k < 0.6:
        return Proportion(None, remainder_wording=rng.choice(["remaining", "rest", "Left  over", "remainder"]), preposition=rng.choice(PREPS))
    v = rng.choice([Fraction(1, 2), Fraction(1, 3), 0.25, 0.5, Fraction(2, 3), 1, 1.0, 0.1])
    pct = rng.random() < 0.4
    prep = rng.choice(["%", " %", "% of the"]) if pct else rng.choice([" of", " *", "*", " of the"])
    return Proportion(v, pct, None, prep)


def gen_title(rng):
    """the name of a single-output sub recipe: now and then empty or blank (`'' := mix(a, b)` is legal source: a box with an empty title row)"""
    k = rng.random()
    if k < 0.04:
        return SVS("")
    if k < 0.07:
        return SVS(rng.choice([" ", "\t", "  "]))
    return gen_svs(rng)


def gen_tree(rng, depth, subs, allow_sub=True, max_arity=4):
    """subs: earlier sub recipe roots that may be referenced"""
    k = rng.random()
    if depth <= 0 or k < 0.3:
        if subs and rng.random() < 0.3:
            sr = rng.choice(subs)
            return Reference(sr, rng.randrange(len(sr.output_names)), gen_amount(rng))
        return Ingredient(gen_svs(rng), gen_quantity(rng) if rng.random() < 0.6 else None)
    if allow_sub and k < 0.45:
        return SubRecipe(gen_tree(rng, depth - 1, subs, True, max_arity), (gen_title(rng),), rng.random() < 0.7)
    n = rng.choice([1, 1, 2, 2, 3, max_arity])
    return Step(gen_svs(rng), tuple(gen_tree(rng, depth - 1, subs, allow_sub, max_arity) for _ in range(n)))


def gen_root(rng, depth, subs, max_arity=4):
    k = rng.random()
    body = gen_tree(rng, depth, subs, True, max_arity)
    if k < 0.2:
        # (the flag that hides a single name has no meaning for a list of outputs: the list is drawn whatever it says)
        return SubRecipe(body, tuple(gen_svs(rng) for _ in range(rng.randint(2, 4))), rng.random() < 0.6)
    if k < 0.5 and not isinstance(body, SubRecipe):
        return SubRecipe(body, (gen_title(rng),), rng.random() < 0.7)
    return body


def gen_blocks(rng, nblocks=None, depth=3):
    """a list of Recipe objects (each following the previous) with backward references"""
    subs = []
    recipes = []
    prev = None
    for _ in range(nblocks or rng.randint(1, 3)):
        trees = []
        for _ in range(rng.randint(1, 4)):
            t = gen_root(rng, rng.randint(0, depth), subs)
            trees.append(t)
            if isinstance(t, SubRecipe):
                subs.append(t)
        prev = Recipe(tuple(trees), prev)
        recipes.append(prev)
    return recipes


def count_nodes(t):
    if isinstance(t, Step):
        return 1 + sum(count_nodes(x) for x in t.inputs)
    if isinstance(t, SubRecipe):
        return 1 + count_nodes(t.sub_tree)
    return 1


# ---- "twins": values that Python's == (and hash) cannot tell apart but that are written, and must be drawn, differently.
# Rendering one right after the other in one process exposes anything keyed on value equality (memoisation, dict lookups).

def twin_number(x):
    if isinstance(x, bool):
        return x
    if isinstance(x, Fraction):
        d = x.denominator
        if d > 1 and d & (d - 1) == 0 and d <= 64 and abs(x.numerator) < 2 ** 40:
            return float(x)
        return x
    if isinstance(x, float):
        f = Fraction(x)
        if f.denominator in (2, 4, 8, 16) and abs(f.numerator) < 2 ** 30:
            return f
        return x
    return x


def twin_unit(u):
    if u is None:
        return None
    if UNIT_SYSTEM.has_unit(u) if hasattr(UNIT_SYSTEM, "has_unit") else (u.lower() in set(UNITS)):
        return u.upper() if u != u.upper() else u.lower()
    return u


def twin_svs(s, units=False):
    return SVS([twin_number(p) if not isinstance(p, str) else p for p in s._string])


def twin_amount(a, units):
    import dataclasses
    if isinstance(a, Quantity):
        return dataclasses.replace(a, value=twin_number(a.value), unit=twin_unit(a.unit) if units else a.unit)
    if isinstance(a, Proportion) and a.value is not None:
        return dataclasses.replace(a, value=twin_number(a.value))
    return a


def twin(t, units=False, memo=None):
    """the same tree with every dyadic Fraction written as the equal float (and back) and, with units=True, every known unit in the
    other letter case; shared sub recipes stay shared"""
    memo = {} if memo is None else memo
    if id(t) in memo:
        return memo[id(t)]
    if isinstance(t, Ingredient):
        r = Ingredient(twin_svs(t.description), twin_amount(t.quantity, units) if t.quantity is not None else None)
    elif isinstance(t, Reference):
        r = Reference(twin(t.sub_recipe, units, memo), t.output_index, twin_amount(t.amount, units))
    elif isinstance(t, Step):
        r = Step(twin_svs(t.description), tuple(twin(x, units, memo) for x in t.inputs))
    else:
        r = SubRecipe(twin(t.sub_tree, units, memo), tuple(twin_svs(n) for n in t.output_names), t.show_output_names)
    memo[id(t)] = r
    return r


def with_twins(rng, cases, every=6):
    """cases: list of trees or of tuples whose first element is a tree; after about one case in `every` its twin(s) follow"""
    out = []
    for c in cases:
        out.append(c)
        if rng.random() < 1.0 / every:
            t = c[0] if isinstance(c, tuple) else c
            for units in ((False, True) if rng.random() < 0.5 else (True,)):
                tw = twin(t, units)
                out.append(((tw,) + tuple(c[1:])) if isinstance(c, tuple) else tw)
    return out
