"""Correspondence between `recipe_grid.parser.parse` and the Lean model `RG.parse`
(lean/RecipeGrid/Model/Parser.lean), request `(parse (s <code points>))` of the driver.

The real AST (offsets included) and the model's AST are both printed as the same S-expression;
a case agrees when the two texts parse to equal trees.

    python -m harness.parser_corr [--seed N] [--soup N] [--structured N] [--mutated N] [--driver PATH]
"""
import argparse
import importlib
import os
import random
import subprocess
import sys
from collections import Counter
from fractions import Fraction

try:
    from . import sexp
except ImportError:  # run as a plain script
    sys.path.insert(0, os.path.dirname(os.path.abspath(__file__)))
    sys.path.insert(0, "/verif/harness")
    import sexp

from peggie import ParseError
from recipe_grid.parser import parse as _real_parse, ast
from recipe_grid.units import UNIT_SYSTEM

DEFAULT_DRIVER = os.path.join(
    os.path.dirname(os.path.dirname(os.path.abspath(__file__))), "lean", ".lake", "build", "bin", "driver"
)
UNITS = list(UNIT_SYSTEM.iter_names())

# ------------------------------------------------------------------ real AST -> S-expression


def string_to_sexp(st):
    def sub(x):
        if isinstance(x, ast.Substring):
            return sexp.tag("sub", str(x.offset), sexp.s(x.string))
        return sexp.tag("num", str(x.offset), sexp.num(x.number))

    return sexp.lst(sub, st.substrings)


def amount_to_sexp(a):
    if isinstance(a, ast.Quantity):
        return sexp.tag(
            "qty",
            str(a.offset),
            sexp.num(a.value),
            sexp.opt(string_to_sexp, a.unit),
            sexp.s(a.value_unit_spacing),
            sexp.s(a.preposition),
        )
    return sexp.tag(
        "prop",
        str(a.offset),
        sexp.opt(sexp.num, a.value),
        sexp.b(a.percentage),
        sexp.opt(sexp.s, a.remainder_wording),
        sexp.s(a.preposition),
    )


def expr_to_sexp(e):
    if isinstance(e, ast.Step):
        return sexp.tag("step", string_to_sexp(e.name), sexp.lst(expr_to_sexp, e.inputs))
    return sexp.tag("ref", string_to_sexp(e.name), sexp.opt(amount_to_sexp, e.quantity_or_proportion))


def stmt_to_sexp(st):
    return sexp.tag(
        "stmt",
        expr_to_sexp(st.expr),
        sexp.opt(lambda outs: sexp.lst(string_to_sexp, outs), st.outputs),
        sexp.b(st.named),
    )


def ast_to_sexp(recipe_ast):
    return sexp.tag("ok", sexp.lst(stmt_to_sexp, recipe_ast.stmts))


def real_parse(text):
    try:
        return ast_to_sexp(_real_parse(text))
    except ParseError:
        return "syntax"
    except ZeroDivisionError:
        return "zerodiv"
    except RecursionError:
        return "recursion"
    except OverflowError:
        # integer literal of 309+ digits (`int(float(text))` of inf), or an infinite float that the
        # S-expression cannot carry: outside the model's number range (see Model/Num.lean)
        return "overflow"


# ------------------------------------------------------------------ generators

WORDS = ["spam", "eggs", "x", "fry", "chop", "a.b", "-", "of", "OF", "Of", "the", "THE", "of the",
         "of  the", "of\tThe", "often", "ofthe", "theory", "rest", "Rest", "REST", "restful",
         "remaining", "Remaining", "remainder", "remain", "remaining2", "left over", "leftover",
         "Left \t Over", "left", "over", "leftovers"]
NUMBERS = ["2", "0", "007", "1/2", "1 1/2", "3 / 4", "1 /2", "1/ 2", "2/4", "4/2", "1 2", "0.5", "3.",
           "1.50", "0.10", ".5", "1/0", "2 0/0", "0/5", "100", "9007199254740993",
           "123456789012345678901234567890", "0.1234567890123456789", "1e3", "1.2.3", "1//2", "1/2/3"]
PUNCT = ["%", "*", "(", ")", ",", "=", ":=", ":", "{", "}", "'", '"', "\\", "/", "\\'", "\\n", "\\\\"]
SPACES = [" ", " ", " ", "  ", "\t", "\n", "\r\n", "\r", " \n ", "\x0b", "\x0c", "\x1c", "\x85", "\u2028"]
UNICODE = ["\xe9", "\xa0", "\u212a", "\u017f", "\u0663", "\u0130", "\u0131", "\xb2", "_", "\xdf", "\u3000", "\u200b"]
CHUNKS = ["'a b'", '"c"', "{2 eggs}", "{3}", "{1/2 x}", "{}", "{a1}", "''", "{1 1/2}", "{1/0}",
          "{2 'big' sacks}", "{ 2  kg }", "{2kg} of", "{\\{}", "'\\''"]


def rand_case(rng, w):
    k = rng.random()
    if k < 0.4:
        return w
    if k < 0.6:
        return w.upper()
    if k < 0.75:
        return w.capitalize()
    return "".join(c.upper() if rng.random() < 0.5 else c for c in w)


def fold_unicode(rng, w):
    """replace letters by the non-ASCII characters that `(?i)` folds onto them"""
    table = {"k": "\u212a", "s": "\u017f", "i": rng.choice("\u0130\u0131"), "K": "\u212a", "S": "\u017f"}
    return "".join(table[c] if c in table and rng.random() < 0.5 else c for c in w)


def rand_unit(rng):
    u = rand_case(rng, rng.choice(UNITS))
    if " " in u:
        u = u.replace(" ", rng.choice([" ", "  ", "\t", "\n", " \t ", "\xa0", "\u2003"]))
    if rng.random() < 0.08:
        u = fold_unicode(rng, u)
    if rng.random() < 0.08:
        u += rng.choice(["s", "x", "2", "_", "\xe9", "\u0663", "\xb2", "-", "."])
    return u


def gen_soup(rng):
    """random token soup over the grammar's alphabet"""
    n = rng.randint(1, 14)
    out = []
    for _ in range(n):
        k = rng.random()
        if k < 0.22:
            tok = rng.choice(WORDS)
        elif k < 0.40:
            tok = rng.choice(NUMBERS)
        elif k < 0.52:
            tok = rand_unit(rng)
        elif k < 0.72:
            tok = rng.choice(PUNCT)
        elif k < 0.82:
            tok = rng.choice(SPACES)
        elif k < 0.90:
            tok = rng.choice(CHUNKS)
        else:
            tok = rng.choice(UNICODE)
        out.append(tok + rng.choice(["", "", " "]))
    return "".join(out)


# --- structured: print random ASTs with random permitted spellings


def _hsp(rng, optional=True):
    return rng.choice(["", " ", "\t", "  "] if optional else [" ", "\t", "  ", " \t"])


def _sp(rng):
    return rng.choice(["", "", " ", "\n", "\n  ", " \n\t", "\r\n"])


def rand_number(rng):
    k = rng.random()
    if k < 0.30:
        return str(rng.choice([0, 1, 2, 3, 10, 100, 250, 1000, rng.randint(0, 99999)]))
    if k < 0.35:
        return "0" * rng.randint(1, 2) + str(rng.randint(0, 99))
    if k < 0.55:
        return "%d.%s" % (rng.randint(0, 300), rng.choice(["", "0", "5", "25", "10", "333", "1415926535897932384626"]))
    if k < 0.58:
        return str(rng.choice([2 ** 53, 2 ** 53 + 1, 2 ** 53 + 3, 10 ** 22, 10 ** 23, 2 ** 64 + 1, 12345678901234567890123]))
    numer, denom = rng.randint(0, 12), rng.choice([1, 2, 3, 4, 8, 10, 16, 100, rng.randint(1, 50)])
    if rng.random() < 0.03:
        denom = rng.choice([0, "00"])
    s = "%s%s/%s%s" % (numer, _hsp(rng) if rng.random() < 0.2 else "", _hsp(rng) if rng.random() < 0.2 else "", denom)
    if rng.random() < 0.3:
        s = "%d%s%s" % (rng.randint(0, 20), _hsp(rng, optional=False), s)
    return s


def rand_escape(rng):
    return "\\" + rng.choice(["\\", "'", '"', "n", "t", "a", "b", "f", "r", "v", "?", "{", "}", "x", " ", "\xe9", "1"])


def rand_text(rng, forbidden):
    n = rng.randint(0, 6)
    out = []
    for _ in range(n):
        k = rng.random()
        if k < 0.6:
            c = rng.choice("abcxyz ,:=/()-.%*")
        elif k < 0.75:
            c = rng.choice("'\"{}0123456789")
        elif k < 0.9:
            c = rand_escape(rng)
        else:
            c = rng.choice(UNICODE + ["\t"])
        if c in forbidden:
            c = "\\" + c
        out.append(c)
    return "".join(out)


def rand_string_part(rng, static=False):
    k = rng.random()
    if k < 0.5:
        w = rng.choice(["a", "b", "spam", "eggs", "fry", "chop", "salt", "\xe9 \xfc", "big sack", "x-y", "no.1",
                        "rest", "of", "1st", "g", "%", "*", "a\xa0b", "a\x0bb", "2x", "x2"])
        return w
    if k < 0.65:
        return "'" + rand_text(rng, "'") + "'"
    if k < 0.8:
        return '"' + rand_text(rng, '"') + '"'
    if static:
        return rng.choice(["handful", "'big' sacks", "lumps"])
    out = ["{"]
    for _ in range(rng.randint(0, 4)):
        r = rng.random()
        if r < 0.4:
            out.append(rand_number(rng))
        elif r < 0.5:
            out.append(rand_escape(rng))
        else:
            out.append(rng.choice(["a", "b ", " x", " ", "'", '"', ",", "(", "=", "\xe9", "/", " of ", "g"]))
    out.append("}")
    return "".join(out)


def rand_string(rng, static=False):
    parts = [rand_string_part(rng, static) for _ in range(rng.choice([1, 1, 1, 2, 3]))]
    out = parts[0]
    for p in parts[1:]:
        out += rng.choice([" ", " ", "", "  ", "\t"]) + p
    return out


def rand_preposition(rng):
    return rng.choice(["of", "of", "of the", "OF", "Of The", "of  the", "of\tthe", "of THE", "ofthe", "of them", "o\u017f"])


def rand_amount(rng):
    k = rng.random()
    if k < 0.18:
        return ""
    if k < 0.30:
        return rand_number(rng) + _hsp(rng)
    if k < 0.55:  # implicit quantity with unit
        s = rand_number(rng) + _hsp(rng) + rand_unit(rng)
        if rng.random() < 0.4:
            s += _hsp(rng, optional=False) + rand_preposition(rng)
        return s + _hsp(rng, optional=rng.random() < 0.1)
    if k < 0.70:  # explicit quantity
        s = "{" + _hsp(rng) + rand_number(rng)
        if rng.random() < 0.7:
            s += _hsp(rng) + rand_string(rng, static=True)
        s += _hsp(rng) + "}"
        if rng.random() < 0.4:
            s += _hsp(rng, optional=False) + rand_preposition(rng)
        return s + _hsp(rng)
    if k < 0.80:  # remainder
        s = rand_case(rng, rng.choice(["remaining", "remainder", "rest", "left over", "leftover", "left \t over"]))
        if rng.random() < 0.05:
            s = fold_unicode(rng, s)
        if rng.random() < 0.5:
            s += _hsp(rng, optional=False) + rand_preposition(rng)
        return s + _hsp(rng, optional=rng.random() < 0.1)
    s = rand_number(rng)
    r = rng.random()
    if r < 0.4:
        s += _hsp(rng, optional=False) + rand_preposition(rng)
    elif r < 0.8:
        s += _hsp(rng) + "%"
        if rng.random() < 0.4:
            s += _hsp(rng, optional=False) + rand_preposition(rng)
    else:
        s += _hsp(rng) + "*"
    return s + _hsp(rng, optional=rng.random() < 0.3)


def rand_expr(rng, depth):
    r = rng.random()
    if depth <= 0 or r < 0.4:
        return rand_amount(rng) + rand_string(rng)
    if r < 0.5:
        return "(" + _sp(rng) + rand_ltr(rng, depth - 1) + _sp(rng) + ")"
    inputs = [rand_expr(rng, depth - 1) for _ in range(rng.randint(1, 3))]
    return (
        rand_string(rng) + _hsp(rng) + "(" + _sp(rng)
        + (_sp(rng) + "," + _sp(rng)).join(inputs)
        + rng.choice(["", "", _sp(rng) + ","]) + _sp(rng) + ")"
    )


def rand_ltr(rng, depth):
    s = rand_expr(rng, depth)
    for _ in range(rng.choice([0, 0, 1, 2])):
        s += _hsp(rng) + "," + _hsp(rng) + rand_string(rng)
    return s


def rand_stmt(rng):
    s = ""
    if rng.random() < 0.4:
        outs = [rand_string(rng) for _ in range(rng.choice([1, 1, 2, 3]))]
        s = (_hsp(rng) + "," + _hsp(rng)).join(outs) + _hsp(rng) + rng.choice(["=", ":="]) + _hsp(rng)
    return s + rand_ltr(rng, rng.randint(0, 3))


def gen_structured(rng):
    """a (mostly) valid program printed from a random AST with random permitted spellings"""
    stmts = [rand_stmt(rng) for _ in range(rng.randint(1, 4))]
    return (
        rng.choice(["", "", " ", "\n\n", "\t\n"])
        + rng.choice(["\n", "\n", " \n \n", "\r\n", "\t\n\n  "]).join(stmts)
        + rng.choice(["", "", "\n", "  ", "\n\n ", "\t"])
    )


MUTATION_CHARS = "(){},=:'\"\\/ %*\n\t1a0.\u212a\u017f\xc9\xa0"
MUTATION_TOKENS = ["of", " of the ", "rest", "remaining ", " g", "kg", " tea spoon", "1/2", " 1 ", "1/0", ":=", "{1}", "{", "}",
                   "(", ")", ", ", "\n", "'", "%", " *"]


def _token_spans(text):
    spans, i = [], 0
    while i < len(text):
        j = i + 1
        if text[i].isalnum():
            while j < len(text) and text[j].isalnum():
                j += 1
        elif text[i].isspace():
            while j < len(text) and text[j].isspace():
                j += 1
        spans.append((i, j))
        i = j
    return spans


def mutate(rng, text):
    """one edit: delete / insert / duplicate / swap of a character or a token"""
    if not text:
        return rng.choice(MUTATION_CHARS)
    k = rng.random()
    if k < 0.55:  # character level
        i = rng.randrange(len(text))
        k = rng.random()
        if k < 0.3:
            return text[:i] + text[i + 1:]
        if k < 0.6:
            return text[:i] + rng.choice(MUTATION_CHARS) + text[i:]
        if k < 0.8:
            return text[:i] + text[i] + text[i:]
        j = rng.randrange(len(text))
        a, b = min(i, j), max(i, j)
        return text if a == b else text[:a] + text[b] + text[a + 1:b] + text[a] + text[b + 1:]
    spans = _token_spans(text)
    i = rng.randrange(len(spans))
    (a, b) = spans[i]
    k = rng.random()
    if k < 0.3:
        return text[:a] + text[b:]
    if k < 0.6:
        return text[:a] + rng.choice(MUTATION_TOKENS) + text[a:]
    if k < 0.8:
        return text[:a] + text[a:b] + text[a:]
    j = rng.randrange(len(spans))
    if i == j:
        return text
    (a, b), (c, d) = sorted([spans[i], spans[j]])
    return text[:a] + text[c:d] + text[b:c] + text[a:b] + text[d:]


def gen_mutated(rng):
    text = gen_structured(rng)
    for _ in range(rng.choice([1, 1, 1, 2, 3])):
        text = mutate(rng, text)
    return text


# hand-picked inputs around the regex / PEG subtleties (word boundaries, backtracking, committed
# optionals, Unicode case folding and spaces, escapes at the end of input)
EDGE_CASES = [
    "remainder x", "remaining x", "remainders x", "remain x", "restx", "rest", "rest of", "rest of x",
    "rest of thex", "rest of the", "rest of the x", "rest  of\tthe x", "REST OF THE x", "re\u017ft x",
    "rest\u00e9 x", "rest_ x", "rest-x", "rest.x", "rest, x", "rest(x)", "left over x", "leftover x",
    "left \t over x", "left overx", "left\nover x", "left\xa0over x", "1 of the x", "1 of thex", "1 ofx",
    "1 of", "1 of x", "1 of the", "1 of  the  x", "1 of\tthe\tx", "1 o\u017f x", "1 OF THE x",
    "2 tea\nspoon x", "2 tea spoonx", "2 tea spoons x", "2 tea  \t spoon x", "2 tea\xa0spoon x",
    "2 tea\u2003spoons of x", "2 teaspoon x", "2 teaspoons x", "2 teaspoonsx", "2 gx", "2 g_ x",
    "2 g\u00e9 x", "2 g\u0663 x", "2 g\u00b2 x", "2 g- x", "2 g. x", "2 g", "2 g ", "2g", "2 kg x",
    "2 \u212ag x", "2 \u212aG x", "2 lb\u017f x", "2 p\u0130nt x", "2 p\u0131nt x", "2 PINT x",
    "2 litre x", "2 l x", "2 lx", "2 boxen x", "2 boxes x", "2 box x", "2 boxe x", "2 mills x",
    "2 milliliters of the x", "1 1/2 x", "1 /2 x", "1/ 2 x", "1 / 2 x", "1 1 /2 x", "1 1/ 2 x", "1 1 x",
    "1 1 1/2 x", "1\t1/2 x", "1  1/2 x", "1/2/3 x", "1//2 x", "1/x", "/2 x", "{1 1/2}", "{1 1/2} x",
    "1.x", "1. x", "1.5.5 x", ".5 x", "1.50 x", "01 x", "00.10 x", "1/0 x", "0/0 x", "1 0/0 x",
    "{1/0} x", "x {1/0}", "{a 1/0 b}", "{1/0 g} x", "1/0", "1/0 %x", "1/0 x(", "{1 '}(1/0 x, {'} y",
    "{1 '}(1/0 x, {'} y)", "a = {1/0", "9007199254740993 x", "9007199254740992 x", "9007199254740993. x",
    "{9007199254740993}", "50%x", "50 % x", "50% of x", "50% ofx", "50 %of x", "50% of the x", "50%",
    "50 x%", "1/2% x", "1 1/2 % x", "0.5% x", "1*x", "1 * x", "1 *", "1 ** x", "1/2 * x", "0.5* x",
    "{1}x", "{1} x", "{1 g}x", "{1g}", "{1g} x", "{1 g} of x", "{1 g}of x", "{1 g} of the x",
    "{ 1 'a' \"b\" c } x", "{1 {2}} x", "{1}{2}", "{1} {2}", "{a}(b)", "{1}(b)", "{1 g}(b)", "{1 a{2}} x",
    "{ 1 }", "{ 1 } x", "{\t1\tg\t}\tx", "{1\ng} x", "{1 g\n} x", "{}", "{} x", "{}{}", "{{}}", "{a{b}",
    "x\\", "'a\\", "'\\", "'\\'", "'\\''", "{\\", "{\\}", "{\\}}", "\"\\\n\"", "'a\nb'", "{a\nb}",
    "'\\\n'", "'a' 'b'", "'a''b'", "'a'b", "a'b'", "a 'b", "a\"b\"c", "a{1}b", "a {1} b", "a\t{1}",
    "a\x0bb", "a \x0b b", "a\xa0", "\xa0a", "a\x85", "a\x85b", "a\u2028b", "a\u3000", "\u3000a",
    "a\x1cb", "a\x1c", "\x0ca", "a\u200bb", "a\u200b", "a=b", "a:=b", "a : = b", "a:b", "=b", "a=",
    "a = b = c", "a, b = c", "a ,b:= c", "a, = c", "a b, c d = e f, g", "a =\nb", "a\n= b", "a = (b)",
    "(a)", "((a))", "((a), b)", "(a, b), c", "(a, b, c)", "( a , b )", "(\na\n)", "(a\n, b)", "(a,\nb)",
    "a(b,)", "a(b,,)", "a(,)", "a()", "a (b)", "a\n(b)", "a(b)\n", "a(\nb\n,\nc\n,\n)", "a(b)c",
    "a(b) c", "a(b), c", "a(b, c), d, e", "a((b))", "a((b, c))", "a((b), c)", "a(b c(d))", "a(1 g b(c))",
    "1 g a(b)", "1 g (a)", "rest (a)", "1", "1 x", "1x", "1gx", "1g x", "1 tin x", "1 tins x", "1 tinsx",
    "x\ny", "x\r\ny", "x\ry", "x \n y", "x\n\n\ny\n", "x\x0by", "x\n\x0b\ny", "x \x0b", "x\n\xa0",
    "\xa0x", "\nx", " x", "\tx ", "", " ", "\n", "x\t\n\t", "x,", "x, ", ",x", "x,,y", "x , y , z",
]


# one-edit neighbourhoods of descriptions that show every construct of the grammar: at every token boundary the white space is removed,
# made horizontal, made a line break; every word is rewritten as every other kind of string part; every grammar token is inserted.
# (A grammar rule that is relaxed or tightened by one token changes the outcome of one of these.)
SHOWCASE = [
    "a, b c := fry(1 kg of the x, {2 large tins} of y, 1/2 of z,), chop, 'fine'",
    "sauce = boil(rest of the stock, 50 % of wine, 2 * cream, remaining butter)",
    "{1 big jar} of jam, spread",
    "(1 1/2 tea spoons salt, grind), sieve",
    "x {3} y = mix({2} eggs, 'a' \"b\" c)",
    "left over pastry, roll\n2 eggs, beat",
    "p, q = split(1 l milk)",
]
SUBSTITUTES = ["w", "'w'", '"w"', "{w}", "{}", "{3}", "{w {3}}", "3", "1/2", "of", "the", "g", "rest", "%", "*"]


def neighbourhood(text):
    out = []
    spans = _token_spans(text)
    for (a, b) in spans:
        tok = text[a:b]
        if tok.isspace():
            for rep in ("", " ", "\t", "\n", " \n ", "\r\n"):
                if rep != tok:
                    out.append(text[:a] + rep + text[b:])
        else:
            for ws in (" ", "\n"):
                if a > 0 and not text[a - 1].isspace():
                    out.append(text[:a] + ws + text[a:])
            if tok.isalnum():
                for rep in SUBSTITUTES:
                    out.append(text[:a] + rep + text[b:])
                for rep in SUBSTITUTES[1:8]:
                    out.append(text[:a] + tok + " " + rep + text[b:])
            else:
                out.append(text[:a] + text[b:])
                out.append(text[:a] + tok + tok + text[b:])
        for t in ("{", "}", "(", ")", ",", "="):
            out.append(text[:a] + t + text[a:])
    return out


def neighbours():
    seen, out = set(), []
    for s_ in SHOWCASE:
        for t in neighbourhood(s_):
            if t not in seen:
                seen.add(t)
                out.append(t)
    return out


# ------------------------------------------------------------------ comparison


SKIPPED = ("recursion", "overflow")


def model_parse_all(texts, driver_path=DEFAULT_DRIVER):
    """replies (text) of the Lean driver to `(parse ..)` for every input, in one run"""
    requests = "".join(sexp.tag("parse", sexp.s(t)) + "\n" for t in texts)
    run = subprocess.run([str(driver_path)], input=requests.encode("ascii"), stdout=subprocess.PIPE, check=True)
    replies = run.stdout.decode("ascii").splitlines()
    if len(replies) != len(texts):
        raise RuntimeError("driver returned %d replies for %d requests" % (len(replies), len(texts)))
    return replies


def compare(texts, driver_path=DEFAULT_DRIVER, stats=None):
    """list of (text, real, model) on which real parser and model disagree"""
    texts = list(texts)
    reals = [real_parse(t) for t in texts]
    keep = [i for i, r in enumerate(reals) if r not in SKIPPED]
    replies = model_parse_all([texts[i] for i in keep], driver_path)
    bad = []
    if stats is not None:
        for r in reals:
            if r in SKIPPED:
                stats[r] += 1
    for i, reply in zip(keep, replies):
        real = reals[i]
        if stats is not None:
            stats["ok" if real.startswith("(ok") else real] += 1
        if sexp.parse(real) != sexp.parse(reply):
            bad.append((texts[i], real, reply))
    return bad


def test_suite_cases():
    """the sources of the valid and invalid cases of /repo/tests/parser/test_grammar.py"""
    repo = os.environ.get("RECIPE_GRID_REPO", "/repo")
    sys.path.insert(0, os.path.join(repo, "tests", "parser"))
    try:
        mod = importlib.import_module("test_grammar")
    finally:
        sys.path.pop(0)

    def sources(fn):
        return [case[0] if isinstance(case, tuple) else case.values[0] for case in fn.pytestmark[0].args[1]]

    decimals = ["''{%s}" % n for n in sources(mod.test_decimal_values_become_correct_types)]
    return sources(mod.test_valid_cases), sources(mod.test_invalid_cases), decimals


def main(argv=None):
    ap = argparse.ArgumentParser()
    ap.add_argument("--seed", type=int, default=0)
    ap.add_argument("--soup", type=int, default=30000)
    ap.add_argument("--structured", type=int, default=10000)
    ap.add_argument("--mutated", type=int, default=10000)
    ap.add_argument("--driver", default=DEFAULT_DRIVER)
    ap.add_argument("--show", type=int, default=10)
    args = ap.parse_args(argv)
    sys.setrecursionlimit(1000)
    rng = random.Random(args.seed)
    total_bad = 0

    def run(name, texts):
        nonlocal total_bad
        stats = Counter()
        bad = compare(texts, args.driver, stats)
        total_bad += len(bad)
        print("%-12s n=%d ok=%d syntax=%d zerodiv=%d skipped(recursion=%d overflow=%d) disagreements=%d"
              % (name, len(texts), stats["ok"], stats["syntax"], stats["zerodiv"], stats["recursion"], stats["overflow"], len(bad)))
        for text, real, model in bad[: args.show]:
            print("  DISAGREE %r\n    real  %s\n    model %s" % (text, real, model))

    valid, invalid, decimals = test_suite_cases()
    run("tests-valid", valid)
    run("tests-invalid", invalid)
    run("tests-decimal", decimals)
    run("edge-cases", EDGE_CASES)
    run("soup", [gen_soup(rng) for _ in range(args.soup)])
    run("structured", [gen_structured(rng) for _ in range(args.structured)])
    run("mutated", [gen_mutated(rng) for _ in range(args.mutated)])
    print("TOTAL disagreements: %d" % total_bad)
    return 1 if total_bad else 0


if __name__ == "__main__":
    sys.exit(main())
