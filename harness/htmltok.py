"""HTML tokenisation used by the C04/C09/C10 gates and oracles (html.parser based)."""
from html.parser import HTMLParser


class Tok(HTMLParser):
    def __init__(self):
        super().__init__(convert_charrefs=True)
        self.toks = []

    def handle_starttag(self, tag, attrs):
        self.toks.append(("open", tag, tuple(attrs)))

    def handle_startendtag(self, tag, attrs):
        self.toks.append(("open", tag, tuple(attrs)))
        self.toks.append(("close", tag))

    def handle_endtag(self, tag):
        self.toks.append(("close", tag))

    def handle_data(self, data):
        if self.toks and self.toks[-1][0] == "text":
            self.toks[-1] = ("text", self.toks[-1][1] + data)
        else:
            self.toks.append(("text", data))

    def handle_comment(self, data):
        self.toks.append(("comment", data))

    def handle_decl(self, decl):
        self.toks.append(("decl", decl))

    def handle_pi(self, data):
        self.toks.append(("pi", data))


def tokens(html):
    p = Tok()
    p.feed(html)
    p.close()
    return p.toks


def gate_tokens(html):
    """token stream modulo indentation: whitespace-only text dropped, text stripped at both ends"""
    out = []
    for t in tokens(html):
        if t[0] == "text":
            s = t[1].strip(" \n")
            if s == "":
                continue
            out.append(("text", s))
        else:
            out.append(t)
    return out


class Node:
    def __init__(self, tag, attrs, parent):
        self.tag, self.attrs, self.parent = tag, dict(attrs), parent
        self.attr_list = list(attrs)
        self.children = []   # Node or str

    def text(self, skip=lambda n: False):
        out = []
        for c in self.children:
            if isinstance(c, str):
                out.append(c)
            elif not skip(c):
                out.append(c.text(skip))
        return "".join(out)

    def iter(self):
        yield self
        for c in self.children:
            if isinstance(c, Node):
                yield from c.iter()

    def classes(self):
        return (self.attrs.get("class") or "").split()


VOID = {"br", "img", "hr", "meta", "link", "input"}


def tree(html):
    root = Node("#root", [], None)
    cur = root
    problems = []
    for t in tokens(html):
        if t[0] == "open":
            n = Node(t[1], t[2], cur)
            cur.children.append(n)
            if t[1] not in VOID:
                cur = n
        elif t[0] == "close":
            if t[1] in VOID:
                continue
            if cur.tag != t[1]:
                problems.append("mismatched </%s> inside <%s>" % (t[1], cur.tag))
                # recover: pop to matching ancestor if any
                a = cur
                while a is not None and a.tag != t[1]:
                    a = a.parent
                if a is not None and a.parent is not None:
                    cur = a.parent
            else:
                cur = cur.parent
        elif t[0] == "text":
            cur.children.append(t[1])
    if cur is not root:
        problems.append("unclosed <%s>" % cur.tag)
    return root, problems


def place(rows):
    """WHATWG 'forming a table' for td cells with spans. rows: list of list of (rowspan, colspan)."""
    occ = {}
    out = []
    for y, row in enumerate(rows):
        x = 0
        for i, (rs, cs) in enumerate(row):
            while (y, x) in occ:
                x += 1
            out.append((y, x, rs, cs))
            for dy in range(rs):
                for dx in range(cs):
                    if (y + dy, x + dx) in occ:
                        return None, "overlap at %d,%d" % (y + dy, x + dx)
                    occ[(y + dy, x + dx)] = (y, i)
            x += cs
    if not occ:
        return None, "empty"
    h = max(y for y, _ in occ) + 1
    w = max(x for _, x in occ) + 1
    if len(occ) != h * w:
        return None, "holes"
    return (h, w, out), None
