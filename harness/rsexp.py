"""Real recipe_grid objects <-> the S-expression encoding of lean/RecipeGrid/Model/Recipe.lean."""
from fractions import Fraction

from recipe_grid.recipe import Ingredient, Step, Reference, SubRecipe, Quantity, Proportion, Recipe
from recipe_grid.scaled_value_string import ScaledValueString as SVS

from . import sexp
from .sexp import s, num, opt, lst, b, tag


def svs(x):
    return lst(lambda p: tag("t", s(p)) if isinstance(p, str) else tag("n", num(p)), x._string)


def qty(q):
    return tag("q", num(q.value), opt(s, q.unit), s(q.value_unit_spacing), s(q.preposition))


def amount(a):
    if isinstance(a, Quantity):
        return tag("qty", qty(a))
    return tag("prop", opt(num, a.value), b(bool(a.percentage)), opt(s, a.remainder_wording), s(a.preposition))


def tree(t):
    if isinstance(t, Ingredient):
        return tag("ing", svs(t.description), opt(qty, t.quantity))
    if isinstance(t, Step):
        return tag("step", svs(t.description), lst(tree, t.inputs))
    if isinstance(t, Reference):
        return tag("ref", tree(t.sub_recipe), str(t.output_index), amount(t.amount))
    if isinstance(t, SubRecipe):
        return tag("sub", tree(t.sub_tree), lst(svs, t.output_names), b(t.show_output_names))
    raise TypeError(type(t))


def blocks(recipes):
    return lst(lambda r: lst(tree, r.recipe_trees), recipes)


# ---- decoded replies (sexp.decode output) -> comparable canonical data; real objects -> same data
def c_svs(x):
    return [("t", p) if isinstance(p, str) else ("n", sexp.pynum(p)) for p in x._string]


def c_qty(q):
    return ("q", sexp.pynum(q.value), q.unit, q.value_unit_spacing, q.preposition)


def c_amount(a):
    if isinstance(a, Quantity):
        return ("qty", c_qty(a))
    return ("prop", None if a.value is None else sexp.pynum(a.value), bool(a.percentage), a.remainder_wording, a.preposition)


def c_tree(t):
    if isinstance(t, Ingredient):
        return ("ing", c_svs(t.description), None if t.quantity is None else c_qty(t.quantity))
    if isinstance(t, Step):
        return ("step", c_svs(t.description), [c_tree(x) for x in t.inputs])
    if isinstance(t, Reference):
        return ("ref", c_tree(t.sub_recipe), t.output_index, c_amount(t.amount))
    if isinstance(t, SubRecipe):
        return ("sub", c_tree(t.sub_tree), [c_svs(n) for n in t.output_names], t.show_output_names)
    raise TypeError(type(t))


def c_blocks(recipes):
    return [[c_tree(t) for t in r.recipe_trees] for r in recipes]


def d_svs(x):
    return [tuple(p) for p in x]


def d_tree(x):
    """decode() output of Tree.toSexp -> same shape as c_tree"""
    k = x[0]
    if k == "ing":
        return ("ing", d_svs(x[1]), None if x[2] is None else tuple(x[2]))
    if k == "step":
        return ("step", d_svs(x[1]), [d_tree(y) for y in x[2]])
    if k == "ref":
        a = x[3]
        a = ("qty", tuple(a[1])) if a[0] == "qty" else tuple(a)
        return ("ref", d_tree(x[1]), x[2], a)
    if k == "sub":
        return ("sub", d_tree(x[1]), [d_svs(n) for n in x[2]], x[3])
    raise ValueError(x)


def d_blocks(x):
    return [[d_tree(t) for t in blk] for blk in x]
