#!/venv/bin/python
"""Correspondence for C18c: the title and serving count `compile_markdown` reads from a document, and the first heading its
`render_heading` sees (level, rendered inline text), against the Lean model `firstHeadingX` / `docTitle` (request `md-title`), and
marko's `escape_html` / Python's `html.unescape` under marko's `_charref` against `htmlUnescape` (request `md-unescape`).

    /venv/bin/python harness/mdheading_corr.py [seed] [n_structured] [n_soup]

Exit status 1 on any disagreement on a document the model accepts as a member of the sub-language H (`md-title` does not answer
`outside`).  Documents outside H are counted, without claim."""
import html
import html.entities
import os
import random
import re
import subprocess
import sys
from collections import Counter

HERE = os.path.dirname(os.path.dirname(os.path.abspath(__file__)))
sys.path.insert(0, HERE)

from harness import sexp  # noqa: E402
from marko.html_renderer import HTMLRenderer  # noqa: E402
from recipe_grid import markdown as M  # noqa: E402

DRIVER = os.path.join(HERE, "lean", ".lake", "build", "bin", "driver")
PLACEHOLDER = re.compile(r"%[A-Z]{32}%")


def ask(requests):
    data = "\n".join(requests) + "\n"
    p = subprocess.run([DRIVER], input=data, stdout=subprocess.PIPE, stderr=subprocess.PIPE, text=True, timeout=3600)
    lines = p.stdout.splitlines()
    if p.returncode != 0 or len(lines) != len(requests):
        raise RuntimeError("driver failed rc=%s replies=%d/%d %s" % (p.returncode, len(lines), len(requests), p.stderr[-400:]))
    return [sexp.decode(sexp.parse(l)) for l in lines]


def fix(x):
    return "" if x == () else x


# ------------------------------------------------------------------ observation of the real code
EVENTS = []
_orig_heading = M.RecipeGridRendererMixin.render_heading


def _hooked_heading(self, element):
    first = self.first_heading
    got = {}
    rc = self.render_children

    def rc2(el):
        r = rc(el)
        if el is element:
            got["text"] = r
        return r

    self.render_children = rc2
    try:
        out = _orig_heading(self, element)
    finally:
        del self.render_children
    EVENTS.append((element.level, got.get("text"), first, self.output.title, self.output.servings, type(element).__name__, out))
    return out


M.RecipeGridRendererMixin.render_heading = _hooked_heading


def real(doc):
    """(events, title, servings, exception name or None): title/servings as recorded right after the first heading was rendered
    (they never change afterwards); a recipe block that does not compile makes compile_markdown raise AFTER the rendering"""
    del EVENTS[:]
    exc = None
    try:
        mr = M.compile_markdown(doc)
        title, servings = mr.title, mr.servings
    except Exception as e:  # noqa
        exc = type(e).__name__
        if not type(e).__module__.startswith(("recipe_grid", "peggie")):
            # not a recipe that fails to compile: marko itself raised, while parsing; there is no result at all
            return None, None, None, "marko raised " + exc
        title, servings = (EVENTS[0][3], EVENTS[0][4]) if EVENTS else (None, None)
    ev = list(EVENTS)
    if ev and exc is None:
        assert (ev[0][3], ev[0][4]) == (title, servings), (doc, ev, title, servings)
        assert all((e[3], e[4]) == (title, servings) for e in ev), (doc, ev)
    return ev, title, servings, exc


def real_info(title, servings):
    if title is None:
        return ("no-title",)
    if servings is None:
        return ("unscalable", title)
    return ("scalable", title, servings)


# ------------------------------------------------------------------ comparison
class Stats:
    def __init__(self):
        self.dist = Counter()
        self.feat = Counter()
        self.bad = []
        self.n = 0
        self.in_h = 0
        self.crashes = []


def compare(st, docs, label):
    reps = ask([sexp.tag("md-title", sexp.s(d)) for d in docs])
    for d, rep in zip(docs, reps):
        st.n += 1
        fh, ti = rep[1], rep[2]
        ev, title, servings, exc = real(d)
        if ev is None:
            st.dist["(no result: %s; model: %s)" % (exc, "outside H" if fh == "outside" else "in H")] += 1
            if len(st.crashes) < 8 and fh != "outside":
                st.crashes.append(d)
            continue
        rinfo = real_info(title, servings)
        if fh == "outside":
            st.dist[label + ": outside H"] += 1
            st.dist["outside H, real: " + rinfo[0]] += 1
            continue
        st.in_h += 1
        if exc:
            st.feat["(recipe block fails to compile after rendering: %s)" % exc] += 1
        if fh == "no-heading":
            st.dist[label + ": no heading"] += 1
            st.dist["H no heading"] += 1
            if ev or rinfo != ("no-title",) or ti != "no-title":
                st.bad.append((label, d, "model: no heading", ev[:2], rinfo))
            continue
        level, ht = fh[1], fh[2]
        mtitle = ("no-title",) if ti == "no-title" else (("unscalable", fix(ti[1])) if ti[0] == "unscalable" else ("scalable", fix(ti[1]), ti[2]))
        kind = "plain" if ht != "markup" else "markup"
        st.dist[label + ": heading " + kind] += 1
        st.dist["H level %d %s -> %s" % (level, kind, mtitle[0])] += 1
        if not ev:
            st.bad.append((label, d, "model heading, real none", fh, rinfo))
            continue
        rl, rtext, rfirst = ev[0][0], ev[0][1], ev[0][2]
        st.feat["first heading is a " + ev[0][5]] += 1
        ok = rl == level and rfirst is True and rinfo == mtitle
        if ht == "markup":
            ok = ok and ("<" in rtext or PLACEHOLDER.search(rtext) is not None) and rinfo == ("no-title",)
        else:
            ok = ok and rtext == fix(ht[1])
            if ok and ti != "no-title" and ti[0] == "scalable" and "\n" not in fix(ti[4]):
                # the heading as rendered: title HTML, then the preposition and a placeholder in the serving-count span
                want = re.escape('<h1 class="rg-title-scalable">' + fix(ti[3]) + '<span class="rg-serving-count">' + fix(ti[4])) + "%[A-Z]{32}%</span></h1>"
                if not re.search(want, ev[0][6]):
                    ok = False
        if not ok:
            st.bad.append((label, d, "model", fh, mtitle, "real", (rl, rtext, rfirst), rinfo))


# ------------------------------------------------------------------ generation
DOCUMENTED = ["to serve", "to make", "serves", "for", "makes", "serving"]
OTHER_PHRASES = ["serve", "make", "to serves", "to makes", "to  serve", "to\tmake", "servings", "feeds", "of", "x"]
SPACES = [" ", "  ", " ", "\x0c", "\u00a0", " \x0b", "\u2028", "\t", "\x1c", "\u3000", " \t "]
WORDS = ["Stew", "Bread", "for", "to", "serve", "serves", "makes", "make", "serving", "2", "10", "Food", "&", "drink", "FOR", "To", "SERVES",
         "forty", "before", "x", "03", "for2", "Tom's", "100%", "\"q\"", "café", "Serve", "MAKES", "日本", "\U0001F372", "a\u0301", "it's", "(a)", "a>b",
         "1/2", "#1", "#", "##", "a#", "!", "]", "}", ")", ">", "~", "|", "=", "-", "+", ":", ";", "&;", "a;b", "\u00a0", "\u2003x"]
ENTS = ["&amp;", "&lt;", "&gt;", "&quot;", "&#39;", "&#x27;", "&eacute;", "&Eacute;", "&nbsp;", "&copy;", "&copy", "&amp", "&ampx;", "&notit;", "&notin;",
        "&unknown;", "&#65;", "&#x41;", "&#X41;", "&#0;", "&#13;", "&#10;", "&#32;", "&#9;", "&#128;", "&#x80;", "&#x9f;", "&#xD800;", "&#xDFFF;",
        "&#1114111;", "&#1114112;", "&#x10FFFF;", "&#x110000;", "&#12345678;", "&#123456789;", "&#x1234567;", "&#x123456789;", "&#1;", "&#x7f;",
        "&#xFFFE;", "&#xFDD0;", "&#x1FFFF;", "&#;", "&#x;", "&#xg;", "&#6 5;", "&;", "&&amp;", "&a&b;", "&a b;", "&a<b;", "&#38;amp;", "&bne;", "&NotEqualTilde;",
        "&CounterClockwiseContourIntegral;", "&CounterClockwiseContourIntegralx;", "&abcdefghijklmnopqrstuvwxyzabcdefg;", "&abcdefghijklmnopqrstuvwxyzabcdef;",
        "&AMP;", "&AMP", "&GT", "&LTx;", "&quot", "&aacute1;", "&not;", "&no;", "&n;", "&é;", "&a\tb;", "&a\x0cb;", "&a#b;", "&#65", "& amp;", "&\u00a0;",
        "&amp;amp;", "&amp;lt;", "&lt;b&gt;", "&#60;b&#62;", "&#x3c;", "&fjlig;", "&ThickSpace;", "&nvlt;"]
ESCAPES = ["\\#", "\\&", "\\*", "\\_", "\\`", "\\[", "\\]", "\\<", "\\>", "\\{", "\\}", "\\\\", "\\!", "\\\"", "\\'", "\\a", "\\ ", "\\1", "\\é", "\\&amp;", "\\&#65;",
           "&\\#65;", "&am\\p;", "a\\*b", "Fish \\& chips", "\\{2\\}", "\\<b\\>", "\\`code\\`", "\\*em\\*", "\\\\\\#", "\\\\*", "x\\"]
MARKUP = ["*em*", "**strong**", "_em_", "__s__", "`code`", "``co`de``", "<b>", "</b>", "<br/>", "<b>x</b>", "{2}", "{1/2}", "{a b}", "{}", "[l](u)", "![i](u)", "<http://x.y>",
          "<a@b.c>", "[ref]", "[x][y]", "<!-- c -->", "<?p?>", "***x***", "*a b*", "_a b_", "{ 2 }", "{2 g}", "<span title=\"}\">", "`a` `b`", "*x* *y*"]
LONE = ["*", "_", "`", "[", "<", "{", "a_b", "a*b", "2 * 3", "{x", "x}", "<3", "a < b", "``", "`a", "[x", "[x]", "![", "* x", "_ x _", "**", "a**b", "}{", "<b", "< b>", "<1>"]
REST = ["", "body\n", "\nBody {2} text.\n", "# Soup for 3\n", "\n# Soup for 3\n", "Other\n===\n", "\n## Sub for 9\n\npara\n", "> quote\n\n- item\n", "\n```recipe\n1 egg\n```\n",
        "\n```\nplain code\n```\n", "\n    fry(1 egg)\n", "[x]: /url\n", "\n[Stew]: /url 'for 3'\n", "===\n", "---\n", "<div>\n# x\n</div>\n", "\n* * *\n", "\ttab\n", "\n\n\n",
        "no newline at end", "\n```recipe\n1 egg)) oops\n```\n", "\n    x = = 1\n"]
PARAS = ["Intro paragraph.", "Needs {2} eggs per person.", "Makes {1/2} litre; `{3}` is code.", "Two\nlines.", "a > b", "1986 was a year", "#hashtag here", "####### seven",
         "\\# not a heading", "Three\n    lazy\nlines", "  indented a bit", "`` two ticks", "*emph* text", "x\\", "[link](u) starts", "[[wiki]]", "-dash", "+1", "2) not", "= x", "a\n=x",
         "http://example.com", "&amp; first"]
NOT_PLAIN_PARAS = ["> quote", "- item", "* item", "1. one", "<div>", "<!-- c -->", "***", "---", "===", "[x]: /u", "\tcode", "a\tb", "+ x", "12) x", "_ _ _", "<b>x</b> inline", "- - -"]
FENCES = [("```", "```"), ("~~~", "~~~"), ("````", "````"), ("```python", "```"), ("~~~ recipe x", "~~~~"), (" ```", "  ```"), ("```recipe", "```"), ("```new-recipe", "```")]
CODE_LINES = ["x = 1", "# not a heading", "Title\n===", "1 egg", "fry(2 eggs)", "", "> q", "- i", "   ", "~~", "``"]


class G:
    def __init__(self, rng, feat):
        self.r = rng
        self.feat = feat

    def title(self, plain_only=False, allow_nl=False):
        r = self.r
        n = r.choice([0, 1, 1, 2, 2, 3, 4])
        toks = []
        for _ in range(n):
            k = r.random()
            if k < 0.55:
                toks.append(r.choice(WORDS)); self.feat["tok:word"] += 1
            elif k < 0.7:
                toks.append(r.choice(ENTS)); self.feat["tok:char-ref"] += 1
            elif k < 0.82:
                toks.append(r.choice(ESCAPES)); self.feat["tok:backslash"] += 1
            elif plain_only:
                toks.append(r.choice(WORDS))
            elif k < 0.92:
                toks.append(r.choice(MARKUP)); self.feat["tok:markup"] += 1
            else:
                toks.append(r.choice(LONE)); self.feat["tok:lone-special"] += 1
        sep = [" ", " ", " ", "  ", "\t", "", "\u00a0"]
        if allow_nl:
            sep += ["\n", "\n", " \n", "  \n", "\\\n", "\n  ", "\n\t", "\\\\\n", "   \n "]
        out = ""
        for i, t in enumerate(toks):
            if i:
                out += r.choice(sep)
            out += t
        return out

    def serving(self):
        r = self.r
        k = r.random()
        if k < 0.35:
            return ""
        ph = r.choice(DOCUMENTED if k < 0.8 else OTHER_PHRASES)
        ph = r.choice([ph, ph.upper(), ph.title(), ph.swapcase(), "".join(r.choice([c.lower(), c.upper()]) for c in ph)])
        if " " in ph and r.random() < 0.3:
            ph = ph.replace(" ", r.choice(["  ", "\t", " \u00a0"]))
        num = r.choice(["1", "2", "4", "12", "100", "0", "007", str(r.randint(1, 999)), "2x", "two", "٢", "2.", "1/2", ""])
        self.feat["serving phrase"] += 1
        return r.choice(SPACES[:4] + [" "] * 4) + ph + r.choice(SPACES[:4] + [" "] * 4) + num

    def prefix(self, out):
        """blocks before the heading; returns whether they are all inside H (by construction; only used for statistics)"""
        r = self.r
        for _ in range(r.choice([0, 0, 0, 1, 1, 2, 3])):
            k = r.random()
            if k < 0.3:
                out.extend([""] * r.choice([1, 1, 2]) if r.random() < 0.8 else [r.choice(["   ", " ", "\x0c", "\u00a0"])])
                self.feat["pre:blank"] += 1
            elif k < 0.6:
                out.extend(r.choice(PARAS).split("\n")); out.append(""); self.feat["pre:paragraph"] += 1
            elif k < 0.7:
                out.append(r.choice(NOT_PLAIN_PARAS)); out.append(""); self.feat["pre:non-plain block"] += 1
            elif k < 0.85:
                o, c = r.choice(FENCES)
                out.append(o)
                for _ in range(r.choice([0, 1, 2, 3])):
                    out.extend(r.choice(CODE_LINES).split("\n"))
                if r.random() < 0.9:
                    out.append(c)
                    out.extend([""] * r.choice([0, 1]))
                self.feat["pre:fence"] += 1
            else:
                if out and out[-1] != "":
                    out.append("")
                for _ in range(r.choice([1, 2])):
                    out.append("    " + r.choice(["fry(1 egg)", "x = 1 egg", "# code", "===", "2 eggs"]))
                    if r.random() < 0.3:
                        out.append(r.choice(["", "    ", "  "]))
                if r.random() < 0.7:
                    out.append("")
                self.feat["pre:indented code"] += 1
        if out and out[-1] != "" and r.random() < 0.25:
            self.feat["pre:heading directly after a paragraph/code line"] += 1

    def heading(self, out):
        r = self.r
        k = r.random()
        if k < 0.6:
            level = r.choice([1, 1, 1, 1, 2, 3, 6, 7])
            t = self.title() + self.serving()
            lead = r.choice(["", "", "", " ", "  ", "   ", "    "])
            sp = r.choice([" ", " ", " ", "  ", "\t", "", "\u00a0"])
            close = r.choice(["", "", "", " #", " ##", "#", " # ", "  ###  ", " \\#", " #\t", " # x", "\\ #"])
            trail = r.choice(["", "", " ", "  ", "\t"])
            if r.random() < 0.06:
                t = ""
            out.append(lead + "#" * level + sp + t + close + trail)
            self.feat["atx level %d" % level] += 1
            if close:
                self.feat["atx closing %r" % close] += 1
            if t == "":
                self.feat["atx empty"] += 1
        elif k < 0.95:
            multi = r.random() < 0.5
            t = self.title(allow_nl=multi)
            if multi and "\n" not in t:
                t = t + r.choice(["\n", " \n", "\n "]) + r.choice(WORDS)
            t = t + self.serving()
            lines = [r.choice(["", "", " ", "   "]) + l for l in t.split("\n")]
            ch = r.choice("==-")
            under = r.choice(["", "", " ", "   "]) + ch * r.choice([1, 2, 3, 8]) + r.choice(["", "", " ", "  ", "\u00a0"])
            out.extend(lines)
            out.append(under)
            self.feat["setext %s %s" % (ch, "multi-line" if len(lines) > 1 else "single-line")] += 1
        else:
            self.feat["no heading line generated"] += 1

    def doc(self):
        r = self.r
        out = []
        self.prefix(out)
        self.heading(out)
        text = "\n".join(out) + "\n" if out else ""
        rest = r.choice(REST)
        if r.random() < 0.1:
            text = text[:-1] if text else text      # heading line without its newline (then nothing follows)
            rest = ""
            self.feat["heading at the end without newline"] += 1
        text += rest
        if r.random() < 0.12:
            text = text.replace("\n", "\r\n")
            self.feat["CRLF"] += 1
        elif r.random() < 0.03:
            text = text.replace("\n", "\r", 1)
            self.feat["lone CR"] += 1
        return text


def documented_docs(rng):
    titles = ["Stew", "Food & drink", "Tom's pie", "Bread for two", "Tea for 2 and cake", "2 by 4", "Soup", "100% Rye", "Q \"x\"", "Tom's \\#1 stew &amp; dumplings",
              "Caf&eacute; au lait", "Cr\\*me br&ucirc;l&eacute;e", "a\\_b", "Fish \\& chips", "Food to", "What to", "to", "x  y", "&#65;&#x42;C", "日本 の", "A &gt; B", "50\\% \\<off\\>"]
    docs = []
    for phrase in DOCUMENTED:
        for case in ("lower", "upper", "title", "mixed"):
            ph = {"lower": phrase, "upper": phrase.upper(), "title": phrase.title(), "mixed": "".join(rng.choice([c, c.upper()]) for c in phrase)}[case]
            for sp1 in SPACES:
                sp2 = rng.choice(SPACES)
                for n in [1, 2, 12, 0, rng.randint(1, 99999)]:
                    t = rng.choice(titles)
                    form = rng.random()
                    if form < 0.6:
                        docs.append("# " + t + sp1 + ph + sp2 + str(n) + "\n" + rng.choice(REST))
                    elif form < 0.75:
                        docs.append("# " + t + sp1 + ph + sp2 + str(n) + rng.choice([" #", " ##  ", "  "]) + "\n" + rng.choice(REST))
                    elif form < 0.9:
                        docs.append(t + sp1 + ph + sp2 + str(n) + "\n" + rng.choice(["===", "=", " == "]) + "\n" + rng.choice(REST))
                    else:
                        docs.append("Grandma's\n" + t + sp1 + ph + sp2 + str(n) + "\n===\n" + rng.choice(REST))
    return docs


NEG = ["Intro\n\n## Stew for 2\n", "## Stew for 2\n\n# Soup for 3\n", "# *Stew* for 2\n", "# Stew 2\n", "# Stew for two\n", "# Stew for 2\n\n# Soup for 3\n",
       "para\n\n# Stew for 2\n", "Stew for 2\n==========\n", "# Stew before 2\n", "# Food &amp; drink for 2\n", "# Serves 2\n", "# *Fancy* soup\n\n# Stew for 6\n",
       "# Soup with {2} eggs\n\n# Stew for 6\n", "# <b>x</b>\n\ntext\n\n# Stew for 6\n", "# `code` pie\n\n# Pie for 3\n", "# Plum Preserves 2\n", "# Remakes 3\n",
       "# Uniform 4\n", "# Pie, serves 4\n", "Needs {2} eggs per person.\n\n# Pancakes for 4\n", "Grandma's famous\nSunday roast for 6\n===\n", "Two line\ntitle\n=====\n",
       "# Soup {v2\\} for 4\n", "Tiffin {nut free\\} SERVES  6\n===\n", "# Hello \\{ and \\} for 3\n", "# Soup for 0\n",
       # further hand-picked corner cases
       "", "\n", "\n\n# Stew for 2\n", "   \n# Stew for 2\n", "# Tom's \\#1 stew &amp; dumplings FOR  12\n", "Grandma's\nchicken soup for 4\n===\n", "#\n", "# \n", "#", "# #\n", "# # #\n", "## \n",
       "#Stew for 2\n", "####### Stew for 2\n", "    # Stew for 2\n", "   # Stew for 2\n", "#\tStew for 2\n", "# Stew for 2 #\n", "# Stew for 2#\n", "# Stew for 2 \\#\n", "# Stew for 2 ##   \n",
       "# Stew for 2 # #\n", "# for 2\n", "#  for 2\n", "# to serve 2\n", "# Food to serve 4\n", "# Stew for 2\r\n\r\nbody\r\n", "Stew for 2\r\n===\r\n", "# Stew for 2\rmore\n", "Stew\n---\n",
       "Stew for 2\n---\n", "Stew for 2\n-\n", "Stew for 2\n- \n", "Stew for 2\n--\n", "Stew for 2\n=\n", "Stew for 2\n= =\n", "Stew for 2\n- - -\n", "Stew for 2\n    ===\n", "Stew for 2\n   ===\n",
       "Stew  \nfor 2\n===\n", "Stew \nfor 2\n===\n", "Stew\\\nfor 2\n===\n", "Stew\\\\\nfor 2\n===\n", "  Stew\n    for 2\n  ===\n", "Stew for 2\n\n===\n", "===\n===\n", "---\n---\n",
       "```\n# Stew for 2\n```\n", "```\n# Stew for 2\n", "    # Stew for 2\n\n# Soup for 3\n", "para\n# Stew for 2\n", "para\n    # lazy\n# Stew for 2\n", "```\ncode\n```\n# Stew for 2\n",
       "```\ncode\n```\nStew for 2\n===\n", "    code\nStew for 2\n===\n", "    code\n\nStew for 2\n===\n", "> # Quoted for 2\n\n# Stew for 3\n", "- # Item for 2\n\n# Stew for 3\n",
       "<div>\n# Html for 2\n</div>\n\n# Stew for 3\n", "[x]: /u\n# Stew for 2\n", "[x]: /u\n\n# [x] for 2\n", "# [x] for 2\n\n[x]: /u\n", "# Stew &amp for 2\n", "# Stew &#38; co for 2\n",
       "# &lt;b&gt; for 2\n", "# a &#60; b for 2\n", "# for&#32;2 x for 2\n", "# Stew for&#32;2\n", "# Stew&#32;for 2\n", "# Stew&nbsp;for 2\n", "# Stew for 2&#32;\n", "# &#32;Stew for 2\n",
       "# Stew &#10;for 2\n", "# a * b for 2\n", "# a_b for 2\n", "# 100% for 2\n", "# {2 for 2\n", "# 2} for 2\n", "# }{ for 2\n", "# { } for 2\n", "# a ` b for 2\n", "# a `` b ` c for 2\n",
       "# a ` b ` c for 2\n", "# *a* for 2\n", "# * a* for 2\n", "# x*a* for 2\n", "# _a_ for 2\n", "# x_a_ for 2\n", "# _a_x for 2\n", "# **a** for 2\n", "# *a** for 2\n", "# <b> for 2\n",
       "# </b> for 2\n", "# < b> for 2\n", "# <1> for 2\n", "# <b-c> for 2\n", "# <b c> for 2\n", "# a\\<b> for 2\n", "# \\*a* for 2\n", "# `a\\` for 2\n", "# \\`a` for 2\n", "# {2\\} for 2\n",
       "# {\\}} for 2\n", "# \\{2} for 2\n", "# Stew\tfor\t2\n", "# Stew for 2\t\n", "#\u00a0Stew for 2\n", "# Stew for 2\u00a0\n", "# \u00a0Stew for 2\n", "# Stew\u2028for 2\n", "# Stew for 2\x0c\n",
       "# Stew for 2\x1c\n", "\ufeff# Stew for 2\n", "# Stew for ２\n", "#\x0bStew for 2\n", "Stew for 2\n=\u00a0\n", "Stew for 2\n=\x0b\n", "Stew for 2\n-\x0b\n", "a\n- b\n===\n", "a\n-\n===\n"]


# ------------------------------------------------------------------ the theorems of Props/C18c.lean, instantiated at random, on the real code
ACCEPTED = ["for", "make", "makes", "serve", "serves", "serving", "to make", "to makes", "to serve", "to serves"]
BLANKS = [" ", "\t", "\x0b", "\x0c", "\x1c", "\x1f", "\x85", "\u00a0", "\u2003", "\u2028", "\u3000"]
SAFE_ALPHA = list("abcxyzTOto 0129.,;:!?'\"()]}>/|%$@^&\\#~+-=") + ["é", "日", "\u00a0", "\t", "&amp;", "&lt;", "&#65;", "&eacute;", "&nope;", "\\*", "\\_", "\\[", "\\<", "\\{", "\\`",
                                                                          "\\&", "\\\\", " to", " TO", "To"]
SAFE_HEAD = list("abcxyzTO.,;:!?'\"()]}/|%$@^&\\") + ["é", "日", "&amp;", "\\*", "\\#"]


def is_space(c):
    return re.match(r"\s", c) is not None


def theorem_instances(rng, n):
    """(kind, document, T or J) for random instances of doc_title_documented_form(_after) and doc_title_setext_documented_form; the
    hypotheses about the decoded text D are checked afterwards (D comes from the model)"""
    out = []
    for _ in range(n):
        ph = rng.choice(DOCUMENTED)
        words = ph.split(" ")
        phtext = (rng.choice(BLANKS) * rng.choice([1, 2])).join("".join(rng.choice([c, c.upper()]) for c in w) for w in words)
        s1 = "".join(rng.choice(BLANKS) for _ in range(rng.choice([1, 1, 2, 3])))
        s2 = "".join(rng.choice(BLANKS) for _ in range(rng.choice([1, 1, 2])))
        N = rng.choice([0, 1, 2, 12, 100, rng.randint(0, 10 ** rng.randint(1, 12))])
        rest = rng.choice(REST + ["# Other for 3\n", "Other for 3\n===\n", "> q\n", "- x\n\n# y\n"])
        if rest.endswith(">") or rest.endswith("]("):
            rest += "\n"
        suffix = s1 + phtext + s2 + str(N)
        if rng.random() < 0.6:
            T = rng.choice(SAFE_HEAD) + "".join(rng.choice(SAFE_ALPHA) for _ in range(rng.randint(0, 12)))
            Q = []
            if rng.random() < 0.4:
                for _ in range(rng.randint(1, 3)):
                    Q.extend(rng.choice([[""], ["  "], ["Intro paragraph."], ["Needs {2} eggs", "per person."], ["    fry(1 egg)"], ["text", "    lazy"], ["x", ""]]))
            closing = ""
            if not Q and rng.random() < 0.3:
                closing = "".join(rng.choice(BLANKS) for _ in range(rng.choice([1, 2]))) + "#" * rng.choice([1, 2, 5]) + "".join(rng.choice(BLANKS) for _ in range(rng.choice([0, 0, 1, 2])))
            doc = "".join(q + "\n" for q in Q) + "# " + T + suffix + closing + "\n" + rest
            out.append(("atx" + ("-after" if Q else "") + ("-closing" if closing else ""), doc, T, ph, N))
        else:
            E = [rng.choice(SAFE_HEAD) + "".join(rng.choice(SAFE_ALPHA) for _ in range(rng.randint(0, 8))) for _ in range(rng.choice([0, 1, 1, 2]))]
            Tl = rng.choice(SAFE_HEAD) + "".join(rng.choice(SAFE_ALPHA) for _ in range(rng.randint(0, 8)))
            under = "=" * rng.choice([1, 2, 3, 7]) + rng.choice(["", " ", "\t", "\u00a0 "])
            J = "".join(e + "\n" for e in E) + Tl
            doc = J + suffix + "\n" + under + "\n" + rest
            out.append(("setext-%d-lines" % (len(E) + 1), doc, J, ph, N))
    return out


def check_theorems(st, rng, n):
    inst = theorem_instances(rng, n)
    reps = ask([sexp.tag("md-decode", sexp.s(x[2])) for x in inst])
    used = Counter()
    for (kind, doc, T, ph, N), D in zip(inst, reps):
        if D is None:
            used["(hypothesis fails: title text not plain)"] += 1
            continue
        D = fix(D)
        if (D and (is_space(D[0]) or is_space(D[-1]))) or is_space(T[0]):
            used["(hypothesis fails: white space at an end of the decoded title)"] += 1
            continue
        if ("to " + ph) in ACCEPTED and re.search(r"\s[tT][oO]\Z", D):
            used["(hypothesis fails: title ends in 'to')"] += 1
            continue
        ev, title, servings, exc = real(doc)
        if ev is None:
            used["(no result: %s)" % exc] += 1
            continue
        used[kind] += 1
        if (title, servings) != (D, N):
            st.bad.append(("theorem instance", kind, doc, "theorem", (D, N), "real", (title, servings)))
    print("theorem instances on the real code:")
    for k in sorted(used):
        print("  %-60s %d" % (k, used[k]))


def soup(rng):
    alpha = "##  \n\n=-- \\&;*_`{}<>[]()!\"'a1x \tfor 2"
    n = rng.choice([3, 6, 10, 16, 24])
    return "".join(rng.choice(alpha) for _ in range(n))


def inline_soup(rng):
    """a level-1 heading (ATX, or setext over 1-3 lines) whose text is a soup of the characters inline parsing cares about"""
    alpha = list("*_`{}<>[]()!/ab 12&;#'\"") + ["\\", " ", " ", "a", "b", "*", "_", "`", "**", "``", "{2}", "<b>", "</i>", "&amp;", "&lt;", " for 2"]
    if rng.random() < 0.5:
        alpha = [a for a in alpha if a != "\\"]
    t = "".join(rng.choice(alpha) for _ in range(rng.choice([2, 4, 6, 9, 14])))
    k = rng.random()
    if k < 0.6:
        return "# " + t + rng.choice(["", " for 2", " serves 10"]) + "\n"
    lines = [t]
    for _ in range(rng.choice([0, 1, 2])):
        lines.append("".join(rng.choice(alpha) for _ in range(rng.choice([1, 3, 6]))))
    sep = rng.choice(["\n", "\n", " \n", "  \n", "\\\n"])
    return "x" + sep.join(lines) + rng.choice(["", " for 2"]) + "\n===\n"


def unescape_cases(rng):
    cases = list(ENTS)
    for k in html.entities.html5:
        cases.append("&" + k)
        if not k.endswith(";"):
            cases.append("&" + k + "x;")
            cases.append("&" + k + ";")
    for n in list(range(0, 300)) + [0xD7FF, 0xD800, 0xDFFF, 0xE000, 0xFDCF, 0xFDD0, 0xFDEF, 0xFDF0, 0xFFFD, 0xFFFE, 0xFFFF, 0x10000, 0x1FFFE, 0x1FFFF, 0x10FFFE, 0x10FFFF, 0x110000, 99999999]:
        cases.append("&#%d;" % n)
        cases.append("&#x%x;" % n)
    for _ in range(3000):
        cases.append("".join(rng.choice(["&", "&", "#", ";", "x", "X", "a", "m", "p", "l", "t", "g", "1", "6", "5", " ", "\t", "\n", "<", "é", "amp", "lt", "not", "copy", "&amp;", "&#"]) for _ in range(rng.randint(1, 10))))
    return cases


def py_unescape(s):
    bak = html._charref
    html._charref = HTMLRenderer._charref
    try:
        return html.unescape(s)
    finally:
        html._charref = bak


def main():
    seed = int(sys.argv[1]) if len(sys.argv) > 1 else 23
    n_struct = int(sys.argv[2]) if len(sys.argv) > 2 else 6000
    n_soup = int(sys.argv[3]) if len(sys.argv) > 3 else 3000
    rng = random.Random(seed)
    st = Stats()

    # 0. html.unescape under marko's _charref
    cases = [c for c in unescape_cases(rng) if not any(0xD800 <= ord(ch) <= 0xDFFF for ch in c)]
    reps = ask([sexp.tag("md-unescape", sexp.s(c)) for c in cases])
    nbad = 0
    for c, rp in zip(cases, reps):
        want = py_unescape(c)
        if fix(rp) != want:
            nbad += 1
            st.bad.append(("unescape", c, "model", fix(rp), "real", want))
    print("html.unescape (marko's _charref): %d cases, %d disagreements" % (len(cases), nbad))

    # 1. documented forms
    compare(st, documented_docs(rng), "documented forms")
    # 2. C18's negative documents and hand-picked corner cases
    compare(st, NEG, "hand-picked")
    # 2b. every named reference inside a heading (through the whole pipeline), a sample
    names = sorted(html.entities.html5)
    compare(st, ["# a &%s b for 2\n" % k for k in rng.sample(names, 300)], "named reference in a heading")
    # 3. structured documents
    g = G(rng, st.feat)
    compare(st, [g.doc() for _ in range(n_struct)], "structured")
    # 4. the documents of C18's own correspondence generator
    from harness.props import c18
    compare(st, [c18.gen_heading_doc(rng).text(rng.choice(["\n", "\n", "\r\n"])) for _ in range(1500)], "C18 generator")
    # 5. malformed stream
    compare(st, [soup(rng) for _ in range(n_soup)], "soup")
    # 5b. inline soup in a heading
    compare(st, [inline_soup(rng) for _ in range(2 * n_soup)], "inline soup")
    # 6. the statements of the theorems themselves, instantiated at random, on the real code
    check_theorems(st, rng, 3000)

    print("documents: %d, in H: %d (%.1f%%)" % (st.n, st.in_h, 100.0 * st.in_h / max(st.n, 1)))
    for k in sorted(st.dist):
        print("  %-60s %d" % (k, st.dist[k]))
    print("features exercised:")
    for k in sorted(st.feat):
        print("  %-60s %d" % (k, st.feat[k]))
    if st.crashes:
        print("documents of H on which compile_markdown raised inside marko (no result, not compared):", [repr(c) for c in st.crashes])
    print("disagreements: %d" % len(st.bad))
    for b in st.bad[:40]:
        print("  ", repr(b)[:600])
    return 1 if st.bad else 0


if __name__ == "__main__":
    sys.exit(main())
