#!/venv/bin/python
"""Correspondence for task L1: where `recipe_grid.parser.parse` reports a syntax error (peggie's furthest-failure
offset, hence `ParseError.line`, `.column`, `.snippet`) versus the Lean model `RG.parseE`
(lean/RecipeGrid/Model/ParserErr.lean), request `(parse-err (s <code points>))` of the driver.

    /venv/bin/python corr_L1.py [--seed N] [--scale F] [--show N]

The real parser is run in-process through `recipe_grid.parser.parse`; the `peggie.Parser` it creates is observed
(not altered) so that the raw offset `max(f.offset for f in parser._parse_failures)` can be compared as well.
Compared exactly for every input: accepted / rejected; for a rejected text: offset, line, column, snippet.
Exits non-zero on any disagreement."""
import argparse
import os
import random
import subprocess
import sys
import unicodedata
from collections import Counter

HERE = os.path.dirname(os.path.abspath(__file__))
sys.path.insert(0, HERE)

from harness import sexp  # noqa: E402
from harness import parser_corr as pc  # noqa: E402

import peggie  # noqa: E402
import recipe_grid.parser as rgp  # noqa: E402

DRIVER = os.path.join(HERE, "lean", ".lake", "build", "bin", "driver")

# ------------------------------------------------------------------ the real parser, observed

_last = []


class ObservedParser(peggie.Parser):
    """the peggie parser, unchanged; remembers the instance `recipe_grid.parser.parse` has made"""

    def __init__(self, grammar):
        super().__init__(grammar)
        _last[:] = [self]


rgp.Parser = ObservedParser


def expectation_names(e):
    out = []
    for expr, _ind in e.expectations:
        if isinstance(expr, peggie.RuleExpr):
            out.append(expr.name)
        else:
            out.append("r" + repr(expr.pattern.pattern if hasattr(expr.pattern, "pattern") else expr.pattern))
    return tuple(sorted(out))


def real(text):
    """('ok',) | ('syntax', offset, line, column, snippet, expectations) | ('skip', why)"""
    try:
        rgp.parse(text)
        return ("ok",)
    except peggie.ParseError as e:
        p = _last[0]
        off = max(f.offset for f in p._parse_failures)
        return ("syntax", off, e.line, e.column, e.snippet, expectation_names(e))
    except (OverflowError, ZeroDivisionError):
        # raised by the AST transformer, i.e. after the grammar has accepted the text
        return ("ok",)
    except RecursionError:
        return ("skip", "recursion")


def model_all(texts):
    requests = "".join(sexp.tag("parse-err", sexp.s(t)) + "\n" for t in texts)
    run = subprocess.run([DRIVER], input=requests.encode("ascii"), stdout=subprocess.PIPE, check=True)
    replies = run.stdout.decode("ascii").splitlines()
    if len(replies) != len(texts):
        raise RuntimeError("driver returned %d replies for %d requests" % (len(replies), len(texts)))
    out = []
    for r in replies:
        d = sexp.parse(r)
        if d == ["ok"]:
            out.append(("ok",))
        elif d[0] == "syntax":
            snippet = None if d[4] == "none" else sexp.decode(d[4][1])
            out.append(("syntax", int(d[1]), int(d[2]), int(d[3]), snippet))
        else:
            out.append(("bad", r))
    return out


# ------------------------------------------------------------------ generators

ALPHABET = list("abxyofthe restg0123456789") + list("\"',:=/(){}%*\\.-") + \
    [" ", " ", "\t", "\n", "\n", "\r", "\r\n", "\xa0", " ", " ", "\x0b", "\x0c", "\x1c", "\x85",
     "\U0001F600", "\U00010000", "\xe9", "K", "ſ", "_", "　", "​", "kg", "of", "the", "1/2", "tsp"]
STRAY = ["(", ")", "{", "}", "'", '"', ",", "=", ":=", ":", "/", "%", "*", "\\", "\n", "\r", "\r\n", "\t", " ",
         "\xa0", " ", "\U0001F600", "1", "1/", "/2", "of", " of the ", "{1", "1}", "a(", ",)", "((", "))"]


def gen_charsoup(rng):
    return "".join(rng.choice(ALPHABET) for _ in range(rng.randint(0, 24)))


def gen_truncations(rng, n_texts):
    out = []
    for _ in range(n_texts):
        text = pc.gen_structured(rng)
        if len(text) > 80:
            text = text[:80]
        for i in range(len(text) + 1):
            out.append(text[:i])
            if rng.random() < 0.15:
                out.append(text[i:])
    return out


def gen_stray(rng):
    text = pc.gen_structured(rng)
    for _ in range(rng.choice([1, 1, 2])):
        i = rng.randint(0, len(text))
        text = text[:i] + rng.choice(STRAY) + text[i:]
    return text


def gen_multiline(rng):
    """several statements, line terminators of all kinds, an error somewhere after the first line"""
    nl = ["\n", "\n", "\r\n", "\r", "\n\n", " \n\t", "\n\x0b\n", "\n\xa0", "\x0c\n", "\n "]
    stmts = [pc.rand_stmt(rng) for _ in range(rng.randint(2, 6))]
    k = rng.randrange(len(stmts))
    r = rng.random()
    if r < 0.4:
        stmts[k] = pc.mutate(rng, stmts[k])
    elif r < 0.7:
        i = rng.randint(0, len(stmts[k]))
        stmts[k] = stmts[k][:i] + rng.choice(STRAY) + stmts[k][i:]
    elif r < 0.85:
        stmts[k] = stmts[k][:rng.randint(0, len(stmts[k]))]
    else:
        stmts[k] = pc.gen_soup(rng)
    text = rng.choice(["", "", "\n", "\r\n\r\n", " \n"])
    for s in stmts:
        text += s + rng.choice(nl)
    if rng.random() < 0.3:
        text = text.rstrip("\n\r")
    return text


CORNERS = [
    "", " ", "\n", "\r", "\r\n", "\t\n ", "\xa0", " ", "\U0001F600", "a", "a\n", "a\n\n", "\na", "a\r\nb\r\n(",
    "(", ")", "{", "}", "'", '"', ",", "=", ":=", ":", "/", "%", "*", "\\", "a\\", "'a", "'a\\", "'a\\'", "\"a\nb\"",
    "{1", "{1 ", "{1 g", "{1 g ", "{1 g}", "{1 g} ", "{1 g} of", "{1 g} of ", "{1 g} of the", "{1 g}of x", "{a", "{a\\", "{a{",
    "1", "1 ", "1/", "1/ ", "1/0", "1/0 x", "1 /", "1 1", "1 1/", "1 1/0", "1 1/00 x", "1.", "1. ", "1.5", "1 %", "1 % ", "1 % of",
    "1 % of ", "1 *", "1 * ", "1 of", "1 of ", "1 of the", "1 of the ", "1 g", "1 g ", "1 g of", "1 g of ", "1 kg of the",
    "rest", "rest ", "rest of", "rest of ", "rest of the", "restx", "remaining", "left over", "left  over ", "leftover of",
    "a(", "a( ", "a(b", "a(b ", "a(b,", "a(b, ", "a(b,)", "a(b,,)", "a(b c", "a(b)(", "a(b))", "a(b) c", "a (", "a\n(", "(a",
    "(a,", "(a, ", "(a, b", "(a, b)", "(a, b),", "(a, b), ", "(a,)", "((a)", "((a)))", "()", "( )", "a()", "a( )", "a(,)",
    "a =", "a = ", "a :=", "a :", "a : =", "a ==", "a = = b", "a = b =", "a = b = c", "a, =", "a, b", "a, b =", "a , b := ",
    "= a", ":= a", ", a", "a,", "a, ", "a,,b", "a\n,b", "a,\nb", "a\nb\n(", "a\nb\n)", "a\n\n\n)", "a\r\r\r)", "a\r\n\r\n)",
    "a )", "a \n)", "a\x0b)", "a\x0b\n)", "a\x0c\n)", "a\x1c)", "a\x85)", "a\n\x85)", "a\n\xa0)", "\xa0\n)",
    "a\n  b\n    )", "a \t", "a \t\n \t", "a \tb", "a 'b", "a 'b'", "a 'b' c'", "a {1", "a {1}", "a {1} {", "a{", "a}", "a{}",
    "a{}}", "{}", "{}}", "{{}", "{1/0}", "{1/0", "{a 1/0", "{a 1/", "{a 1 1/", "{1 1/0 x", "x {1/0} (",
    "1/2 of", "1/2 of the x(", "50%", "50% of", "50%of", "50 % of the x (", "2 tea", "2 tea ", "2 tea spoon", "2 tea spoon ",
    "2 tea spoons of", "2 fl oz", "2 fl", "2 fl ", "2 fl. oz x(", "\U0001F600(", "a\U0001F600)", "\U0001F600\n\U0001F600)",
    "x = 1 egg\nx = 2", "x = 1 egg\r\nx = 2", "x = 1 egg\rx = 2", "x\n\ny = (", "sauce := mix(1, 2)", "a(b\n\n,\n\nc\n\n",
    "fry(1/2 of the sauce, {a {4} b}), season\nboil(", "a\\b", "a\\", "'\\", "'\\\n'", "'a\nb'", "{a\nb}",
]

# ------------------------------------------------------------------ comparison and statistics


def char_class(text, off):
    if off >= len(text):
        return "<end of text>"
    c = text[off]
    if c in "\r\n":
        return "newline"
    if c in " \t":
        return "hsp"
    if c.isspace():
        return "other \\s"
    if c in "0123456789":
        return "digit"
    if c in "\"',:=/(){}":
        return "special %s" % c
    if c in "%*\\":
        return "char %s" % c
    if ord(c) > 0xFFFF:
        return "non-BMP"
    if ord(c) > 127:
        return "non-ASCII " + unicodedata.category(c)
    if c.isalpha():
        return "letter"
    return "other ASCII"


def main(argv=None):
    ap = argparse.ArgumentParser()
    ap.add_argument("--seed", type=int, default=0)
    ap.add_argument("--scale", type=float, default=1.0)
    ap.add_argument("--show", type=int, default=20)
    args = ap.parse_args(argv)
    sys.setrecursionlimit(1000)
    rng = random.Random(args.seed)

    def n(x):
        return max(1, int(x * args.scale))

    valid, invalid, decimals = pc.test_suite_cases()
    groups = [
        ("tests-invalid", invalid),
        ("tests-valid", valid + decimals),
        ("tests-valid-truncated", [t[:i] for t in valid for i in range(len(t))]),
        ("tests-valid-mutated", [pc.mutate(rng, t) for t in valid for _ in range(3)]),
        ("corners", CORNERS + pc.EDGE_CASES),
        ("truncated", gen_truncations(rng, n(60))),
        ("mutated", [pc.gen_mutated(rng) for _ in range(n(4000))]),
        ("stray", [gen_stray(rng) for _ in range(n(3000))]),
        ("multiline", [gen_multiline(rng) for _ in range(n(4000))]),
        ("token-soup", [pc.gen_soup(rng) for _ in range(n(3000))]),
        ("char-soup", [gen_charsoup(rng) for _ in range(n(4000))]),
        ("structured", [pc.gen_structured(rng) for _ in range(n(1500))]),
    ]

    total_bad = 0
    failing = set()
    classes, where, lines, expectations, cols = Counter(), Counter(), Counter(), Counter(), Counter()
    for name, texts in groups:
        reals = [real(t) for t in texts]
        keep = [i for i, r in enumerate(reals) if r[0] != "skip"]
        models = model_all([texts[i] for i in keep])
        st, bad = Counter(), []
        st["skipped"] = len(texts) - len(keep)
        for i, m in zip(keep, models):
            r, t = reals[i], texts[i]
            st[r[0]] += 1
            if r[0] == "ok":
                if m != ("ok",):
                    bad.append((t, r, m))
                continue
            if m != r[:5]:
                bad.append((t, r, m))
            # the offset must be what line and column are computed from
            if t not in failing:
                failing.add(t)
                off = r[1]
                classes[char_class(t, off)] += 1
                where["start" if off == 0 else "end-of-text" if off >= len(t) else "middle"] += 1
                lines["line 1" if r[2] == 1 else "line 2" if r[2] == 2 else "line 3+"] += 1
                cols["column 1" if r[3] == 1 else "column > 1"] += 1
                expectations[r[5]] += 1
        total_bad += len(bad)
        print("%-22s n=%-6d ok=%-6d syntax=%-6d skipped=%-3d disagreements=%d"
              % (name, len(texts), st["ok"], st["syntax"], st["skipped"], len(bad)))
        for t, r, m in bad[: args.show]:
            print("  DISAGREE %r\n    real  %r\n    model %r" % (t, r, m))

    # ---- padding (C19): the real parser on "\n" * k + text, against the model on the same text, and against the
    # real result for the text alone shifted by k lines (the statement of `padded_syntax_error_line`)
    sample = sorted(failing)
    rng.shuffle(sample)
    sample = [t for t in sample if t][: n(1500)]
    padded, shifted_bad = [], []
    for t in sample:
        k = rng.choice([1, 1, 2, 3, 7])
        padded.append((k, t, "\n" * k + t))
    reals = [real(p) for _k, _t, p in padded]
    models = model_all([p for _k, _t, p in padded])
    bad = []
    for (k, t, p), r, m in zip(padded, reals, models):
        if r[0] == "skip":
            continue
        if (r[0] == "ok" and m != ("ok",)) or (r[0] == "syntax" and m != r[:5]):
            bad.append((p, r, m))
        r0 = real(t)
        if r0[0] == "syntax" and r[:5] != ("syntax", r0[1] + k, r0[2] + k, r0[3], r0[4]):
            shifted_bad.append((k, t, r0[:5], r[:5]))
    total_bad += len(bad) + len(shifted_bad)
    print("%-22s n=%-6d disagreements=%d   real(pad k t) != shift k real(t): %d"
          % ("padded", len(padded), len(bad), len(shifted_bad)))
    for t, r, m in bad[: args.show]:
        print("  DISAGREE %r\n    real  %r\n    model %r" % (t, r, m))
    for k, t, r0, r in shifted_bad[: args.show]:
        print("  NOT SHIFTED k=%d %r\n    alone  %r\n    padded %r" % (k, t, r0, r))

    print()
    print("distinct failing inputs: %d" % len(failing))
    print("offset position:", dict(where))
    print("reported line:", dict(lines), " column:", dict(cols))
    print("character at the error offset:")
    for k, v in classes.most_common():
        print("   %-28s %d" % (k, v))
    print("distinct failure situations (sets of expressions peggie expected at the offset): %d" % len(expectations))
    for k, v in expectations.most_common(40):
        print("   %6d  %s" % (v, ", ".join(k)))
    print("TOTAL disagreements: %d" % total_bad)
    return 1 if total_bad else 0


if __name__ == "__main__":
    sys.exit(main())
