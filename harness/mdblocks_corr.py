#!/venv/bin/python
"""Correspondence for task L3: marko's code blocks (kind+lang, pos, captured source) and the padded source that
recipe_grid/markdown.py builds from them, against the Lean model `scanBlocks` / `paddedSource` (requests `md-blocks`, `md-indoc`).

    /venv/bin/python /tmp/lw/L3/corr_L3.py [seed] [n_structured] [n_soup]

Exit status 1 on any disagreement on a document the model accepts as a member of the sub-language D (`md-indoc` = T), or when a
document of the boundary probe is accepted.  Documents outside D are compared too, for information only (no claim)."""
import os
import random
import subprocess
import sys
from collections import Counter

HERE = os.path.dirname(os.path.dirname(os.path.abspath(__file__)))
if __name__ == "__main__":
    sys.path.insert(0, HERE)

from harness import sexp, gen_md  # noqa: E402
from marko import Markdown  # noqa: E402
from peggie.error_message_generation import offset_to_line_and_column  # noqa: E402
from recipe_grid import markdown as M  # noqa: E402

DRIVER = os.path.join(HERE, "lean", ".lake", "build", "bin", "driver")


# ------------------------------------------------------------------ the real code
def real_blocks(text):
    """every code block marko finds (any depth): (kind, lang, pos, source, depth), document order"""
    md = Markdown(extensions=[M.RecipeGrid])
    doc = md.parse(text)
    out = []

    def walk(el, depth):
        ch = getattr(el, "children", None)
        if not isinstance(ch, list):
            return
        for c in ch:
            name = type(c).__name__
            if name == "CodeBlock":
                out.append(("indented", None, c.pos, c.children[0].children, depth))
            elif name == "FencedCode":
                out.append(("fenced", c.lang, c.pos, c.children[0].children, depth))
            else:
                walk(c, depth + 1)

    walk(doc, 0)
    return out, [type(c).__name__ for c in doc.children]


def real_view(text):
    """what is compared: per block (kind, lang, pos, source, padded source as markdown.py builds it)"""
    blocks, top = real_blocks(text)
    view = []
    for kind, lang, pos, src, depth in blocks:
        rsb = M.RecipeSourceBlock(source=src, pos=pos, in_fenced_block=(kind == "fenced"), start_of_new_recipe=(lang == "new-recipe"))
        view.append((kind, lang, pos, src, rsb.get_line_number_corrected_source(text)))
    return view, any(d > 0 for *_, d in blocks), top


def pipeline_recipe_blocks(text):
    """the recipe blocks as the real pipeline (compile_markdown) hands them to the compiler: through harness/gen_md's observation"""
    _, events = gen_md.observe(text)
    return [(e[1], e[2], e[3], e[4]) for e in events if e[0] == "recipe-block"]


def norm(text):
    return text.replace("\r\n", "\n").replace("\r", "\n")


def line_property(text, view):
    """the statement of `scan_block_lines`, on the real outputs: every line of the padded source after the padding is the document line of
    the same number with at most `indent` leading spaces removed (one extra empty line at the very end is tolerated)"""
    doc_lines = norm(text).splitlines()
    bad = []
    for kind, lang, pos, src, padded in view:
        k = offset_to_line_and_column(norm(text), pos)[0] - 1 + (1 if kind == "fenced" else 0)
        plines = padded.splitlines()
        if plines[:k] != [""] * k:
            bad.append(("padding", pos))
            continue
        for j, s in enumerate(plines[k:]):
            ln = k + j
            if ln >= len(doc_lines):
                if not (s == "" and ln == len(doc_lines) and j == len(plines) - k - 1):
                    bad.append(("beyond", pos, j))
                continue
            d = doc_lines[ln]
            ok = any(d[:p] == " " * p and d[p:] == s for p in range(0, 5))
            if not ok:
                bad.append(("line", pos, j, s, d))
    return bad


# ------------------------------------------------------------------ the model
def ask(requests):
    data = "\n".join(requests) + "\n"
    p = subprocess.run([DRIVER], input=data, stdout=subprocess.PIPE, stderr=subprocess.PIPE, text=True, timeout=3600)
    lines = p.stdout.splitlines()
    if p.returncode != 0 or len(lines) != len(requests):
        raise RuntimeError("driver failed rc=%s replies=%d/%d %s" % (p.returncode, len(lines), len(requests), p.stderr[-400:]))
    return [sexp.decode(sexp.parse(l)) for l in lines]


def model_view(reply):
    out = []
    for kind, pos, start, src, padded in reply:
        if kind == "indented":
            out.append(("indented", None, pos, src, padded, start))
        else:
            lang = kind[1] if not isinstance(kind[1], tuple) else ""
            out.append(("fenced", lang, pos, src, padded, start))
    return out


def fix_str(x):
    # sexp.decode turns the empty string `(s)` into "" already; an empty tuple would be ()
    return "" if x == () else x


# ------------------------------------------------------------------ generation
WORDS = ["Stew", "for", "2", "mix", "the", "eggs,", "and", "{4}", "{1/2}", "cup", "of", "milk.", "a>b", "x<y", "50%", "#tag", "*em*", "`code`", "_u_",
         "[link](u)", "-", "+", "1.", "~", "``", "=", "é", "日本", "\\#", "&amp;", "|", "(a)", "\"q\"", "it's", "3)", "`", "~~~", "```", "#", ">", "\U0001F372", "a\u0301"]
STMTS = ["x = 1 egg", "y = fry(2 g butter, x)", "mix(1 cup flour, {2} eggs)", "sauce := boil(3 tomatoes)", "1/2 of the sauce", "serve(x, y)",
         "x = 2 eggs", "fry(1 g x)) oops", "# comment?", "a, b = split(c)", "{a {4} b}", "'quoted string'", "~~~", "```", "``", "~~", "````", "~~~~ ",
         "> quote", "- item", "1. one", "<div>", "[x]: y", "***", "===", "---", "    deep", "\\", "#", "café 日本", "\U0001F372 stew = boil(1 \U0001F345)"]
LANGS = ["recipe", "new-recipe", "python", "", "RECIPE", "recipe extra", "recipe  two  words", "new\\-recipe", "rec\\ipe", "recipe\\", "{recipe}", "new-recipe x~y",
         "~recipe", "recipe~~~"]
PLAIN_FIRST = ["#hashtag here", "####### seven hashes", "``` a`b", "`` two ticks", "~~ two tildes", "[link](u) starts the line", "[x] not a def", "[[wiki]] link",
               "a > b", "1986 was a year", "-dash", "+1 for this", "*emph* text", "_under_ score", "==x", "\\# not a heading", "\\> not a quote", "1.5 litres",
               "2) not", "{4} eggs", "#", "x", "﻿bom inside", "http://example.com", "`code` first", "\\[x]: y", "(1) one", "a\\", "~~~x~~~y", "*", "-x", "= x"]
EXOTIC = ["\x0c", "\x0b", "\x1c", "\x85", "\xa0", " ", " ", "　", "\r"]


class G:
    def __init__(self, rng, exotic=False):
        self.rng = rng
        self.lines = []          # line texts without terminator
        self.exotic = exotic
        self.feat = Counter()

    def words(self, lo=1, hi=6):
        r = self.rng
        ws = [r.choice(WORDS) for _ in range(r.randint(lo, hi))]
        # the first word must keep the line plain
        while ws[0] in ("-", "+", "1.", "3)", "~~~", "```", "#", ">", "=", "[link](u)"):
            ws[0] = r.choice(["Take", "Mix", "x", "{4}", "*em*", "`code`", "#tag", "\\#"])
        s = " ".join(ws)
        if self.exotic and r.random() < 0.3:
            i = r.randrange(len(s) + 1)
            s = s[:i] + r.choice(EXOTIC) + s[i:]
        return s + r.choice(["", "", "", " ", "  ", "   "])

    def heading(self):
        r = self.rng
        self.feat["heading"] += 1
        h = "#" * r.randint(1, 6)
        form = r.random()
        if form < 0.1:
            t = h
        elif form < 0.2:
            t = h + " " + r.choice(["#", "##  ", ""])
        else:
            t = h + r.choice([" ", " ", "  "]) + self.words(1, 4) + r.choice(["", " #", " ##  "])
        self.lines.append(" " * r.choice([0, 0, 0, 1, 2, 3]) + t)

    def para(self):
        r = self.rng
        self.feat["para"] += 1
        n = r.randint(1, 3)
        for i in range(n):
            ind = r.choice([0, 0, 0, 1, 2, 3])
            if i == 0 and r.random() < 0.3:
                self.lines.append(" " * ind + r.choice(PLAIN_FIRST))
            elif i > 0 and r.random() < 0.3:
                # lazy continuation: an indented line inside a paragraph is not code
                self.feat["lazy"] += 1
                self.lines.append(" " * r.randint(4, 7) + r.choice(STMTS + [self.words()]))
            else:
                self.lines.append(" " * ind + self.words())

    def blanks(self, lo=1):
        r = self.rng
        for _ in range(r.choice([lo, 1, 1, 2, 3])):
            b = r.choice(["", "", "", " ", "  ", "   ", "    ", "      "])
            if self.exotic and r.random() < 0.2:
                b += r.choice(EXOTIC)
            self.lines.append(b)

    def content_line(self, fence_ch, fence_len, indent):
        r = self.rng
        x = r.random()
        if x < 0.12:
            return r.choice(["", "", " ", "  ", "   ", "     "])
        if x < 0.2:
            other = "~" if fence_ch == "`" else "`"
            return " " * r.randint(0, 4) + other * r.randint(1, 5) + r.choice(["", " ", "x"])
        if x < 0.3:
            # shorter run of the same character, or a full one that is not a closing fence
            return r.choice([" " * r.randint(0, 3) + fence_ch * r.randint(1, fence_len - 1),
                             " " * r.randint(4, 6) + fence_ch * fence_len,
                             " " * r.randint(0, 3) + fence_ch * fence_len + " x",
                             fence_ch * fence_len + r.choice(LANGS[:3])])
        s = " " * r.choice([0, 0, indent, indent, 1, 2, 3, 4, 6]) + r.choice(STMTS) + r.choice(["", "", " ", "  "])
        if self.exotic and r.random() < 0.25:
            i = r.randrange(len(s) + 1)
            s = s[:i] + r.choice(EXOTIC) + s[i:]
        return s

    def fenced(self, terminate=True):
        r = self.rng
        ch = r.choice("`~")
        n = r.choice([3, 3, 3, 4, 5])
        ind = r.choice([0, 0, 0, 1, 2, 3])
        lang = r.choice(LANGS)
        if ch == "`":
            lang = lang.replace("`", "")
        self.feat["fence%s%d/indent%d" % (ch, n, ind)] += 1
        opening = " " * ind + ch * n + r.choice(["", "", " ", "  "]) + lang + r.choice(["", "", " ", "  "])
        if self.exotic and r.random() < 0.2:
            i = r.randrange(ind + n, len(opening) + 1)
            opening = opening[:i] + r.choice(EXOTIC) + opening[i:]
        self.lines.append(opening)
        for _ in range(r.choice([0, 1, 2, 3, 4, 6])):
            self.lines.append(self.content_line(ch, n, ind))
        if terminate:
            close = " " * r.randint(0, 3) + ch * (n + r.choice([0, 0, 0, 1, 2])) + r.choice(["", "", " ", "   "])
            if self.exotic and r.random() < 0.2:
                close += r.choice(EXOTIC)
            self.lines.append(close)
        else:
            self.feat["unterminated"] += 1

    def indented(self):
        r = self.rng
        self.feat["indented"] += 1
        n = r.randint(1, 4)
        for i in range(n):
            s = " " * r.choice([4, 4, 4, 5, 6, 8]) + r.choice(STMTS) + r.choice(["", "", " ", "  "])
            if self.exotic and r.random() < 0.25:
                j = r.randrange(4, len(s) + 1)
                s = s[:j] + r.choice(EXOTIC) + s[j:]
            self.lines.append(s)
            if i + 1 < n and r.random() < 0.4:
                self.feat["interior-blank"] += 1
                self.blanks()

    def doc(self):
        r = self.rng
        if r.random() < 0.03:
            return
        prev = "start"
        for _ in range(r.randint(1, 9)):
            kinds = ["heading", "para", "blanks", "fenced", "fenced", "indented", "indented"]
            k = r.choice(kinds)
            if k == "indented" and prev == "para" and r.random() < 0.7:
                self.blanks()
            if k == "heading":
                self.heading()
            elif k == "para":
                self.para()
            elif k == "blanks":
                self.blanks()
            elif k == "fenced":
                self.fenced()
            else:
                self.indented()
            prev = k
            if r.random() < 0.5:
                self.blanks()
                prev = "blanks"
        if r.random() < 0.15:
            self.fenced(terminate=False)

    def text(self):
        r = self.rng
        mode = r.choice(["lf", "lf", "crlf", "crlf", "mixed", "mixed", "cr-mixed"])
        out = []
        for l in self.lines:
            if mode == "lf":
                e = "\n"
            elif mode == "crlf":
                e = "\r\n"
            elif mode == "mixed":
                e = r.choice(["\n", "\r\n"])
            else:
                e = r.choice(["\n", "\r\n", "\r\n", "\r", "\r\r\n"])
            out.append(l + e)
        t = "".join(out)
        final = True
        if t and r.random() < 0.2:
            # no final newline
            t = t[:-2] if t.endswith("\r\n") else t[:-1]
            final = False
        bom = False
        if r.random() < 0.08:
            t = "﻿" + t
            bom = True
        return t, mode, final, bom


SOUP = ([" "] * 14 + ["\n"] * 10 + ["`"] * 8 + ["~"] * 6 + ["#"] * 3 + ["a", "b", "x", "1", "=", "e"] * 2
        + ["\r", "\r", "\x0c", "\xa0", " ", "\\", "-", "[", "]", ":", ".", "recipe", "new-recipe", "    ", "   ", "```", "~~~", "\r\n", "*", "_", "+", "﻿"])
SOUP_OUT = SOUP + [">", "<", "\t", "- ", "1. ", "* * *", "[a]: b", "===", "---"]


LINE_POOL = ["", "", " ", "  ", "   ", "    ", "      ", "text", "text  ", " t1", "  t2", "   t3", "    code", "     code5", "      code6  ", "```", "```recipe", "~~~", "~~~~",
             "````", "  ```", "   ~~~ new-recipe", "    ```", "    ~~~", "# H", "#", "###### h6", "####### h7", "   # H3", "    # H4", " ```` x", "``", "~~", "~~~ `", "``` `",
             "\\```", "  ~~~~~  ", "```  ", "~~~recipe x", "`````", "~~~~~~", " ~~~", "  ```", "   ```", "```x", "~~~x", "#x", "# ", "#\xa0x", "a\rb", "\r", "    \r", "x\x0c",
             "\x0c", "  \xa0", "    \x0c", "    x\ry", "```recipe\r", "``` \x0crecipe", "=", "==", "a=", "-x", "+x", "*x", "1.x", "[x]", "[x](y)", "\ufeff", "\ufeff```", "x```", "x ~~~",
             "    x = 1", "  y = 2", " z", "{4} eggs", "\\", "```new\\-recipe", "~~~ new-recipe   ", "~~~NEW-RECIPE"]


def line_soup(rng):
    out = []
    for _ in range(rng.randint(1, 10)):
        out.append(rng.choice(LINE_POOL) + rng.choice(["\n", "\n", "\n", "\r\n", "\r\n", "\r", "\r\r\n"]))
    t = "".join(out)
    if rng.random() < 0.25:
        t = t[:-1]
    return t


def soup(rng, alphabet):
    return "".join(rng.choice(alphabet) for _ in range(rng.randint(0, 60)))


EXDOC = ("# Stew for 2\r\n\r\nMix {4} eggs,\r\n    then rest.\r\n\r\n  ```recipe\r\n  x = 1 egg\r\n    y = fry(x)\r\n \r\n  ```\r\n\r\n    z = 2 eggs\r\n\r\n"
         "      w = boil(z)\r\n\r\n~~~~new-recipe extra\r\nv = 3 eggs\r\n~~~\r\n~~~~\r\nDone.\r\n")   # the example of Props/C19d.lean

CORNERS = [
    # list markers with non-ASCII decimal digits (marko's \d is Unicode): outside D, the model must say so
    "\u0661. a\n\n       code\n", "\uff11. a\n\n       code\n", "\u0663) x\n\n    y = 1 egg\n",
    EXDOC, "```RECIPE\nx\n```\n```recipe\ny\n```\n~~~new\\-recipe\nz\n~~~\n    w\n",
    "", "\n", " ", "    ", "    \n", "\r", "\r\n", "\r\r\n", "﻿", "```", "~~~", "```\n", "```recipe", "```recipe\n```", "```recipe\n```\n",
    "    x", "    x\n", "    x\n    ", "    x\n      ", "    x\n  ", "    x\n\n\n", "    x\n\n    y\n", "    x\n \n    y\n", "    x\n      \n    y\n",
    "# T\n    code\n", "para\n    lazy\n\n    code\n", "    x\r", "    x\r    y\r", "    x\r\r\n    y\r\n", "```recipe\r\r\nx\n```\n", "```recipe\rx\n```\n",
    "  ```recipe\n   a\n b\n\n \n  ```\n", "  ```recipe\n \x0c\nb\n  ```\n", "   ~~~recipe\n  ", "   ~~~recipe\n  \n", "   ~~~recipe\n   ", "   ~~~recipe\n    ",
    "```new\\-recipe extra\nx\n``\n~~~\n````  \n", "``` a`b\nfoo\n", "~~~ a`b~\nfoo\n~~~", "﻿```recipe\nx\n```\n", "####### x\n    code\n", "#\n    code\n",
    "#x\n    code\n", "# T #\n    code", "   # T\n    code", "    # T\n", "text\n```recipe\nx\n```\nmore\n    lazy\n", "text\n# H\n    code\n",
    "```recipe\nx\n~~~\n```\n    code\n", "~~~~new-recipe\nx\n~~~\n~~~~~\n", "```\n```\n```\n```\n", "``` recipe \n x\n```   \n", "```recipe\n    ```\n```\n",
    "    a\n\n\n# h\n", "    a\n    \n    \n", "    a\n     \n     \n", "    a\n\x0c\n    b\n", "    a\n    \x0c\n    b\n", "  \x0c\n    a\n", "\x0c    a\n    b\n",
    "Title\r\n=====\r\n", "```recipe\nx = 1 egg\nx = 2 eggs\n```\n", "\r\r\n    x\n", "a\r    x\n\n    y\n", "```\x0crecipe\nx\n```\n", "```recipe \xa0\nx\n```\n",
    "```\xa0recipe\nx\n```", "~~~recipe x\ny\n~~~\n", " ```recipe\n\r\nx\n ```", "    x\n\r\n    y\n", "```recipe\nx\r\n\ry\n```\n",
]

BOUNDARY = [
    ("quote", "> quoted\n"), ("quote-code", ">     code\n"), ("list-dash", "- item\n\n      code\n"), ("list-num", "1. item\n"), ("list-paren", "2) item\n"),
    ("list-plus", "+ item\n"), ("list-star", "* item\n"), ("tab", "\tcode\n"), ("tab-in-fence", "```recipe\n\tx\n```\n"), ("tab-text", "a\tb\n"), ("html", "<div>\n    x\n</div>\n"),
    ("html-comment", "<!-- c -->\n"), ("thematic", "***\n"), ("thematic-dash", "- - -\n"), ("thematic-us", "___\n"), ("setext", "Title\n=====\n"), ("setext-dash", "Title\n---\n"),
    ("linkref", "[x]: /url\n"), ("linkref-2", "[x\ny]: /url\n"), ("quote-in-para", "text\n> q\n"), ("list-in-para", "text\n- item\n"), ("html-in-para", "text\n<div>\n"),
    ("fence-info-ff", "```recipe\x0c\nx\n```\n"), ("fence-info-cr", "```recipe\r\r\nx\n```\n"), ("fence-body-ws", "  ```recipe\n \x0cx\n  ```\n"),
    ("code-blank-ws", "    x\n \x0c\n    y\n"), ("code-blank-cr", "    x\n\r\r\n    y\n"), ("empty-list", "-\n"), ("autolink", "<http://x.y>\n"),
]


def collect(seed, n_struct, n_soup, ask=None):
    """run the correspondence; returns a dict (disagreements, prop_fail, dist, feat, counts ...) - used by ./check C19 and by main()"""
    ask = ask or globals()["ask"]
    rng = random.Random(seed)
    docs = []   # (group, text, meta)
    for i in range(n_struct):
        g = G(rng, exotic=(i % 5 == 4))
        g.doc()
        t, mode, final, bom = g.text()
        docs.append(("structured-exotic" if g.exotic else "structured", t, dict(mode=mode, final=final, bom=bom, feat=g.feat)))
    for i in range(n_soup):
        docs.append(("soup", soup(rng, SOUP), {}))
    for i in range(n_soup // 3):
        docs.append(("soup-outside", soup(rng, SOUP_OUT), {}))
    for i in range(n_soup):
        docs.append(("line-soup", line_soup(rng), {}))
    for t in CORNERS:
        docs.append(("corner", t, {}))
    for name, t in BOUNDARY:
        docs.append(("boundary", t, dict(name=name)))

    # distinct documents only
    seen, uniq = set(), []
    for d in docs:
        if d[1] not in seen or d[0] == "boundary":
            seen.add(d[1])
            uniq.append(d)
    docs = uniq

    reqs = []
    for _, t, _ in docs:
        reqs.append(sexp.tag("md-blocks", sexp.s(t)))
        reqs.append(sexp.tag("md-indoc", sexp.s(t)))
    replies = ask(reqs)

    dist = Counter()
    feat = Counter()
    disagreements = []
    outside_disagree = Counter()
    prop_fail = []
    boundary_rows = []
    in_d_by_group = Counter()
    total_by_group = Counter()
    outside_examples = {}
    crashes = []
    for i, (group, t, meta) in enumerate(docs):
        mblocks = model_view(replies[2 * i])
        ind = replies[2 * i + 1]
        total_by_group[group] += 1
        try:
            rview, nested, top = real_view(t)
        except Exception as e:  # marko itself fails on some documents with lists (outside D)
            crashes.append((group, t, repr(e), ind))
            if ind:
                disagreements.append(("marko-raised-in-D", t, repr(e), None))
            if group == "boundary":
                boundary_rows.append((meta["name"], ind, "marko raised"))
            continue
        # the blocks the pipeline compiles are the recipe blocks among them
        pipe = pipeline_recipe_blocks(t)
        expect_pipe = [(k, l, p, s) for (k, l, p, s, _) in rview if k == "indented" or l in ("recipe", "new-recipe")]
        if [(k, (None if k == "indented" else l), p, s) for (k, l, p, s) in pipe] != [(k, (None if k == "indented" else l), p, s) for (k, l, p, s) in expect_pipe]:
            disagreements.append(("pipeline-vs-parse", t, pipe, expect_pipe))
        m_cmp = [(k, l, p, fix_str(s), fix_str(pd)) for (k, l, p, s, pd, _) in mblocks]
        r_cmp = [(k, l, p, s, pd) for (k, l, p, s, pd) in rview]
        agree = (m_cmp == r_cmp)
        if group == "boundary":
            boundary_rows.append((meta["name"], ind, agree))
            if ind:
                disagreements.append(("boundary-accepted", t, None, None))
            continue
        if not ind:
            dist["outside-D/" + group] += 1
            if not agree:
                outside_disagree[group] += 1
                outside_examples.setdefault(group, t)
            continue
        in_d_by_group[group] += 1
        if nested:
            disagreements.append(("nested-block-in-D", t, r_cmp, m_cmp))
        if not agree:
            disagreements.append(("blocks", t, r_cmp, m_cmp))
            continue
        # startLine of the model = padding + 1
        for (k, l, p, s, pd, start), (_, _, _, _, rpd) in zip(mblocks, rview):
            pad = offset_to_line_and_column(norm(t), p)[0] - 1 + (1 if k == "fenced" else 0)
            if start != pad + 1:
                disagreements.append(("startLine", t, pad + 1, start))
        bad = line_property(t, rview)
        if bad:
            prop_fail.append((t, bad))
        # distribution
        dist["blocks/doc=%d" % min(len(rview), 6)] += 1
        for (k, l, p, s, pd) in rview:
            dist["kind=" + (k if k == "indented" else "fenced:" + (l if l in ("recipe", "new-recipe", "python", "", "RECIPE") else "other"))] += 1
            dist["source-lines=%d" % min(len(s.splitlines()), 6)] += 1
        if meta.get("mode"):
            dist["endings=" + meta["mode"]] += 1
            dist["final-newline=%s" % meta["final"]] += 1
            if meta["bom"]:
                dist["bom"] += 1
            feat.update(meta["feat"])
        for name in set(top):
            dist["top-level:" + name] += 1

    return dict(docs=len(docs), total_by_group=total_by_group, in_d_by_group=in_d_by_group, dist=dist, feat=feat, outside_disagree=outside_disagree,
                outside_examples=outside_examples, crashes=crashes, boundary_rows=boundary_rows, prop_fail=prop_fail, disagreements=disagreements)


def main():
    seed = int(sys.argv[1]) if len(sys.argv) > 1 else 20260930
    n_struct = int(sys.argv[2]) if len(sys.argv) > 2 else 4000
    n_soup = int(sys.argv[3]) if len(sys.argv) > 3 else 3000
    r = collect(seed, n_struct, n_soup)
    docs = range(r["docs"])
    total_by_group, in_d_by_group, dist, feat = r["total_by_group"], r["in_d_by_group"], r["dist"], r["feat"]
    outside_disagree, outside_examples, crashes, boundary_rows = r["outside_disagree"], r["outside_examples"], r["crashes"], r["boundary_rows"]
    prop_fail, disagreements = r["prop_fail"], r["disagreements"]
    print("documents (distinct): %d" % len(docs))
    for g in sorted(total_by_group):
        print("  %-18s %5d   accepted by md-indoc: %5d" % (g, total_by_group[g], in_d_by_group[g]))
    print("distribution over the accepted documents:")
    for k in sorted(dist):
        print("  %-40s %d" % (k, dist[k]))
    print("generator features (accepted structured documents):")
    for k in sorted(feat):
        print("  %-40s %d" % (k, feat[k]))
    print("outside D, model and marko differ (no claim): %s" % dict(outside_disagree))
    for g, t in outside_examples.items():
        print("   e.g. %s: %r" % (g, t))
    print("marko raised an exception on %d documents (all outside D: %s)" % (len(crashes), all(not c[3] for c in crashes)))
    for c in crashes[:3]:
        print("   e.g. %r -> %s" % (c[1], c[2]))
    print("boundary probe (name, md-indoc, model agrees with marko anyway):")
    for row in boundary_rows:
        print("  %-16s indoc=%s agree=%s" % row)
    print("line property (padded line = document line minus <=4 spaces) violated on accepted documents: %d" % len(prop_fail))
    for t, bad in prop_fail[:10]:
        print("   %r -> %r" % (t, bad[:2]))
    print("DISAGREEMENTS: %d" % len(disagreements))
    for d in disagreements[:25]:
        print("  %s\n    doc   = %r\n    real  = %r\n    model = %r" % d)
    sys.exit(1 if disagreements or prop_fail else 0)


if __name__ == "__main__":
    main()
