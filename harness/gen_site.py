"""Source trees for the static site generator: abstract description, writer, real generation, page parsing."""
import os
import posixpath
import shutil
import tempfile
from html.parser import HTMLParser
from pathlib import Path
from urllib.parse import quote, unquote, urlsplit

from . import sexp

SAFE_NAMES = ["pasta", "a b", "Mains", "é", "x_y", "q", "myDir", "BIG_NAME", "ça va", "日本", "side-dish", "v2"]
URL_NAMES = ["a#b", "what?", "50%25", "r&b", "it's", "say \"hi\"", "100%", "sides:cold", "a;b=c", "x+y", "q@home"]


def scratch_root():
    """scratch space outside /repo and /verif; removed by the caller"""
    return Path(tempfile.mkdtemp(prefix="rgverif-site-"))


def gen_tree(rng, depth, names, url_names=False, p_readme=0.4, servings_pool=(None, 1, 2, 3), top=True, counter=None):
    counter = counter if counter is not None else [0]
    pool = names + (URL_NAMES if url_names else [])
    counter[0] += 1
    d = dict(name=rng.choice(pool) + str(counter[0]), readme=None, recipes=[], subdirs=[], assets=[])
    if rng.random() < p_readme:
        d["readme"] = dict(file=rng.choice(["README.md", "index.md", "readme.md", "INDEX.md"]),
                           # (a readme is not a recipe: a title that ends like a serving phrase is just its title, whatever the count)
                           title=rng.choice(["Cat", "Ünï", "A & B", "Zed", "cat", "Lunch", "hot dish", "Meal plan week", "1 pot", "Party food for", "Buffet serves", "Snacks to serve"])
                           + rng.choice([" " + str(rng.randint(0, 9)), " " + str(rng.randint(0, 9)), "", " 20", " 12"]),
                           links=[], body=rng.choice(["hello", "hello", ""]))      # (now and then a readme that is its title and nothing else)
    for i in range(rng.randint(0, 3)):
        counter[0] += 1
        d["recipes"].append(dict(file=rng.choice(pool) + str(counter[0]) + rng.choice([".md", ".md", ".MD"]),
                                 title=rng.choice(["R a", "R b", "Same", "same", "Ünï R", "R & b"]) + rng.choice(["", "", " " + str(rng.randint(0, 9))]),
                                 servings=rng.choice(servings_pool), links=[]))
    if rng.random() < 0.3:
        counter[0] += 1
        d["assets"].append(dict(file=rng.choice(["img", "data set", "pic#1"] if url_names else ["img", "data set"]) + str(counter[0]) + rng.choice([".png", ".txt", ".bin", ".html", ".svg"]),
                                data=bytes(rng.randrange(256) for _ in range(rng.randint(0, 64)))))
    if depth > 0:
        for i in range(rng.randint(0, 3)):
            d["subdirs"].append(gen_tree(rng, depth - 1, names, url_names, p_readme, servings_pool, False, counter))
    # the same recipe file name in two directories (with different titles / serving counts)
    if d["recipes"] and d["subdirs"] and rng.random() < 0.3:
        r = d["recipes"][0]
        sub = rng.choice(d["subdirs"])
        if all(x["file"] != r["file"] for x in sub["recipes"]):
            sub["recipes"].append(dict(file=r["file"], title="Namesake " + str(counter[0]), servings=rng.choice(servings_pool), links=[]))
    return d


def link_md(lab, url):
    """one authored link. The first letter of the label says how it is written: L Markdown link, I Markdown image,
    H raw HTML anchor and J raw HTML image with upper-case tag and attribute names"""
    if lab.startswith("I"):
        return "![%s](%s)" % (lab, url)
    if lab.startswith("H"):
        return '<A HREF="%s">%s</A>' % (url.replace("&", "&amp;").replace('"', "&quot;"), lab)
    if lab.startswith("J"):
        return '<IMG SRC="%s" ALT="%s">' % (url.replace("&", "&amp;").replace('"', "&quot;"), lab)
    return "[%s](%s)" % (lab, url)


AUTHORED = ("L", "I", "H", "J")


SERVING_PHRASES = ["for", "for", "Serves", "FOR", "To Make", "serves", "to serve", "Makes", "TO SERVE"]


def recipe_text(r):
    # the serving phrase in one of its documented forms and letter cases (chosen by the recipe's own data: stable across rewrites)
    phrase = SERVING_PHRASES[(len(r["title"]) + len(r["file"]) + (r["servings"] or 0)) % len(SERVING_PHRASES)]
    t = r["title"] + (" %s %d" % (phrase, r["servings"]) if r["servings"] else "")
    # every kind of scalable number: prose, quantities, a number in the name of an ingredient without quantity, in a step, in the name of
    # a sub recipe that is used twice (shown in its title and in both references)
    body = ("# %s\n\nMix {2} things.\n\n    1 x\n    200 g y, chopped\n    eggs {4 large or 6 small}, {rest 10 min then crack}\n"
            "    tray {3} = line(paper)\n    fill(1/2 of tray {3}, rest of the tray {3})\n\n" % t)
    body += "\n\n".join(link_md(lab, url) for lab, url, _ in r["links"])
    return body + "\n"


def write_tree(d, path):
    path.mkdir(parents=True, exist_ok=True)
    if d["readme"] is not None:
        links = "\n\n".join(link_md(lab, url) for lab, url, _ in d["readme"]["links"])
        (path / d["readme"]["file"]).write_text("# %s\n\n%s\n\n%s\n" % (d["readme"]["title"], d["readme"].get("body", "hello"), links))
    for r in d["recipes"]:
        (path / r["file"]).write_text(r["raw"] if r.get("raw") is not None else recipe_text(r))
    for a in d["assets"]:
        (path / a["file"]).write_bytes(a["data"])
    for s in d["subdirs"]:
        write_tree(s, path / s["name"])


def listing_order(d, path):
    """reorder the abstract tree's entries the way Path.iterdir lists them now"""
    order = [p.name for p in path.iterdir()]
    key = {n: i for i, n in enumerate(order)}
    d["recipes"].sort(key=lambda r: key.get(r["file"], 1 << 30))
    d["subdirs"].sort(key=lambda s: key.get(s["name"], 1 << 30))
    for s in d["subdirs"]:
        listing_order(s, path / s["name"])


def tree_sexp(d):
    return sexp.tag("dir", sexp.s(d["name"]), sexp.opt(lambda r: sexp.s(r["title"]), d["readme"]),
                    sexp.lst(lambda r: sexp.tag("rf", sexp.s(r["file"]), sexp.s(r["title"]), sexp.opt(str, r["servings"])), d["recipes"]),
                    sexp.lst(tree_sexp, d["subdirs"]))


def all_dirs(d, rel=""):
    yield rel, d
    for s in d["subdirs"]:
        yield (rel + "/" + s["name"]) if rel else s["name"], s


def walk(d, rel=""):
    """(relative posix dir path, dir) for every directory, recursively"""
    yield rel, d
    for s in d["subdirs"]:
        yield from walk(s, (rel + "/" + s["name"]) if rel else s["name"])


class Links(HTMLParser):
    def __init__(self):
        super().__init__(convert_charrefs=True)
        self.links = []      # (tag, attr, value, text-or-alt)
        self.title = None
        self._in_title = False
        self._a = None
        self.h1 = []
        self._in_h1 = False
        self.text = []

    def handle_starttag(self, tag, attrs):
        a = dict(attrs)
        if tag == "title":
            self._in_title = True
            self.title = ""
        if tag == "h1":
            self._in_h1 = True
            self.h1.append("")
        for k in ("href", "src"):
            if k in a and a[k] is not None:
                self.links.append([tag, k, a[k], a.get("alt", "")])
                if tag == "a":
                    self._a = self.links[-1]

    def handle_endtag(self, tag):
        if tag == "title":
            self._in_title = False
        if tag == "a":
            self._a = None
        if tag == "h1":
            self._in_h1 = False

    def handle_data(self, data):
        if self._in_title:
            self.title += data
        if self._a is not None:
            self._a[3] += data
        if self._in_h1:
            self.h1[-1] += data
        self.text.append(data)


def parse_page(text):
    p = Links()
    p.feed(text)
    p.close()
    return p


PATH_MODES = ("abs", "rel", "symlink")


def generate(d, M, root_name="my site", mode="abs"):
    """write the tree, run the real generator; returns (src, out, scratch, error or None). Caller removes scratch.
    mode: how the source directory is named to the generator - absolute path / path relative to the working directory /
    a symbolic link to the directory (the same site must come out)"""
    import os
    from pathlib import Path
    from recipe_grid.static_site.website import generate_static_site
    scratch = scratch_root()
    src, out = scratch / root_name, scratch / "out"
    real = src if mode != "symlink" else scratch / ("real " + root_name)
    write_tree(d, real)
    listing_order(d, real)
    if mode == "symlink":
        os.symlink(real, src, target_is_directory=True)
    err = None
    cwd = os.getcwd()
    try:
        if mode == "rel":
            os.chdir(scratch)
            generate_static_site(Path(root_name), out, M)
        else:
            generate_static_site(src, out, M)
    except Exception as e:  # noqa
        err = e
    finally:
        os.chdir(cwd)
    return src, out, scratch, err


def output_files(out):
    return sorted("/" + str(p.relative_to(out)).replace(os.sep, "/") for p in out.rglob("*") if p.is_file())


def resolve(page_path, url):
    """ordinary URL resolution of a non-external link against the page's address -> absolute path (unquoted)"""
    parts = urlsplit(url)
    if parts.scheme or parts.netloc:
        return None
    if parts.path == "":
        return page_path
    base = posixpath.dirname(page_path)
    target = posixpath.normpath(posixpath.join(base, unquote(parts.path))) if not parts.path.startswith("/") else posixpath.normpath(unquote(parts.path))
    if unquote(parts.path).endswith("/") and target != "/":
        target += "/"
    return target


def regenerate_same_directory(M=3):
    """a small fixed site generated twice into the SAME output directory; between the two runs a quantity of a recipe and the bytes of a
    linked local file are changed without changing any file's length, the linked file keeping its old modification time (as after
    `cp -p` / a restore from backup); then the same final sources are generated into a fresh directory.
    Returns (scratch, out_same, out_fresh, source root); the caller removes scratch."""
    import os
    from recipe_grid.static_site.website import generate_static_site
    scratch = scratch_root()
    src = scratch / "book"
    (src / "mains").mkdir(parents=True)
    recipe = "# Omelette for 2\n\nBeat {%d} eggs.\n\n    %d eggs\n    100 ml milk\n\n[Ltimes](oven.csv) ![Ipic](pic.bin)\n"
    (src / "mains" / "omelette.md").write_text(recipe % (2, 2))
    (src / "mains" / "oven.csv").write_bytes(b"temp,180\n")
    (src / "mains" / "pic.bin").write_bytes(bytes(range(64)))
    (src / "plain.md").write_text("# Toast\n\n    2 slices bread\n")
    out = scratch / "out"
    generate_static_site(src, out, M)
    for name, data in (("oven.csv", b"temp,190\n"), ("pic.bin", bytes(reversed(range(64))))):
        f = src / "mains" / name
        st = f.stat()
        f.write_bytes(data)
        os.utime(f, ns=(st.st_atime_ns, st.st_mtime_ns))
    (src / "mains" / "omelette.md").write_text(recipe % (3, 3))
    (src / "plain.md").write_text("# Toast\n\n    3 slices bread\n")
    generate_static_site(src, out, M)
    fresh = scratch / "fresh"
    generate_static_site(src, fresh, M)
    return scratch, out, fresh, src
