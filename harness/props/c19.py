"""C19 — errors in embedded recipes are reported at their Markdown line."""
from peggie import ParseError
from recipe_grid.compiler import RecipeCompileError, NameRedefinedError, ProportionGivenForIngredientError
from recipe_grid import markdown as M

from .. import sexp, gen_md, gen_desc, md_common

PID = "C19"
TECHNIQUE = "Lean 4 theorems on line padding (offset -> line/column under newline padding) + correspondence of padded sources + injected-fault oracle on documents"
LEVEL_TEXT = ("Theorems in Lean: prepending k newlines to a block's text moves every reported line down by exactly k and leaves column and quoted line "
              "unchanged (pad_line, pad_extract), for every text and offset; the whole parser and compiler are position independent (parse_pad: padding a block "
              "with k newlines shifts every source offset of the AST by k and changes nothing else, proved rule by rule through the grammar; "
              "padded_error_line / markdown_error_line: a redefinition or proportion error of a padded block is the same error, k lines further down, at the "
              "same column, quoting the same text, where k = paddedSource's count of document lines before the block); the padded source the front end builds (lines before the block, +1 for a "
              "fence) is compared exactly with the model on the code blocks marko reports; that the reported line is the document line of the offending "
              "token is checked by injecting one fault at every statement position of generated documents. "
              "Syntax errors (C19c): the located parser model parseE is position independent including its furthest-failure offset (parseE_pad), hence "
              "padded_syntax_error_line / markdown_syntax_error_line: the syntax error of a padded non-empty block is reported k lines further down, same "
              "column, same quoted line. From the document text (C19d): scanBlocks, a Lean model of the part of CommonMark block structure that decides "
              "which lines are recipe code (fenced blocks of both characters with indentation stripping, indented blocks, paragraphs with lazy continuation, "
              "LF / CRLF / lone CR endings) on the sub-language D of documents without containers, tabs, HTML blocks, setext underlines and link reference "
              "definitions (decidable predicate inDoc); scan_block_lines: every line of the padded source of every block is the document's own line of that "
              "number minus its indentation; doc_error_line: a compile error in a block is reported with the number of the document line that holds the "
              "offending text - for every document of D, with no observed hypothesis; the scanner is compared exactly with marko (kind, language, pos, "
              "captured source, padded source, start line) on generated documents of D. Containers (C19e): scanBlocks2 / inDoc2 extend the scanner to one "
              "level of block quote or list item (sub-language D2, a conservative extension: scan2_conservative); scan2_block_lines: the padded line is the "
              "document line minus the container prefix (spaces, or <= 3 spaces + '>' + <= 1 space) and minus <= 3 (fence) / <= 4 (indented) spaces; "
              "doc2_error_line: the reported line is the document line of the offending text, the column shifted by exactly the removed prefix - for every "
              "document of D2, no observed hypothesis; compared exactly with marko. End to end (C19f): mdCompile models compile_markdown from the document text "
              "(scan, group, pad, parse with located syntax errors, compile, first failing group wins, a syntax error in a group beats a compile error); "
              "mdCompile_error_line: every error of every document of D2 names the document line that holds the offending text and quotes that line's recipe "
              "text, with two exactly characterised exceptions (an empty fenced block: the fence line, quoting nothing; a document ending in a Python-only "
              "line break inside an indented block: one line below the end - a recorded finding of C07); mdCompile_first_group, mdCompile_ok_iff; the "
              "outcome is compared exactly with compile_markdown on documents with one or several faults.")
LEVEL_NOTE = ("Partial: outside the sub-language D2 (nested containers, tabs, HTML blocks, empty list items ...) the theorems rest on the "
              "per-document hypothesis H_marko (the captured source is the block's lines with one prefix removed per line; pos is the offset of the first code "
              "line resp. the fence line), which is marko's behaviour and is observed per generated document, not proved; inside D2 that hypothesis is replaced by "
              "the scanner model, tied to marko by exact correspondence (that scanBlocks2 equals marko is validated, not proved). Trusted: Lean kernel.")
LEAN_MODULES = ["RecipeGrid.Props.C19", "RecipeGrid.Props.C19b", "RecipeGrid.Props.C19c", "RecipeGrid.Props.C19d", "RecipeGrid.Props.C19e", "RecipeGrid.Props.C19f"]
SOURCES = ["recipe_grid/markdown.py", "recipe_grid/compiler.py"]
RULE = ("documents of C13 (top level / list item / block quote x indented / fenced with either fence character, several blocks and independent recipes) with "
        "one injected fault (redefinition, proportion of an unknown name, stray token) at a random statement of a random block; LF and CRLF line endings; "
        "non-trivial = fault not in the first block; distinct = distinct documents")


SYNTAX_FAULTS = ["fry(1 g x%d)) oops", "fry(1 g x%d)) oops", "100 g flour%d,", "sauce%d =", "stock%d :=", "1 g x%d = = y", "'unterminated%d", "{1 g x%d",
                 "x%d y z :", "a%d, = b", "mix(1 g a%d,, b)", "1 g x%d , ", "dough%d = \t", "fry(1 g x%d) y"]


def stmt_lines(block_text):
    """indices of lines that start a statement (approximation: non-blank lines not inside parentheses)"""
    out, depth = [], 0
    for i, l in enumerate(block_text.split("\n")):
        if depth == 0 and l.strip():
            out.append(i)
        for ch in l:
            if ch == "(":
                depth += 1
            elif ch == ")":
                depth = max(0, depth - 1)
    return out


def simple_desc(rng, nblocks):
    """descriptions whose statements are one line each and never rejected (fresh names)"""
    blocks, n = [], 0
    for b in range(nblocks):
        stmts = []
        for _ in range(rng.randint(1, 4)):
            n += 1
            base = rng.choice(["thing", "thing", "cafe\u0301 ", "cre\u0300me bru\u0302le\u0301e ", "\u65e5\u672c", "\U0001F372 stew ", "na\u00efve ", "x\u00a0y "])
            stmts.append("item%d = %s(%s)" % (n, rng.choice(["fry", "mix"]), ", ".join("%d g %s%d%s" % (rng.randint(1, 9), base, n, c) for c in "ab"[:rng.randint(1, 2)])))
        blocks.append(stmts)
    return blocks


def gen_case(rng, eol):
    doc = gen_md.Doc()
    if rng.random() < 0.12:
        # a soft-wrapped opening paragraph: one very long first line (the first line ending of the file comes late)
        doc.add([" ".join(rng.choice(["stir", "well", "and", "then", "leave", "it", "overnight"]) for _ in range(rng.choice([230, 300, 700]))), ""])
    if rng.random() < 0.8:
        gen_md.gen_heading(rng, doc)
    ngroups = rng.choice([1, 1, 2])
    all_blocks = []
    for gi in range(ngroups):
        for bi, stmts in enumerate(simple_desc(rng, rng.choice([1, 2, 3]))):
            all_blocks.append((gi, bi, stmts))
    # choose the fault
    fi = rng.randrange(len(all_blocks))
    gi, bi, stmts = all_blocks[fi]
    si = rng.randrange(len(stmts))
    kind = rng.choice(["redefined", "proportion", "syntax"])
    if kind == "redefined":
        # redefine the name of this very statement's output one line later would shift lines: replace the statement by a redefinition of an earlier name
        earlier = [s for (g, b, ss) in all_blocks[:fi + 1] if g == gi for s in (ss if (g, b) != (gi, bi) else ss[:si])]
        if not earlier:
            kind = "proportion"
        else:
            name = rng.choice(earlier).split(" =")[0]
            stmts[si] = "%s = boil(1 g water%d)" % (name, rng.randint(0, 99))
            col = 1
    fault_line_text = None
    if kind == "proportion":
        stmts[si] = "serve(  1/2 of unknown%d)" % rng.randint(0, 99)
        col = stmts[si].index("1/2") + 1
        if rng.random() < 0.35:
            # the same fault inside a step laid out over several lines, the proportion alone in brackets on a line of its own
            fault_line_text = "    1/2 of unknown%d" % rng.randint(0, 99)
            stmts[si] = "\n".join(["serve(", "  (", fault_line_text, "  ),", "  1 g salt%d," % rng.randint(0, 99), ")"])
            col = 5
    if kind == "syntax":
        # a stray or missing token that the grammar rejects on this very line, whatever follows in the block
        stmts[si] = rng.choice(SYNTAX_FAULTS) % rng.randint(0, 99)
        col = 1
    first = True
    for (g, b, ss) in all_blocks:
        for _ in range(rng.randint(0, 2)):
            doc.add(rng.choice(gen_md.PROSE).split("\n") + [""])
        if b == 0 and not first:
            style = "new"
        elif first:
            style = rng.choice(["indented", "recipe", "new"])
        else:
            style = rng.choice(["indented", "recipe"])
        container = rng.choice(["top", "top", "quote", "list"])
        if style == "indented" and container != "top":
            style = "recipe"
        if style == "indented" and doc.blocks and doc.blocks[-1]["kind"] == "indented" and doc.blocks[-1].get("end") == len(doc.lines):
            doc.add(["Then:", ""])
        text = "\n".join(ss) if rng.random() < 0.7 else "\n\n".join(ss)
        extra = rng.choice([0, 0, 0, 2, 4, 1])      # recipe text indented more than the block requires
        lead = rng.choice([0, 0, 0, 1, 2]) if style != "indented" else 0      # blank lines right after the opening fence
        lines, firstl, strip = gen_md.recipe_block_lines(rng, text, style, container, extra, lead)
        doc.blocks.append(dict(first_line=len(doc.lines) + firstl, prefix=strip, text=text, kind=style, group=g, container=container))
        doc.add(lines + [""])
        doc.blocks[-1]["end"] = len(doc.lines)
        if container == "list":
            doc.add(["<!-- end list -->", ""])
        if (g, b) == (gi, bi):
            fault_extra = extra
            fault_block = doc.blocks[-1]
            off_line = text.split("\n").index(fault_line_text if fault_line_text is not None else stmts[si])
            fault_line = fault_block["first_line"] + off_line + 1    # 1-based document line
            fault_text = fault_line_text if fault_line_text is not None else stmts[si]
        first = False
    first_line = next((l for l in doc.lines), "")
    plain_start = bool(first_line.strip()) and not first_line.startswith((" ", "\t", ">", "-", "`", "~", "*", "<"))
    bom = "\ufeff" if (rng.random() < 0.1 and plain_start) else ""        # a byte order mark at the start of the file is one more character of line 1
    return dict(document=bom + doc.text(eol), kind=kind, line=fault_line, column=col + fault_extra, snippet=" " * fault_extra + fault_text, eol=eol, container=fault_block["container"], style=fault_block["kind"])


def run_case(c):
    try:
        M.compile_markdown(c["document"])
    except ParseError as e:
        return ("syntax", e.line, e.column, e.snippet)
    except NameRedefinedError as e:
        return ("redefined", e.line, e.column, e.snippet)
    except ProportionGivenForIngredientError as e:
        return ("proportion", e.line, e.column, e.snippet)
    except Exception as e:  # noqa
        return (type(e).__name__, None, None, None)
    return ("ok", None, None, None)


def check_case(c):
    got = run_case(c)
    out = []
    eol = "crlf" if c["eol"] == "\r\n" else "lf"
    if got[0] != c["kind"]:
        out.append(("C19:fault-not-reported:%s" % eol, "expected %s, got %r" % (c["kind"], got)))
        return out
    if got[1] != c["line"]:
        out.append(("C19:wrong-line:%s" % eol, "%s at document line %d reported at line %r (%s block in %s)" % (c["kind"], c["line"], got[1], c["style"], c["container"])))
    elif got[3].rstrip("\r") != c["snippet"]:
        out.append(("C19:wrong-snippet:%s" % eol, "quoted %r, the line's recipe text is %r" % (got[3], c["snippet"])))
    elif c["kind"] != "syntax" and got[2] != c["column"]:
        out.append(("C19:wrong-column:%s" % eol, "column %r, expected %d" % (got[2], c["column"])))
    return out


FRONT = ["", "---\ntags: soup, quick\n---\n\n", "---\ntitle: x\ndate: 2020-01-01\n...\n\n", "---\n\n---\n"]


def check_file_route(c, scratch, front="", eol=None):
    """the same document read from a file (the way the site generator, the stand-alone page and the commands read it): each of the three
    line-ending conventions a text file may use, optionally after a few leading lines of the kind other tools put first - the reported line is
    the line of the file"""
    import re
    from recipe_grid.static_site.recipe_directory import compile_recipe_markdown, RecipeInDirectoryCompileError
    doc = c["document"]
    if front and doc.startswith("\ufeff"):
        front = ""
    eol = eol or c["eol"]
    text = (front + doc.replace("\r\n", "\n")).replace("\n", eol)
    path = scratch / "recipe.md"
    path.write_bytes(text.encode("utf-8"))
    name = {"\n": "lf", "\r\n": "crlf", "\r": "cr"}[eol]
    want = c["line"] + front.count("\n")
    try:
        compile_recipe_markdown(path, False, False)
    except RecipeInDirectoryCompileError as e:
        m = re.search(r"At line (\d+) column (\d+):\n    ([^\n]*)\n", str(e))
        if not m:
            return [("C19:file-route:no-position:%s" % name, str(e)[:200])]
        if int(m.group(1)) != want:
            return [("C19:file-route:wrong-line:%s" % name, "%s at line %d of the file (%r lines first) reported at line %s" % (c["kind"], want, front, m.group(1)))]
        if m.group(3).rstrip() != c["snippet"].rstrip():     # the message shows the line without trailing blanks
            return [("C19:file-route:wrong-snippet:%s" % name, "quoted %r, the line's recipe text is %r" % (m.group(3), c["snippet"]))]
        return []
    except Exception as e:  # noqa
        return [("C19:file-route:fault-not-reported:%s" % name, "%s: %s" % (type(e).__name__, str(e)[:150]))]
    return [("C19:file-route:fault-not-reported:%s" % name, "the file compiles")]


def correspondence(run):
    # the padded source of every observed block equals the model's padding
    reqs, meta = [], []
    for _ in range(run.budget(200, 4000)):
        eol = run.rng.choice(["\n", "\n", "\r\n"])
        c = gen_case(run.rng, eol)
        mr, events = gen_md.observe(c["document"])
        for e in md_common.block_events(events):
            if e[0] == "recipe-block":
                reqs.append(sexp.tag("padsrc", sexp.s(c["document"]), str(e[3]), sexp.b(e[1] == "fenced"), sexp.s(e[4])))
                rb = M.RecipeSourceBlock(e[4], e[3], e[1] == "fenced", e[2] == "new-recipe")
                meta.append((c["document"], rb.get_line_number_corrected_source(c["document"]), eol))
    rep = run.ask(reqs)
    for (doc, impl, eol), m in zip(meta, rep):
        run.case(("padsrc", doc, impl), True, kind="padded-source:" + ("crlf" if eol == "\r\n" else "lf"))
        run.groups["get_line_number_corrected_source"] += 1
        if impl != m:
            run.disagree("padsrc", doc, impl[:300], str(m)[:300])
    scanner_correspondence(run)
    syntax_position_correspondence(run)
    mdcompile_correspondence(run)


def scanner_correspondence(run):
    """C19d: the model of the block scanner (which lines of a document are recipe code, where each block starts, what text is captured)
    against marko + markdown.py, on documents of the sub-language D (md-indoc) - kind and language, pos, captured source, padded source,
    start line; and the statement of scan_block_lines checked on marko's own output"""
    from .. import mdblocks_corr
    r = mdblocks_corr.collect(run.seed * 7919 + 20260930, run.budget(500, 8000), run.budget(400, 6000), ask=run.ask)
    n_in = sum(r["in_d_by_group"].values())
    run.groups["marko code blocks (pos, source, language, padded source) vs scanBlocks, documents in D"] += n_in
    for k, v in r["dist"].items():
        run.dist["md-blocks:" + k] += v
    run.evaluations += r["docs"]
    run.note("block scanner: %d distinct documents, %d in the sub-language D; outside D (no claim) model and marko differ on %r; marko itself raised on %d documents (all outside D: %s)"
             % (r["docs"], n_in, dict(r["outside_disagree"]), len(r["crashes"]), all(not c[3] for c in r["crashes"])))
    for d in r["disagreements"][:20]:
        run.disagree("md-blocks:" + d[0], d[1], repr(d[2])[:600], repr(d[3])[:600])
    for t, bad in r["prop_fail"][:10]:
        run.disagree("md-blocks:line-property", t, repr(bad[:2])[:600], "scan_block_lines")
    # C19e: the same with one level of container (block quotes, list items): scanBlocks2 / inDoc2
    from .. import mdcontainers_corr
    r = mdcontainers_corr.collect(run.seed * 104729 + 20260930, run.budget(300, 6000), run.budget(200, 4000), ask=run.ask)
    n_in = sum(r["in_d_by_group"].values())
    run.groups["marko code blocks inside block quotes / list items vs scanBlocks2, documents in D2"] += n_in
    for k, v in r["dist"].items():
        run.dist["md-blocks2:" + k] += v
    run.evaluations += r["docs"]
    run.note("container scanner: %d distinct documents, %d in D2; outside D2 (no claim) model and marko differ on %r" % (r["docs"], n_in, dict(r["outside_disagree"])))
    for d in r["disagreements"][:20]:
        run.disagree("md-blocks2:" + d[0], d[1], repr(d[2])[:600], repr(d[3])[:600])
    for t, bad in r["prop_fail"][:10]:
        run.disagree("md-blocks2:line-property", t, repr(bad[:2])[:600], "scan2_block_lines")


def mdcompile_correspondence(run):
    """C19f / C07d: compile_markdown from the document text - outcome kind, line, column and quoted line, or the number of independent recipes -
    against the model mdCompile (scanner, grouping, padding, parser with located syntax errors, compiler), on documents of D2 with one or
    several faults and without"""
    from .. import mdcompile_corr
    r = mdcompile_corr.collect(run.seed * 15485863 + 20260930, run.budget(120, 2500), ask=run.ask)
    run.groups["compile_markdown (outcome, line, column, quoted line / number of recipes) vs mdCompile, documents in D2"] += (sum(r["inside"].values()) if hasattr(r["inside"], "values") else r["inside"])
    for k, v in r["dist"].items():
        run.dist["md-compile:" + k] += v
    run.evaluations += r["docs"]
    for d in r["disagreements"][:20]:
        run.disagree("md-compile:" + str(d[0]), d[1] if len(d) > 1 else "", repr(d[2:4])[:600], repr(d[4:])[:600])


def syntax_position_correspondence(run):
    """C19c / C07c: where a syntax error is reported (line, column, quoted line) - peggie's furthest failure vs the model's parseE - on the
    blocks of faulty documents, alone and padded with the newlines the front end puts before them"""
    from .. import parser_corr
    from recipe_grid.parser import parse as rg_parse
    texts = []
    for _ in range(run.budget(150, 3000)):
        c = gen_case(run.rng, "\n")
        for b in c["document"].split("\n\n"):
            texts.append(b)
        k = run.rng.randint(0, 9)
        texts.append("\n" * k + c["snippet"] + "\nnext = 1 g x\n")
    texts += parser_corr.EDGE_CASES
    rep = run.ask([sexp.tag("parse-err", sexp.s(t)) for t in texts])
    for t, m in zip(texts, rep):
        try:
            rg_parse(t)
            real = ("ok",)
        except ParseError as e:
            real = ("syntax", e.line, e.column, e.snippet)
        except RecursionError:
            continue
        except Exception as e:  # noqa  (an undocumented exception after a successful parse is C07's business)
            real = ("ok",)
        model = ("ok",) if tuple(m) == ("ok",) else ("syntax", m[2], m[3], m[4])
        run.case(("parse-err", t), real[0] == "syntax", kind="syntax-position:" + real[0])
        run.groups["ParseError line/column/snippet vs parseE"] += 1
        if real != model:
            run.disagree("parse-err", t, repr(real)[:300], repr(model)[:300])


def oracle(run):
    import shutil
    from .. import gen_site
    scratch = gen_site.scratch_root()
    try:
        for i in range(run.budget(500, 12000)):
            eol = run.rng.choice(["\n", "\n", "\r\n"])
            c = gen_case(run.rng, eol)
            run.case(("oracle", c["document"]), True, kind=c["kind"] + ":" + ("crlf" if eol == "\r\n" else "lf"),
                     sample={"document": c["document"][:200], "fault": c["kind"], "line": c["line"]})
            res = check_case(c)
            for sig, detail in res:
                run.violate(sig, detail, c)
            if not res and i % 4 == 0:
                front, feol = FRONT[(i // 4) % len(FRONT)], ["\n", "\r\n", "\r"][(i // 16) % 3]
                run.case(("file", front, feol, c["document"]), True, kind="file-route:" + {"\n": "lf", "\r\n": "crlf", "\r": "cr"}[feol] + (":front-lines" if front else ""))
                for sig, detail in check_file_route(c, scratch, front, feol):
                    run.violate(sig, detail, dict(c, file_route=[front, feol]))
    finally:
        shutil.rmtree(scratch, ignore_errors=True)


def replay(run, obj):
    if obj["replay"].get("file_route"):
        import shutil
        from .. import gen_site
        scratch = gen_site.scratch_root()
        try:
            res = check_file_route(obj["replay"], scratch, *obj["replay"]["file_route"])
        finally:
            shutil.rmtree(scratch, ignore_errors=True)
        for x in res:
            print(*x)
        return bool(res)
    res = check_case(obj["replay"])
    for x in res:
        print(*x)
    return bool(res)
