"""C11 — displayed numbers are correctly rounded, exact when they can be."""
import math
import re
from fractions import Fraction

from recipe_grid.number_formatting import format_number
from recipe_grid.number_parser import number as parse_number
from recipe_grid.renderer.html import render_number

from .. import sexp

PID = "C11"
TECHNIQUE = "Lean 4 theorems on an exact-rational model of format_float/format_fraction + exact string correspondence"
LEVEL_TEXT = ("Theorems in Lean about an executable exact-rational model of number formatting (rounding error bound, value of the shown "
              "text, exactness for ints and allowed fractions), proved for every non-negative rational; the model is tied to "
              "number_formatting.py/render_number by exact string equality on boundary-focused generated numbers and the bit-exact float layer. Reads back (C11c): both readers of the tool are modelled - number_parser.number (numberReader, on texts over digits . / blank tab) "
              "and the grammar's number rule - and reader_reads_format / grammar_reads_format prove that every shown text is read back, by either, as the "
              "shown value with the kind its spelling has (int, Fraction, nearest double of the shown decimal), never raising; reader_value_err: within half a "
              "unit of the last shown digit, plus at most 10^3/2^53 units when a point is shown because the reader returns a double (reader_excess_witness: "
              "10.25 -> '10.2' -> 10.199999999999999 is the tie where that excess is real); redisplay_stable / reread_stable; readers_agree / "
              "readers_differ_exactly: where the two readers agree and the three spellings on which they differ; zeroDivision_only_outside_grammar.")
LEVEL_NOTE = ("Trusted: Lean kernel; CPython '%.Nf'/round/modf being correctly rounded (re-validated per case); the hand-written model as far "
              "as correspondence exercises it. Fraction fallback through float is a recorded known finding (double rounding).")
LEAN_MODULES = ["RecipeGrid.Props.C11", "RecipeGrid.Props.C11c"]
SOURCES = ["recipe_grid/number_formatting.py", "recipe_grid/number_parser.py", "recipe_grid/renderer/html.py"]
RULE = ("numbers from seeded families: doubles within +-2 ulp of every rounding boundary of the 3-digit budget, exact ties, "
        "uniform doubles over 1e-4..1e15, dyadic rationals, integers up to 1e18, Fractions with allowed and other "
        "denominators (proper, improper), ints; a case is non-trivial unless it is an int below 10; distinct = distinct values")
ASSUMPTIONS = ["'three significant figures' is read as the documented 3-digit budget shared by integer and decimal digits "
               "(pinned by tests: 0.00045 -> '0')", "numbers are non-negative and below 1e15 (floats) as the property states"]
ALLOWED = (2, 3, 4, 5, 6, 7, 8, 12, 16)


def rhe(q):
    fl = q.numerator // q.denominator
    r = q - fl
    if r > Fraction(1, 2) or (r == Fraction(1, 2) and fl % 2 == 1):
        fl += 1
    return fl


def gen_numbers(rng, n):
    out = []
    for i in range(n):
        k = rng.random()
        if k < 0.2:
            out.append(rng.uniform(0, 10 ** rng.randint(-4, 15)))
        elif k < 0.45:
            d = rng.randint(0, 3)
            x = float(rng.randint(0, 10 ** (3 - d)) + rng.randint(0, 10 ** d) / 10 ** d + 0.5 / 10 ** d)
            for _ in range(rng.randint(0, 2)):
                x = math.nextafter(x, rng.choice([0.0, 1e300]))
            out.append(x)
        elif k < 0.5:
            # just below / above a rounding boundary by a visible margin (a pre-rounding step would move these)
            d = rng.randint(0, 3)
            b_ = Fraction(rng.randint(0, 10 ** (3 - d))) + Fraction(2 * rng.randint(0, 10 ** d) + 1, 2 * 10 ** d)
            out.append(float(b_ + rng.choice([-1, 1]) * Fraction(rng.choice([1, 4, 30, 200]), 10 ** rng.choice([6, 7, 8, 9]))))
        elif k < 0.55:
            out.append(rng.randint(0, 10 ** 6) / 2 ** rng.randint(0, 12))
        elif k < 0.62:
            out.append(float(rng.randint(0, 10 ** rng.randint(0, 15))))
        elif k < 0.72:
            out.append(rng.randint(0, 10 ** rng.randint(0, 18)))
        elif k < 0.87:
            q = rng.choice(ALLOWED + (9, 10, 11, 13, 24, 32, 100))
            out.append(Fraction(rng.randint(0, q * rng.choice([1, 3, 30, 2000])), q))
        else:
            den = rng.choice([9, 10, 11, 13, 1000, 10 ** 19, rng.randint(2, 10 ** 6)])
            out.append(Fraction(rng.randint(0, den * rng.choice([1, 5, 500, 10 ** 6])), den))
    return out


CORPUS = [0.0, 0.5, 0.25, 9.995, 99.95, 0.9996, 999.5, 0.00045, 0.10045, 1e15, 123456.789, 2.675, 1.005,
          Fraction(1, 3), Fraction(5, 3), Fraction(7, 9), Fraction(22, 7), Fraction(12550000000000000001, 10 ** 19),
          0, 1, 12, 1000, 10 ** 18, Fraction(15, 16), Fraction(17, 16), Fraction(1, 32), 0.1, 0.2 + 0.1, 1.0, 3.0]


def nontrivial(x):
    return not (isinstance(x, int) and x < 10)


def correspondence(run):
    xs = CORPUS + gen_numbers(run.rng, run.budget(20000, 400000))
    reqs = []
    for x in xs:
        reqs.append(sexp.tag("fmt", sexp.num(x)))
        reqs.append(sexp.tag("rnum", sexp.num(x)))
    rep = run.ask(reqs)
    for i, x in enumerate(xs):
        impl = (format_number(x), render_number(x))
        model = (rep[2 * i], rep[2 * i + 1])
        run.case(("fmt", repr(x)), nontrivial(x), kind=type(x).__name__, sample={"format_number": repr(x), "shown": impl[0]})
        run.groups["format_number/render_number"] += 1
        if impl != model:
            run.disagree("format_number", repr(x), impl, model)
    # float layer: every float operation = exact result rounded by toDouble
    rng = run.rng
    ops = []
    for i in range(run.budget(4000, 60000)):
        a = rng.choice([rng.uniform(0, 1000), rng.randint(0, 10 ** 6) / 10 ** rng.randint(0, 6), float(rng.randint(1, 10 ** 15)),
                        rng.randint(0, 10 ** 6), Fraction(rng.randint(1, 1000), rng.randint(1, 1000))])
        b = rng.choice([rng.uniform(0, 10), 453.59237, 236.58824, 0.01, rng.randint(1, 100) / 7, rng.randint(1, 10 ** 4),
                        Fraction(rng.randint(1, 1000), rng.randint(1, 1000)), 100])
        op = rng.choice(["mul", "add", "div"])
        ops.append((op, a, b))
    rep = run.ask([sexp.tag(op, sexp.num(a), sexp.num(b)) for op, a, b in ops])
    for (op, a, b), m in zip(ops, rep):
        impl = sexp.pynum(a * b if op == "mul" else a + b if op == "add" else a / b)
        run.case((op, repr(a), repr(b)), True, kind="arith-" + op)
        run.groups["python arithmetic"] += 1
        if impl != m:
            run.disagree("arith", (op, repr(a), repr(b)), impl, m)
    reader_correspondence(run)


def reader_correspondence(run):
    """C11c: number_parser.number (the reader behind `--scale` and "reads back with the tool's own number syntax") and the grammar's number rule
    against the Lean models numberReader / Parser.number (harness/reader_corr.py, its own process): every shown text of C11's generators, exhaustive
    short soups over digits . / blank tab, fraction spellings, and a boundary stream outside the modelled language"""
    import os
    import subprocess
    import sys
    here = os.path.dirname(os.path.dirname(os.path.abspath(__file__)))
    n = "3" if run.tier == "quick" and not getattr(run, "escalated", False) else "5"
    p = subprocess.run([sys.executable, os.path.join(here, "reader_corr.py"), "--seed", str(20260930 + run.seed), "--soup-len", n], stdout=subprocess.PIPE,
                       stderr=subprocess.STDOUT, text=True, timeout=3000, env=dict(os.environ, PYTHONPATH=os.pathsep.join(x for x in sys.path if x)))
    m = re.search(r"distinct texts: (\d+), total: (\d+)\s+disagreements: (\d+)", p.stdout)
    if not m:
        run.disagree("read-number", "harness/reader_corr.py", p.stdout[-800:], "n/a")
        return
    run.groups["number_parser.number / grammar number rule vs numberReader / Parser.number"] += int(m.group(1))
    run.evaluations += int(m.group(1))
    if int(m.group(3)):
        for line in [l for l in p.stdout.splitlines() if "DISAGREE" in l.upper()][:10]:
            run.disagree("read-number", "seed %d" % (20260930 + run.seed), line.strip()[:800], "model")
        if not any("DISAGREE" in l.upper() for l in p.stdout.splitlines()):
            run.disagree("read-number", "seed %d" % (20260930 + run.seed), p.stdout[-800:], "model")


def check_one(x):
    """The property, stated directly against the real code. Returns list of (signature, detail)."""
    out = []
    text = format_number(x)
    q = Fraction(x)
    try:
        parsed = parse_number(text)
        # the tool's own reader returns a double for decimal text; the shown decimal itself is exact
        back = Fraction(text) if re.fullmatch(r"\d+(\.\d+)?", text) else Fraction(parsed)
        if isinstance(parsed, float) and parsed != float(back):
            raise ValueError("reader returned %r" % parsed)
    except Exception as e:  # noqa
        return [("C11:unreadable", "format_number(%r) = %r cannot be read back: %r" % (x, text, e))]
    if not isinstance(x, float) and q.denominator == 1:
        if text != str(q.numerator):
            out.append(("C11:int-not-exact", "%r shown as %r" % (x, text)))
        return out
    if not isinstance(x, float) and q.denominator in ALLOWED:
        m = re.fullmatch(r"(?:(\d+) )?(\d+)/(\d+)", text)
        if not m:
            out.append(("C11:fraction-not-shown-as-fraction", "%r shown as %r" % (x, text)))
            return out
        i, p, d = int(m.group(1) or 0), int(m.group(2)), int(m.group(3))
        if not (0 < p < d and math.gcd(p, d) == 1 and (m.group(1) is None or i > 0)) or back != q:
            out.append(("C11:fraction-wrong", "%r shown as %r" % (x, text)))
        return out
    # decimal notation
    if not re.fullmatch(r"\d+(\.\d*[1-9])?", text):
        out.append(("C11:not-plain-decimal", "%r shown as %r" % (x, text)))
        return out
    I = q.numerator // q.denominator
    d = max(0, 3 - (len(str(I)) if I else 0))
    want = Fraction(rhe(q * 10 ** d), 10 ** d)
    if back != want:
        if not isinstance(x, float):
            fq = Fraction(float(x))
            I2 = fq.numerator // fq.denominator
            d2 = max(0, 3 - (len(str(I2)) if I2 else 0))
            if back == Fraction(rhe(fq * 10 ** d2), 10 ** d2):
                out.append(("C11:fraction-fallback-double-rounding",
                            "%r shown as %r, correctly rounded is %s (rounded via the nearest double)" % (x, text, want)))
                return out
        out.append(("C11:misrounded", "%r shown as %r, correctly rounded is %s" % (x, text, want)))
    if abs(back - q) > Fraction(1, 2 * 10 ** d):
        out.append(("C11:readback-too-far", "%r shown as %r" % (x, text)))
    return out


def check_quantity_sequence():
    """numbers inside quantities: a decimal and the equal fraction shown one after the other in one process"""
    from recipe_grid.recipe import Quantity
    from recipe_grid.renderer.html import render_quantity
    out = []
    for f, q in [(0.5, Fraction(1, 2)), (1.125, Fraction(9, 8)), (0.0625, Fraction(1, 16)), (1.5, Fraction(3, 2)), (2.0, 2), (0.25, Fraction(1, 4))]:
        for first, second in ((f, q), (q, f)):
            for unit in ("tsp", None, "handful"):
                texts = []
                for v in (first, second):
                    h = render_quantity(Quantity(v, unit, " " if unit else ""))
                    h = re.sub(r"<ul.*?</ul>", "", h, flags=re.S)
                    texts.append(re.sub(r"<[^>]*>", "", h).replace("&frasl;", "/").split()[0] if unit else re.sub(r"<[^>]*>", "", h).replace("&frasl;", "/").strip())
                want = [format_number(first), format_number(second)]
                want = [w if " " not in w else w.split()[0] for w in want] if unit else want
                if texts != want:
                    out.append(("C11:quantity-shows-another-quantitys-number", "Quantity(%r, %r) then Quantity(%r, %r) shown as %r" % (first, unit, second, unit, texts)))
    return out


def check_reader():
    """the number syntax the tool reads back (number_parser.number): integers, decimals, fractions and mixed numbers, any digit counts"""
    out = []
    seen = set()
    for i in (None, 0, 1, 2, 9, 10, 12, 107):
        for n in (0, 1, 2, 3, 7, 9, 10, 11, 12, 25, 99, 100, 113):
            for d in (1, 2, 3, 4, 7, 8, 10, 11, 12, 16, 100):
                want = Fraction(n, d) + (i or 0)
                for text in (("%d/%d", "%d / %d", "%d\t/%d") if i is None else ("%d %d/%d", "%d  %d / %d", "%d\t%d/ %d")):
                    t = text % ((n, d) if i is None else (i, n, d))
                    try:
                        got = parse_number(t)
                    except Exception as e:  # noqa
                        got = "raises " + type(e).__name__
                    if not (isinstance(got, (int, Fraction)) and got == want) and "reader" not in seen:
                        seen.add("reader")
                        out.append(("C11:reader-wrong", "number(%r) = %r, written value is %s" % (t, got, want)))
    for t, want in (("0", 0), ("7", 7), ("12", 12), ("1234567", 1234567), ("3.14", 3.14), ("0.5", 0.5), ("10.25", 10.25), ("007", 7)):
        try:
            got = parse_number(t)
        except Exception as e:  # noqa
            got = "raises " + type(e).__name__
        if got != want or type(got) is not type(want):
            out.append(("C11:reader-wrong", "number(%r) = %r, written value is %r" % (t, got, want)))
    return out


def check_percentages():
    """a proportion written as a percentage is shown as format_number(100 * value) + the written '%...' text, exact when it can be"""
    from recipe_grid.recipe import Proportion
    from recipe_grid.renderer.html import render_proportion
    import html as pyhtml
    out = []
    vals = [Fraction(1, 3), Fraction(1, 6), Fraction(1, 7), Fraction(2, 3), Fraction(1, 12), Fraction(1, 8), Fraction(1, 2), Fraction(1, 4), Fraction(3, 8), Fraction(1, 16),
            Fraction(1, 800), Fraction(5, 6), Fraction(1, 9), 0.5, 0.25, 0.125, 1, 2, Fraction(29, 100), Fraction(333, 1000), Fraction(1, 300), Fraction(7, 5), 0.29, 0.07]
    for v in vals:
        for prep in ("%", " %", "% of the"):
            text = " ".join(pyhtml.unescape(re.sub(r"<[^>]*>", "", render_proportion(Proportion(v, True, None, prep)))).replace("\u2044", "/").split())
            want = " ".join((format_number(v * 100) + prep).split())
            if text != want:
                out.append(("C11:percentage-wrong", "Proportion(%r, percentage) shown as %r, expected %r" % (v, text, want)))
                break
    # through the whole tool: a written percentage is the same percentage at every scale (a share of something does not grow with the recipe), whatever
    # stands behind it; descriptions the tool refuses show nothing and are skipped
    from recipe_grid.compiler import compile as rg_compile
    from recipe_grid.renderer.html import render_recipe_tree
    for src, pcts in (("sauce = boil(1 kg tomatoes)\nfry(50% of the sauce, 2 eggs)\nfreeze(25 % sauce)\nbin(remaining sauce)", ["50%", "25 %"]),
                      ("1 kg mince\nfry(33 1/3 % of the mince)\nfreeze(rest of the mince)", ["33 1/3 %"]),
                      ("5% fat mince", ["5%"]), ("fry(2% milk, 3 eggs)", ["2%"]), ("33 1/3 % cream", ["33 1/3 %"]), ("stew(12.5 % of the stock, 1 onion)", ["12.5 %"])):
        try:
            recipes = rg_compile([src])
        except Exception:  # noqa
            continue
        for k in (1, 2, 3, Fraction(1, 2), 2.5):
            text = " ".join(" ".join(pyhtml.unescape(re.sub(r"<[^>]*>", " ", render_recipe_tree(t))) for r in recipes for t in r.scale(k).recipe_trees).replace("\u2044", "/").split())
            shown = ["".join(m.split()) for m in re.findall(r"\d[\d ./]*?\s*%", text)]      # (compared without blanks: fractions are drawn with elements of their own)
            if shown != ["".join(p_.split()) for p_ in pcts]:
                out.append(("C11:percentage-wrong", "%r at scale %r shows the percentages %r, written %r" % (src, k, shown, pcts)))
                break
    return out


def own_format(x):
    """the documented display of a number, computed here (exact arithmetic) and not by the code under test; None where the recorded
    double-rounding finding could interfere (Fractions with other denominators)"""
    q = Fraction(x)
    if not isinstance(x, float):
        if q.denominator == 1:
            return str(q.numerator)
        if q.denominator in ALLOWED:
            w, r = divmod(q.numerator, q.denominator)
            return ("%d " % w if w else "") + "%d/%d" % (r, q.denominator)
        return None
    I = q.numerator // q.denominator
    d = max(0, 3 - (len(str(I)) if I else 0))
    n = rhe(q * 10 ** d)
    text = "%d" % n if d == 0 else ("%0*d" % (d + 1, n))[:-d] + "." + ("%0*d" % (d + 1, n))[-d:]
    return text.rstrip("0").rstrip(".") if "." in text else text


# unit pairs whose factor is exact by definition (1 kg = 1000 g, 1 l = 1000 ml, 1 tbsp = 15 ml = 3 tsp, 1 lb = 16 oz): the converted amount of an
# exact quantity is an exact number and must be displayed as one (whole number, or fraction with a listed denominator)
EXACT_FACTORS = {("g", "kg"): Fraction(1, 1000), ("kg", "g"): Fraction(1000), ("l", "ml"): Fraction(1000), ("ml", "l"): Fraction(1, 1000),
                 ("l", "tbsp"): Fraction(200, 3), ("l", "tsp"): Fraction(200), ("ml", "tbsp"): Fraction(1, 15), ("ml", "tsp"): Fraction(1, 5),
                 ("tbsp", "l"): Fraction(3, 200), ("tbsp", "ml"): Fraction(15), ("tbsp", "tsp"): Fraction(3), ("tsp", "l"): Fraction(1, 200),
                 ("tsp", "ml"): Fraction(5), ("tsp", "tbsp"): Fraction(1, 3), ("lb", "oz"): Fraction(16), ("oz", "lb"): Fraction(1, 16)}


def check_exact_conversions():
    from recipe_grid.recipe import Quantity
    from recipe_grid.renderer.html import render_quantity
    import html as pyhtml
    out = []
    for (a, b), f in sorted(EXACT_FACTORS.items()):
        for v in (1, 2, 3, 8, 12, 250, 500, Fraction(1, 2), Fraction(1, 3), Fraction(3, 4), Fraction(5, 2)):
            want = own_format(v * f)
            if want is None:
                continue
            for unit in (a, a.upper(), a.title()):
                h = render_quantity(Quantity(v, unit, " "))
                items = [pyhtml.unescape(re.sub(r"<[^>]*>", "", it)).replace("\u2044", "/") for it in re.findall(r"<li>(.*?)</li>", h, re.S)]
                shown = [" ".join(it.rsplit(" ", 1)[0].split()) for it in items if it.rsplit(" ", 1)[-1].strip() == b]
                if shown != [want]:
                    out.append(("C11:converted-amount-not-shown-exactly", "%s %s in %s: shown %r, exactly %s" % (v, unit, b, shown, want)))
                    break
            else:
                continue
            break
    return out


def check_scaled_display():
    """numbers written in braces inside names and descriptions, shown after scaling: in the ingredient cell, in every reference to it (link
    text = the name of a sub recipe whose title is hidden) and in step descriptions - exactly k times the written number, displayed as documented"""
    from recipe_grid.compiler import compile as rg_compile
    from recipe_grid.renderer.html import render_recipe_tree
    from .. import htmltok
    out = []
    written = [("8", 8), ("3", 3), ("1/2", Fraction(1, 2)), ("2 1/4", Fraction(9, 4)), ("2.5", 2.5), ("0.125", 0.125), ("2.01", 2.01), ("1234567890123.0", 1234567890123.0),
               ("999999999999999.0", 999999999999999.0), ("123456789012345", 123456789012345), ("9007199254740993", 9007199254740993), ("33.3", 33.3), ("0.07", 0.07)]
    for text, v in written:
        src = ("4 eggs {(makes %s halves)}\n{rest %s minutes then fry}(1/2 of the eggs {(makes %s halves)}, {%s} pinches salt)\n"
               "boil(remaining eggs {(makes %s halves)})\nserve := top(bread {for %s})\neat(1/3 of serve, rest of serve)" % ((text,) * 6))
        try:
            recipes = rg_compile([src])
        except Exception as e:  # noqa
            out.append(("C11:scaled-number-shown-wrong", "compile raises %r for %r" % (e, src)))
            continue
        for k in (1, 2, 5, Fraction(3, 2), Fraction(1, 2), Fraction(1), 0.5, 1.0, 3.0):
            if isinstance(v, float) and v * k >= 1e15 or (isinstance(k, float) and not isinstance(v, float) and v > 2 ** 53):
                continue
            want = own_format(v * k)
            if want is None:
                continue
            shown = []
            for t in recipes[0].scale(k).recipe_trees:
                root, _ = htmltok.tree(render_recipe_tree(t, "r-"))
                for n in root.iter():
                    if n.tag in ("td", "li"):
                        cell = " ".join(n.text().replace("\u2044", "/").split())
                        for m in re.finditer(r"\(makes (.*?) halves\)|rest (.*?) minutes|^(.*?) pinches|for (\S.*)$", cell):
                            shown.append(next(g for g in m.groups() if g is not None))
            if len(shown) < 6 or any(x != want for x in shown):
                out.append(("C11:scaled-number-shown-wrong", "{%s} scaled by %r must read %r in every cell; cells show %r" % (text, k, want, shown)))
                break
    # the stand-alone page at a requested serving count: the ratio count / stated count is exact, so exact amounts stay exact
    import shutil
    from pathlib import Path
    from .. import gen_site
    from recipe_grid.static_site.standalone_page import generate_standalone_page
    scratch = gen_site.scratch_root()
    try:
        for native, quantities in ((3, [1, 2, 5]), (6, [1, 4]), (7, [3]), (12, [5, 7]), (4, [1, 3]), (2, ["1/3", "5/12", "2/3", 7]), (1, ["1/3", "3/8"]), (4, ["1/6", "1 1/2"])):
            f = Path(scratch) / ("stew%d.md" % native)
            f.write_text("# Stew for %d\n\n" % native + "".join("    %s onions%d\n" % (q, i) for i, q in enumerate(quantities)))
            quantities = [sum(Fraction(x) for x in str(q).split()) for q in quantities]
            for target in (1, 2, 4, 5, 8, 3, 12):      # (whole multiples of the stated count among them: the ratio is a whole number there)
                page = generate_standalone_page(f, servings=target, embed_local_links=False)
                root, _ = htmltok.tree(page)
                cells = [" ".join(n.text().replace("\u2044", "/").split()) for n in root.iter() if n.tag == "td" and "rg-ingredient" in n.classes()]
                want = [own_format(q * target / native) for q in quantities]
                got = [c.rsplit(" onions", 1)[0] for c in cells]
                if None not in want and got != want:
                    out.append(("C11:scaled-number-shown-wrong", "stand-alone page of a recipe for %d at %d servings shows %r, exactly %r" % (native, target, got, want)))
                    break
            else:
                continue
            break
    finally:
        shutil.rmtree(scratch, ignore_errors=True)
    # through the Markdown front end (MarkdownRecipe.render), with decimal factors that are not short fractions
    from recipe_grid.markdown import compile_markdown
    vals = [4500, 30000, 250, 3, Fraction(1, 2), 2.5]
    doc = "# T for 4\n\nUse " + " and ".join("{%s}" % (("%d/%d" % (v.numerator, v.denominator)) if isinstance(v, Fraction) else v) for v in vals) + " things.\n\n    4500 g flour\n"
    mr = compile_markdown(doc)
    for k in (1.0005, 0.3333, 0.0005, 2.5, 1.5, 0.1, 3, Fraction(2, 3), 1.0):
        want = [own_format(v * k) for v in [4] + vals]
        page = mr.render(k)
        shown = [" ".join(re.sub(r"<[^>]*>", "", x).replace("&frasl;", "/").replace("\u2044", "/").split())
                 for x in re.findall(r'<span class="rg-scaled-value">(.*?)</span>', page.split("rg-recipe-block")[0], re.S)]
        if None not in want and shown[:len(want)] != want:
            out.append(("C11:scaled-number-shown-wrong", "render(%r) of %r shows %r, expected %r" % (k, doc[:60], shown, want)))
            break
    return out


def oracle(run):
    run.case(("percentages",), True, kind="percentages")
    seen = set()
    for sig, detail in check_percentages():
        if sig not in seen:
            seen.add(sig)
            run.violate(sig, detail, {"percentages": True})
    run.case(("exact-conversions",), True, kind="exact-conversions")
    for sig, detail in check_exact_conversions()[:3]:
        run.violate(sig, detail, {"exact_conversions": True})
    run.case(("scaled-display",), True, kind="scaled-display")
    for sig, detail in check_scaled_display()[:3]:
        run.violate(sig, detail, {"scaled_display": True})
    run.case(("reader",), True, kind="reader")
    for sig, detail in check_reader():
        run.violate(sig, detail, {"reader": True})
    run.case(("quantity-sequence",), True, kind="quantity-sequence")
    for sig, detail in check_quantity_sequence():
        run.violate(sig, detail, {"quantity_sequence": True})
    xs = list(CORPUS)
    for g, inp in run.focus:
        if g == "format_number":
            xs.append(eval(inp, {"Fraction": Fraction}))
    xs += gen_numbers(run.rng, run.budget(20000, 400000))
    for x in xs:
        run.case(("oracle", repr(x)), nontrivial(x))
        for sig, detail in check_one(x):
            run.violate(sig, detail, {"number": repr(x)})


def replay(run, obj):
    if obj["replay"].get("percentages"):
        res = check_percentages()
        for r in res:
            print(*r)
        return bool(res)
    if obj["replay"].get("exact_conversions"):
        res = check_exact_conversions()
        for r in res:
            print(*r)
        return bool(res)
    if obj["replay"].get("scaled_display"):
        res = check_scaled_display()
        for r in res:
            print(*r)
        return bool(res)
    if obj["replay"].get("reader"):
        res = check_reader()
        for r in res:
            print(*r)
        return bool(res)
    if obj["replay"].get("quantity_sequence"):
        res = check_quantity_sequence()
        for r in res:
            print(*r)
        return bool(res)
    x = eval(obj["replay"]["number"], {"Fraction": Fraction})
    res = check_one(x)
    for sig, detail in res:
        print(sig, detail)
    return bool(res)
