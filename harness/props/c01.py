"""C01 — compiled recipe matches the documented meaning of its source."""
from fractions import Fraction

from .. import sexp, rsexp, gen_desc, parser_corr
from ..compile_common import real_outcome, model_requests, same, brief

PID = "C01"
TECHNIQUE = "Lean 4 theorems on the compiler model (elaboration shape, leaf classification, error conditions) + exact correspondence of compile() + by-name meaning oracle"
LEVEL_TEXT = ("Theorem (Lean, all inputs): the compiler model equals the documented by-name meaning - compile_eq_specCompile / compile_refines_spec: "
              "elaboration resolves a name to a reference iff it was defined by an earlier statement (elab_refines_spec), and the inlining pass folds a "
              "statement exactly when it has one output, one reference by name in the whole description, in the same block, for the whole amount "
              "(folded_iff; ':=' keeps title and outline; cross-block and multi-output never fold), with the same error at the same offset and nothing "
              "else rejected. The model (PEG parser rule for rule, elaboration, inlining pass as written, Recipe validation) is tied to compile() by exact "
              "equality of results incl. embedded copies, error kind and position, on generated multi-block descriptions and malformed text.")
LEVEL_NOTE = ("Trusted: Lean kernel; the hand-written parser/compiler model as far as correspondence exercises it (0 disagreements on every run); peggie's PEG "
              "semantics. The theorem is about the AST the parser model returns; that printed descriptions parse back to their AST is C06 (theorems for "
              "the lexical layers, oracle for whole descriptions). The by-name meaning is additionally compared with the real compile() per description.")
LEAN_MODULES = ["RecipeGrid.Props.C01", "RecipeGrid.Props.C01b"]
SOURCES = ["recipe_grid/compiler.py", "recipe_grid/parser/grammar.peg", "recipe_grid/parser/ast.py", "recipe_grid/recipe.py"]
RULE = ("abstract multi-block descriptions (1-3 blocks, 1-5 statements, nesting <= 3 quick / <= 6 thorough, explicit/':='/inferred/multiple outputs, every amount "
        "form, names from a small pool with case/whitespace variants so that earlier/later/repeated/cross-block mentions collide) printed in a random "
        "permitted spelling, plus mutated and token-soup texts; non-trivial = at least two statements or an error; distinct = distinct source texts")


def gen_cases(run, n):
    out = []
    for d in gen_desc.CORPUS:
        texts, marks = gen_desc.print_desc(d, gen_desc.Spelling(run.rng))
        out.append((d, texts, marks))
    for _ in range(n):
        g = gen_desc.Gen(run.rng)
        d = g.desc()
        texts, marks = gen_desc.print_desc(d, gen_desc.Spelling(run.rng))
        out.append((d, texts, marks))
    return out


def expected(d, texts, marks):
    """what the language reference prescribes: ("ok", blocks) | (kind, offset-in-block)"""
    try:
        recipes, folds = gen_desc.meaning(d)
        return ("ok", rsexp.c_blocks(recipes), folds)
    except gen_desc.Rejected as e:
        off = marks[e.where]
        if e.where[0] == "out":
            (b, j), i = e.where[1], e.where[2]
            name = d[b][j][0][i]
            if not isinstance(name[0], str):
                off += 1     # a name that starts with a scaled number is located at the number inside the braces
            return (e.kind, b, off)
        return (e.kind, e.where[1][0], off)


def line_col(text, off):
    """independent of peggie: lines end at str.splitlines boundaries"""
    lines = text.splitlines(keepends=True)
    rem = off
    for i, l in enumerate(lines):
        if rem < len(l):
            return i + 1, rem + 1
        rem -= len(l)
    return max(len(lines), 1), (len(lines[-1]) if lines else 0) + 1


def check_case(d, texts, marks):
    out = []
    exp = expected(d, texts, marks)
    real = real_outcome(texts)
    if exp[0] == "ok":
        if real[0] != "ok":
            out.append(("C01:valid-description-rejected", "%r for %r" % (brief(real), texts)))
        elif real[1] != exp[1]:
            out.append(("C01:compiled-recipe-differs-from-documented-meaning", "sources %r" % (texts,)))
    else:
        kind, b, off = exp
        if real[0] != kind:
            out.append(("C01:wrong-verdict", "expected %s error, got %r for %r" % (kind, brief(real), texts)))
        else:
            l, c = line_col(texts[b], off)
            if (real[2], real[3]) != (l, c) or real[1] != off:
                out.append(("C01:error-position-wrong", "%s expected at line %d col %d, reported %d:%d in %r" % (kind, l, c, real[2], real[3], texts[b])))
    return out


def correspondence(run):
    cases = gen_cases(run, run.budget(500, 12000))
    tl = [t for _, t, _ in cases]
    rng = run.rng
    for _ in range(run.budget(250, 6000)):
        k = rng.random()
        if k < 0.5:
            t = list(rng.choice(cases)[1])
            i = rng.randrange(len(t))
            t[i] = parser_corr.mutate(rng, t[i])
            tl.append(t)
        elif k < 0.8:
            tl.append([parser_corr.gen_structured(rng) for _ in range(rng.choice([1, 1, 2]))])
        else:
            tl.append([parser_corr.gen_soup(rng)])
    rep = run.ask(model_requests(tl))
    for t, m in zip(tl, rep):
        real = real_outcome(t)
        run.case(("compile", tuple(t)), sum(x.count("\n") for x in t) > 0 or real[0] != "ok", kind=real[0] if real[0] != "exception" else real[1],
                 sample={"sources": t, "outcome": list(brief(real))})
        run.groups["compile"] += 1
        if not same(real, m):
            run.disagree("compile", list(t), repr(brief(real) if real[0] != "ok" else real[1])[:1500], repr(m)[:1500])


RAW_VALID = [("{}", 1), ("2 {}", 1), ("mix(flour, salt {})", 1), ("{} = boil(water)\nserve({})", 1), ("''", 1), ("fry('')", 1), ('""', 1),
             ("1 g {} of x", 1), ("a {}{} b", 1), ("x = {}\ny = ''\nmix(x, y)", 1), ("sauce {} = boil({} tomato {})\nserve(1/2 of sauce, rest of sauce)", 2)]


def oracle(run):
    cases = gen_cases(run, run.budget(600, 15000))
    for g, inp in run.focus:
        pass
    folds = 0
    for d, texts, marks in cases:
        run.case(("oracle", tuple(texts)), len(d) > 1 or len(d[0]) > 1)
        for sig, detail in check_case(d, texts, marks):
            run.violate(sig, detail, {"desc": repr(d), "sources": texts})
    run.note("by-name meaning compared with compile() on %d descriptions" % len(cases))
    # legal descriptions at the edge of the string syntax (empty strings of every kind), by hand: accepted, with this many root trees
    for text, roots in RAW_VALID:
        run.case(("raw-valid", text), True, kind="raw-valid")
        real = real_outcome([text])
        if real[0] != "ok":
            run.violate("C01:valid-description-rejected", "%r: %r" % (text, brief(real)), {"raw": text, "roots": roots})
        elif len(real[2][0].recipe_trees) != roots:
            run.violate("C01:compiled-recipe-differs-from-documented-meaning", "%r: %d root trees, expected %d" % (text, len(real[2][0].recipe_trees), roots), {"raw": text, "roots": roots})
    # the name type the comparison "ignoring case and surrounding whitespace" rests on
    run.case(("svs-algebra",), True, kind="name-normalisation")
    seen = set()
    for sig, detail in gen_desc.check_svs_algebra(run.rng, run.budget(3000, 60000)):
        if sig not in seen:
            seen.add(sig)
            run.violate("C01:" + sig, detail, {"svs_algebra": True})


def oracle_validity(run, check_recipes):
    """C08: validity walker over compile outputs and their scalings"""
    rng = run.rng
    for d, texts, marks in gen_cases(run, run.budget(250, 6000)):
        real = real_outcome(texts)
        if real[0] == "exception" and real[1] != "RecursionError":
            # the compiler's own final validity check (or a constructor) refused what the inlining pass had built from a description
            # the language reference accepts: the recipe that was about to be returned was not a well-formed DAG
            try:
                gen_desc.meaning(d)
                run.case(("oracle-compiled", tuple(texts)), True, kind="compiled-refused")
                run.violate("C08:compile-builds-a-recipe-its-own-validity-check-refuses:%s" % real[1], "%s: %s for %r" % (real[1], real[2], texts), {"source": texts, "k": "1"})
            except gen_desc.Rejected:
                pass
            continue
        if real[0] != "ok":
            continue
        k = rng.choice([2, 3, Fraction(1, 3), Fraction(7, 2), 0.5, 1.5])
        run.case(("oracle-compiled", tuple(texts)), True, kind="compiled")
        for what, recipes in (("compiled", real[2]), ("compiled+scaled", None)):
            try:
                rs = recipes if recipes is not None else [r.scale(k) for r in real[2]]
            except Exception as e:  # noqa
                run.violate("C08:scale-raises", repr(e), {"source": texts, "k": repr(k)})
                continue
            for sig, detail in check_recipes(rs, compiled=True):
                run.violate(sig, detail + " (%s)" % what, {"source": texts, "k": repr(k)})


def replay_validity(r, check_recipes):
    real = real_outcome(r["source"])
    if real[0] == "exception":
        return [("C08:compile-builds-a-recipe-its-own-validity-check-refuses:%s" % real[1], real[2])]
    if real[0] != "ok":
        return []
    k = eval(r["k"], {"Fraction": Fraction})
    return check_recipes(real[2], compiled=True) + check_recipes([x.scale(k) for x in real[2]], compiled=True)


def replay(run, obj):
    r = obj["replay"]
    if "raw" in r:
        real = real_outcome([r["raw"]])
        print(brief(real))
        return real[0] != "ok" or len(real[2][0].recipe_trees) != r["roots"]
    if r.get("svs_algebra"):
        import random
        res = gen_desc.check_svs_algebra(random.Random(0), 20000)
        for x in res[:3]:
            print(*x)
        return bool(res)
    d = eval(r["desc"], {"Fraction": Fraction})
    # positions: re-derive marks by re-printing is impossible (random spelling); compare verdict and recipes only
    try:
        recipes, _ = gen_desc.meaning(d)
        exp = ("ok", rsexp.c_blocks(recipes))
    except gen_desc.Rejected as e:
        exp = (e.kind,)
    real = real_outcome(r["sources"])
    bad = exp[0] != real[0] or (exp[0] == "ok" and exp[1] != real[1])
    print("expected", exp[0], "got", brief(real))
    return bad
