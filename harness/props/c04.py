"""C04 — rendered HTML table realises the abstract table cell for cell."""
from fractions import Fraction

from recipe_grid.recipe import Ingredient, Step, Reference, SubRecipe, Quantity, Proportion
from recipe_grid.renderer.html import render_recipe_tree
from recipe_grid.renderer.recipe_to_table import recipe_tree_to_table
from recipe_grid.number_formatting import format_number

from .. import sexp, rsexp, gen_trees, htmltok
from . import c02

PID = "C04"
TECHNIQUE = "Lean 4 theorems on the string-level HTML model and the table-forming algorithm + token-level correspondence of render_recipe_tree"
LEVEL_TEXT = ("Theorems in Lean about the executable model of render_recipe_tree (rows emitted in raster order, span attributes iff != 1, class list = kind "
              "+ one class per non-normal border) and of the HTML table-forming algorithm applied to it; model tied to renderer/html.py by token-stream "
              "equality (byte equality recorded) over decorated random trees and id prefixes.")
LEVEL_NOTE = ("Trusted: Lean kernel; hand-written model as far as correspondence exercises it; Python's html.parser as the tokenizer of the oracle. "
              "The visible text of every cell body is a theorem against an independent HTML tokenizer written in Lean (renderCellBody_text / _text_full: "
              "amount then description resp. output names, numbers as format_number shows them; exact for one-line bodies, modulo HTML whitespace "
              "collapsing where a conversions list is present; end to end (C04c): the grid a browser forms from the emitted rows with the classes on each cell is "
              "exactly the visible abstract table (html_grid_is_table), the drawing of the recipe can be read back from the HTML rows alone (html_readback, for every "
              "compile result compile_html_readback) and, for one-line cell texts, from the rendered string through the tokenizer (html_string_readback); renderCellBody_skeleton: the element structure does not depend on the text).")
LEAN_MODULES = ["RecipeGrid.Props.C04", "RecipeGrid.Props.C04b", "RecipeGrid.Props.C04c"]
SOURCES = ["recipe_grid/renderer/html.py", "recipe_grid/renderer/table.py", "recipe_grid/renderer/recipe_to_table.py"]
RULE = ("random recipe trees as in C02 decorated with every quantity/proportion form, known and free-form units, names with scaled numbers and markup "
        "characters, random id prefixes; non-trivial = more than one cell; distinct = distinct (tree, prefix)")
PREFIXES = ["sub-recipe-", "recipe-", "recipe2-", "", "x\"y-", "p&q-"]


def gen_cases(run, n):
    rng = run.rng
    shared = [SubRecipe(Ingredient(gen_trees.gen_svs(rng), gen_trees.gen_quantity(rng)), (gen_trees.gen_svs(rng),)),
              SubRecipe(Step(gen_trees.gen_svs(rng), (Ingredient(gen_trees.gen_svs(rng)),)), (gen_trees.gen_svs(rng), gen_trees.gen_svs(rng)))]
    out = []
    for _ in range(n):
        out.append((gen_trees.gen_root(rng, rng.choice([0, 1, 2, 3, 4, 6]), shared, max_arity=rng.choice([2, 4])), rng.choice(PREFIXES)))
    # now and then the same tree again with its numbers in the other type of equal value / its units in the other letter case
    return gen_trees.with_twins(rng, out)


def correspondence(run):
    cases = gen_cases(run, run.budget(1200, 20000))
    rep = run.ask([sexp.tag("html", sexp.s(pre), rsexp.tree(t)) for t, pre in cases])
    byte_equal = 0
    for (t, pre), m in zip(cases, rep):
        impl = render_recipe_tree(t, pre)
        run.case(("html", rsexp.tree(t), pre), impl.count("<td") > 1, kind="cells>1" if impl.count("<td") > 1 else "single-cell",
                 sample={"prefix": pre, "html": impl[:200]})
        run.groups["render_recipe_tree"] += 1
        if impl == m:
            byte_equal += 1
        elif htmltok.gate_tokens(impl) != htmltok.gate_tokens(m):
            run.disagree("html", {"tree": rsexp.tree(t), "prefix": pre}, impl[:2000], m[:2000])
    run.note("render_recipe_tree: %d of %d outputs byte-identical to the model's string" % (byte_equal, len(cases)))


def plain_number(x):
    return format_number(x).replace("/", "⁄")


def plain_svs(s):
    return "".join(p if isinstance(p, str) else plain_number(p) for p in s._string)


def plain_quantity(q):
    return plain_number(q.value) + (q.value_unit_spacing + q.unit if q.unit is not None else "") + q.preposition


def plain_amount(a):
    if isinstance(a, Quantity):
        return plain_quantity(a) + " "
    if a.value is None:
        return a.remainder_wording + a.preposition + " "
    if a.value == 1.0:
        return ""
    return plain_number(a.value * 100 if a.percentage else a.value) + a.preposition.replace("*", "×") + " "


def expected_text(v):
    if isinstance(v, Ingredient):
        return (plain_quantity(v.quantity) + " " if v.quantity is not None else "") + plain_svs(v.description)
    if isinstance(v, Reference):
        return plain_amount(v.amount) + plain_svs(v.sub_recipe.output_names[v.output_index])
    if isinstance(v, Step):
        return plain_svs(v.description)
    if len(v.output_names) == 1:
        return plain_svs(v.output_names[0])
    return None  # list: checked per item


def norm_ws(s):
    """visible text: HTML collapses runs of ASCII whitespace (the renderer's indentation adds such runs)"""
    import re
    return re.sub(r"[ \t\n\r\f]+", " ", s).strip(" ")


def check_tree(t, pre):
    out = []
    html = render_recipe_tree(t, pre)
    root, problems = htmltok.tree(html)
    if problems:
        return [("C04:malformed-html", "; ".join(problems[:3]))]
    tables = [c for c in root.children if not isinstance(c, str)]
    if len(tables) != 1 or tables[0].tag != "table" or any(isinstance(c, str) and c.strip() for c in root.children):
        return [("C04:not-a-single-table", "top-level elements: %r" % [getattr(c, "tag", c) for c in root.children])]
    table = tables[0]
    if "rg-table" not in table.classes():
        out.append(("C04:table-class-missing", repr(table.attrs)))
    rows = [c for c in table.children if not isinstance(c, str)]
    if any(r.tag != "tr" for r in rows):
        return out + [("C04:non-row-in-table", "")]
    grid = []
    tds = []
    for r in rows:
        cells = [c for c in r.children if not isinstance(c, str)]
        if any(c.tag != "td" for c in cells):
            return out + [("C04:non-cell-in-row", "")]
        try:
            grid.append([(int(c.attrs.get("rowspan", 1)), int(c.attrs.get("colspan", 1))) for c in cells])
        except ValueError:
            return out + [("C04:bad-span-attribute", "")]
        for c in cells:
            if c.attrs.get("rowspan") == "1" or c.attrs.get("colspan") == "1":
                out.append(("C04:span-of-one-emitted", repr(c.attrs)))
            tds.append(c)
    placed, why = htmltok.place(grid)
    tb = recipe_tree_to_table(t)
    abstract = sorted((r, c, cell.rows, cell.columns) for (r, c), cell in tb.to_dict().items())
    if placed is None:
        return out + [("C04:html-table-not-rectangular", why)]
    h, w, pos = placed
    if (h, w) != (tb.rows, tb.columns) or sorted(pos) != abstract or len(rows) != tb.rows:
        out.append(("C04:placement-differs", "html places %dx%d %r..., abstract %dx%d %r..." % (h, w, sorted(pos)[:5], tb.rows, tb.columns, abstract[:5])))
        return out
    cells = tb.to_dict()
    for td, (y, x, rs, cs) in zip(tds, pos):
        cell = cells[(y, x)]
        v = cell.value
        want = ["rg-" + {"ingredient": "ingredient", "reference": "reference", "step": "step", "header": "sub-recipe-header",
                         "outputs": "sub-recipe-outputs"}[c02.kind_of(v)]]
        for edge in ("left", "right", "top", "bottom"):
            bt = getattr(cell, "border_" + edge).name
            if bt != "normal":
                want.append("rg-border-%s-%s" % (edge, bt.replace("_", "-")))
        if td.classes() != want:
            out.append(("C04:cell-classes-wrong", "cell (%d,%d): %r, expected %r" % (y, x, td.classes(), want)))
        exp = expected_text(v)
        skip = lambda n: n.tag == "ul" and "rg-quantity-conversions" in n.classes()  # noqa
        if exp is not None:
            if norm_ws(td.text(skip)) != norm_ws(exp):
                out.append(("C04:cell-text-wrong", "cell (%d,%d): %r, expected %r" % (y, x, td.text(skip), exp)))
        else:
            lis = [n for n in td.iter() if n.tag == "li"]
            if [norm_ws(li.text()) for li in lis] != [norm_ws(plain_svs(n)) for n in v.output_names]:
                out.append(("C04:output-list-text-wrong", "cell (%d,%d)" % (y, x)))
    return out


def oracle(run):
    for t, pre in gen_cases(run, run.budget(1200, 20000)):
        run.case(("oracle", rsexp.tree(t), pre), True)
        for sig, detail in check_tree(t, pre):
            run.violate(sig, detail, {"tree": rsexp.tree(t), "prefix": pre})
        # the classes must be those of the documented drawing of the tree (C02's independent border / geometry spec)
        for sig, detail in c02.check_tree(t):
            run.violate("C04:classes-of-a-wrong-grid:" + sig.split(":", 1)[1], detail, {"tree": rsexp.tree(t), "prefix": pre})


def replay(run, obj):
    t = c02.tree_of_sexp(sexp.decode(sexp.parse(obj["replay"]["tree"])))
    res = check_tree(t, obj["replay"]["prefix"]) + c02.check_tree(t)
    for x in res:
        print(*x)
    return bool(res)
