"""C08 — every compiled or scaled recipe is a well-formed backward-referencing DAG."""
from fractions import Fraction

from recipe_grid import recipe as R
from recipe_grid.recipe import Ingredient, Step, Reference, SubRecipe, Recipe, Proportion
from recipe_grid.scaled_value_string import ScaledValueString as SVS

from .. import sexp, rsexp, gen_trees

PID = "C08"
TECHNIQUE = "Lean 4 theorems on the constructor/validity model (refusal iff, validity preserved by scale, termination measure) + correspondence of constructors and Recipe validation"
LEVEL_TEXT = ("Theorems in Lean: each constructor of the model refuses exactly the invalid node combinations (iff statements, all inputs), the Recipe check "
              "fails exactly when some reference (also inside embedded copies) has no earlier sub-recipe root, structural validity is preserved by scaling "
              "for every factor, and following references terminates by a structural measure; the model's constructors and validity check are tied to "
              "recipe.py by comparing outcome/exception class on valid and invalid generated node combinations.")
LEVEL_NOTE = ("Trusted: Lean kernel; model as far as correspondence exercises it. For the model of compile it is a theorem (Props/C08b) that the inlining pass "
              "never fails (list.remove always finds the definition, no constructor check fires), that the result passes the Recipe check and is "
              "structurally valid (every embedded copy IS an earlier root), and that every scaling of it is valid: compile_no_internal, foldAll_ok, "
              "compile_validS, compile_scale_ok. Python values cannot be cyclic because the dataclasses are frozen (runtime fact, not modelled).")
LEAN_MODULES = ["RecipeGrid.Props.C08", "RecipeGrid.Props.C08b"]
SOURCES = ["recipe_grid/recipe.py", "recipe_grid/compiler.py"]
RULE = ("valid multi-block recipes from the generators and compiled descriptions, their scalings, and invalid combinations (multi-output sub recipe as child, "
        "zero outputs, output index out of range, reference to a non-root / later / foreign sub recipe); non-trivial = contains a reference or is invalid; "
        "distinct = distinct inputs")


def outcome(f):
    try:
        return ("ok", f())
    except R.RecipeInvariantError as e:
        return (type(e).__name__, None)


def gen_constructor_cases(rng, n):
    cases = []
    for _ in range(n):
        k = rng.random()
        multi = SubRecipe(Ingredient(gen_trees.gen_svs(rng)), tuple(gen_trees.gen_svs(rng) for _ in range(rng.randint(2, 3))), rng.random() < 0.6)
        single = SubRecipe(gen_trees.gen_tree(rng, 2, []), (gen_trees.gen_svs(rng),), rng.random() < 0.5)
        plain = gen_trees.gen_tree(rng, 2, [multi, single])
        pool = [multi, single, plain, Ingredient(SVS("x"))]
        if k < 0.35:
            inputs = [rng.choice(pool) for _ in range(rng.randint(0, 3))]
            cases.append(("mkstep", gen_trees.gen_svs(rng), inputs))
        elif k < 0.7:
            cases.append(("mksub", rng.choice(pool), [gen_trees.gen_svs(rng) for _ in range(rng.choice([0, 1, 1, 2]))], rng.random() < 0.5))
        else:
            sub = rng.choice([multi, single])
            cases.append(("mkref", sub, rng.choice([0, 0, 1, 2, 3, 5]), gen_trees.gen_amount(rng)))
    return cases


def gen_invalid_blocks(rng):
    """trees that are individually constructible, arranged so that the Recipe check may fail"""
    subs = [SubRecipe(gen_trees.gen_tree(rng, 1, []), (gen_trees.gen_svs(rng),)) for _ in range(2)]
    subs.append(SubRecipe(Ingredient(gen_trees.gen_svs(rng)), (gen_trees.gen_svs(rng), gen_trees.gen_svs(rng))))
    trees = [gen_trees.gen_tree(rng, 2, subs) for _ in range(rng.randint(1, 3))]
    layout = []
    for t in trees + rng.sample(subs, rng.randint(0, 3)):
        layout.append(t)
    rng.shuffle(layout)
    if rng.random() < 0.3:   # nest a referenced sub recipe so that it is not a root
        layout.append(Step(SVS("wrap"), (subs[0],)))
    cut = rng.randint(0, len(layout))
    blocks = [layout[:cut], layout[cut:]] if rng.random() < 0.5 else [layout]
    return [b for b in blocks if b]


def blocks_sexp(blocks):
    return sexp.lst(lambda blk: sexp.lst(rsexp.tree, blk), blocks)


def real_valid(blocks):
    prev = None
    try:
        for blk in blocks:
            prev = Recipe(tuple(blk), prev)
        return True
    except R.ReferenceToInvalidSubRecipeError:
        return False


def correspondence(run):
    cases = gen_constructor_cases(run.rng, run.budget(2000, 30000))
    reqs = []
    for c in cases:
        if c[0] == "mkstep":
            reqs.append(sexp.tag("mkstep", rsexp.svs(c[1]), sexp.lst(rsexp.tree, c[2])))
        elif c[0] == "mksub":
            reqs.append(sexp.tag("mksub", rsexp.tree(c[1]), sexp.lst(rsexp.svs, c[2]), sexp.b(c[3])))
        else:
            reqs.append(sexp.tag("mkref", rsexp.tree(c[1]), str(c[2]), rsexp.amount(c[3])))
    rep = run.ask(reqs)
    for c, m in zip(cases, rep):
        if c[0] == "mkstep":
            o = outcome(lambda: Step(c[1], tuple(c[2])))
        elif c[0] == "mksub":
            o = outcome(lambda: SubRecipe(c[1], tuple(c[2]), c[3]))
        else:
            o = outcome(lambda: Reference(c[1], c[2], c[3]))
        impl = ("ok", rsexp.c_tree(o[1])) if o[0] == "ok" else o[0]
        model = ("ok", rsexp.d_tree(m[1])) if isinstance(m, tuple) and m[0] == "ok" else m
        run.case((c[0], reqs[cases.index(c)] if False else repr(impl)[:200]), True, kind=c[0] + ":" + (o[0] if o[0] != "ok" else "ok"),
                 sample={"constructor": c[0], "outcome": o[0]})
        run.groups["constructors"] += 1
        if impl != model:
            run.disagree("constructor", reqs[0][:0] + c[0], str(impl)[:500], str(model)[:500])
    blocks = [gen_invalid_blocks(run.rng) for _ in range(run.budget(1500, 20000))]
    blocks += [[list(r.recipe_trees) for r in gen_trees.gen_blocks(run.rng)] for _ in range(run.budget(500, 5000))]
    rep = run.ask([sexp.tag("valid", blocks_sexp(b)) for b in blocks])
    for b, m in zip(blocks, rep):
        impl = real_valid(b)
        run.case(("valid", blocks_sexp(b)), True, kind="recipe-check:" + str(impl))
        run.groups["Recipe validation"] += 1
        if impl != m:
            run.disagree("valid", blocks_sexp(b), impl, m)


# ---------------------------------------------------------------- the property on the real code
def walk_refs(t, depth=0):
    if depth > 200:
        raise RecursionError("reference chain too deep")
    if isinstance(t, Reference):
        yield t
        yield from walk_refs(t.sub_recipe, depth + 1)
    elif isinstance(t, Step):
        for x in t.inputs:
            yield from walk_refs(x, depth)
    elif isinstance(t, SubRecipe):
        yield from walk_refs(t.sub_tree, depth)


def non_root_subs(t, root=True):
    if isinstance(t, SubRecipe):
        if not root:
            yield t
        yield from non_root_subs(t.sub_tree, False)
    elif isinstance(t, Step):
        for x in t.inputs:
            yield from non_root_subs(x, False)
    elif isinstance(t, Reference):
        yield from non_root_subs(t.sub_recipe, True)


def check_recipes(recipes, compiled=False):
    out = []
    earlier = []
    names = []
    for bi, r in enumerate(recipes):
        if (r.follows is None) != (bi == 0) or (bi > 0 and r.follows is not recipes[bi - 1] and rsexp.c_blocks([r.follows]) != rsexp.c_blocks([recipes[bi - 1]])):
            out.append(("C08:follows-chain-broken", "block %d" % bi))
        for t in r.recipe_trees:
            try:
                for ref in walk_refs(t):
                    if not any(rsexp.c_tree(ref.sub_recipe) == rsexp.c_tree(e) for e in earlier):
                        out.append(("C08:reference-not-to-earlier-root", str(ref.sub_recipe.output_names[0])))
                    if not (0 <= ref.output_index < len(ref.sub_recipe.output_names)):
                        out.append(("C08:output-index-out-of-range", repr(ref.output_index)))
            except RecursionError:
                out.append(("C08:reference-following-does-not-terminate", ""))
            for s_ in non_root_subs(t):
                if len(s_.output_names) != 1:
                    out.append(("C08:multi-output-sub-recipe-not-root", ""))
            for s_ in [t] + list(non_root_subs(t)):
                if isinstance(s_, SubRecipe) and len(s_.output_names) == 0:
                    out.append(("C08:zero-output-sub-recipe", ""))
            if isinstance(t, SubRecipe):
                earlier.append(t)
                names.extend(str(n).strip().lower() for n in t.output_names)
    if compiled and len(set(names)) != len(names):
        out.append(("C08:duplicate-output-names", repr(names)))
    return out


def check_refusals():
    out = []
    multi = SubRecipe(Ingredient(SVS("a")), (SVS("x"), SVS("y")))
    single = SubRecipe(Ingredient(SVS("a")), (SVS("x"),))
    exp = [
        (lambda: Step(SVS("s"), (multi,)), "MultiOutputSubRecipeUsedAsNonRootNodeError"),
        (lambda: Step(SVS("s"), (Ingredient(SVS("b")), multi)), "MultiOutputSubRecipeUsedAsNonRootNodeError"),
        (lambda: SubRecipe(multi, (SVS("z"),)), "MultiOutputSubRecipeUsedAsNonRootNodeError"),
        (lambda: SubRecipe(Ingredient(SVS("a")), ()), "ZeroOutputSubRecipeError"),
        (lambda: Reference(single, 1), "OutputIndexError"),
        (lambda: Reference(multi, 2), "OutputIndexError"),
        (lambda: Recipe((Reference(single),)), "ReferenceToInvalidSubRecipeError"),
        (lambda: Recipe((Reference(single), single)), "ReferenceToInvalidSubRecipeError"),
        (lambda: Recipe((Step(SVS("w"), (single,)), Reference(single))), "ReferenceToInvalidSubRecipeError"),
        (lambda: Recipe((Reference(single),), Recipe((Ingredient(SVS("q")),))), "ReferenceToInvalidSubRecipeError"),
        (lambda: Recipe((SubRecipe(Step(SVS("s"), (Reference(single),)), (SVS("out"),)),)), "ReferenceToInvalidSubRecipeError"),
        (lambda: Recipe((SubRecipe(Reference(single), (SVS("out"),)), single)), "ReferenceToInvalidSubRecipeError"),
        (lambda: Recipe((single, SubRecipe(Step(SVS("s"), (Reference(single),)), (SVS("out"),)))), "ok"),
        (lambda: Recipe((single, Reference(SubRecipe(Ingredient(SVS("other body")), (SVS("x"),))))), "ReferenceToInvalidSubRecipeError"),
        (lambda: Recipe((multi, Reference(SubRecipe(Ingredient(SVS("b")), (SVS("x"), SVS("y"))), 1))), "ReferenceToInvalidSubRecipeError"),
        (lambda: Recipe((Reference(SubRecipe(Ingredient(SVS("a")), (SVS("x"),), False)),), Recipe((single,))), "ReferenceToInvalidSubRecipeError"),
        (lambda: Recipe((Step(SVS("s"), (SubRecipe(Reference(single), (SVS("inner"),)),)),)), "ReferenceToInvalidSubRecipeError"),
        (lambda: Recipe((Step(SVS("s"), (Ingredient(SVS("b")), SubRecipe(Step(SVS("t"), (Reference(single),)), (SVS("inner"),), False))), single)), "ReferenceToInvalidSubRecipeError"),
        (lambda: Recipe((Step(SVS("s"), (SubRecipe(Reference(single), (SVS("inner"),)),)),), Recipe((Ingredient(SVS("q")),))), "ReferenceToInvalidSubRecipeError"),
        (lambda: Recipe((single, Step(SVS("s"), (SubRecipe(Reference(single), (SVS("inner"),)),)))), "ok"),
        (lambda: Recipe((single, Reference(single))), "ok"),
        (lambda: Recipe((Reference(single),), Recipe((single,))), "ok"),
        (lambda: Recipe((multi, Step(SVS("s"), (Reference(multi, 1), Reference(multi, 0))))), "ok"),
        (lambda: Step(SVS("s"), (single,)), "ok"),
    ]
    hidden = SubRecipe(Ingredient(SVS("a")), (SVS("x"), SVS("y")), False)      # the presentation flag has no say in what is admissible
    exp += [
        (lambda: Step(SVS("s"), (hidden,)), "MultiOutputSubRecipeUsedAsNonRootNodeError"),
        (lambda: Step(SVS("s"), (Ingredient(SVS("b")), hidden, Ingredient(SVS("c")))), "MultiOutputSubRecipeUsedAsNonRootNodeError"),
        (lambda: SubRecipe(hidden, (SVS("z"),)), "MultiOutputSubRecipeUsedAsNonRootNodeError"),
        (lambda: SubRecipe(hidden, (SVS("z"),), False), "MultiOutputSubRecipeUsedAsNonRootNodeError"),
        (lambda: Recipe((hidden, Step(SVS("s"), (Reference(hidden, 1),)))), "ok"),
    ]
    from recipe_grid.recipe import Quantity as _Q, Proportion as _P
    for qa, qb in ((_Q(100, "g"), _Q(100, "g", " ")), (_Q(100, "g"), _Q(100, "g", "", " of")), (_Q(100, "g"), _Q(100, "G")), (_Q(1, None), _Q(1.0, None, "", " of the"))):
        root = SubRecipe(Ingredient(SVS("flour"), qa), (SVS("flour"),), False)
        twin = SubRecipe(Ingredient(SVS("flour"), qb), (SVS("flour"),), False)
        # the reference embeds a sub recipe that is written differently from the root it claims to point at: not that root
        exp.append((lambda root=root, twin=twin: Recipe((root, Step(SVS("mix"), (Reference(twin),)))), "ok" if qa == qb and type(qa.value) is type(qb.value) and False else "ReferenceToInvalidSubRecipeError"))
        exp.append((lambda root=root, twin=twin: Recipe((Step(SVS("mix"), (Reference(twin),)),), Recipe((root,))), "ReferenceToInvalidSubRecipeError"))
        exp.append((lambda root=root: Recipe((root, Step(SVS("mix"), (Reference(root),)))), "ok"))
    for i, (f, want) in enumerate(exp):
        got = outcome(f)[0]
        if got != want:
            out.append(("C08:refusal-wrong", "case %d: expected %s, got %s" % (i, want, got)))
    return out


def expected_constructor_outcome(case):
    """what the documentation prescribes for one constructor call (independent of recipe.py)"""
    def is_multi(x):
        return isinstance(x, SubRecipe) and len(x.output_names) > 1
    if case[0] == "mkstep":
        return "MultiOutputSubRecipeUsedAsNonRootNodeError" if any(is_multi(x) for x in case[2]) else "ok"
    if case[0] == "mksub":
        if is_multi(case[1]):
            return "MultiOutputSubRecipeUsedAsNonRootNodeError"
        return "ZeroOutputSubRecipeError" if len(case[2]) == 0 else "ok"
    return "OutputIndexError" if not (0 <= case[2] < len(case[1].output_names)) else "ok"


def real_constructor_outcome(case):
    if case[0] == "mkstep":
        return outcome(lambda: Step(case[1], tuple(case[2])))[0]
    if case[0] == "mksub":
        return outcome(lambda: SubRecipe(case[1], tuple(case[2]), case[3]))[0]
    return outcome(lambda: Reference(case[1], case[2], case[3]))[0]


def oracle(run):
    for sig, detail in check_refusals():
        run.violate(sig, detail, {"refusal": detail})
    rng = run.rng
    for case in gen_constructor_cases(rng, run.budget(600, 8000)):
        want = expected_constructor_outcome(case)
        try:
            got = real_constructor_outcome(case)
        except Exception as e:  # noqa
            got = "raises " + type(e).__name__
        run.case(("ctor", case[0], want), True, kind="constructor")
        if got not in (want,) and not (want != "ok" and got != "ok" and case[0] == "mksub"):
            run.violate("C08:refusal-wrong", "%s: expected %s, got %s" % (case[0], want, got), {"refusal": "%s(%s)" % (case[0], ", ".join(map(repr, case[1:])))[:800]})
    for _ in range(run.budget(600, 8000)):
        rs = gen_trees.gen_blocks(rng)
        k = rng.choice([2, 3, Fraction(1, 3), Fraction(7, 2), 0.5, 1.5])
        for what, recipes in (("constructed", rs), ("scaled", [r.scale(k) for r in rs])):
            run.case(("oracle", what, rsexp.blocks(recipes)), True, kind=what)
            for sig, detail in check_recipes(recipes):
                run.violate(sig, detail + " (%s by %r)" % (what, k), {"blocks": rsexp.blocks(rs), "k": repr(k)})
    try:
        from . import c01
        c01.oracle_validity(run, check_recipes)
    except ImportError:
        run.note("compile outputs not yet covered: compiler property module not built")


def replay(run, obj):
    r = obj["replay"]
    if "refusal" in r:
        res = check_refusals()
        import random as _r
        for case in gen_constructor_cases(_r.Random(obj.get("seed", 0)), 8000):
            want = expected_constructor_outcome(case)
            try:
                got = real_constructor_outcome(case)
            except Exception as e:  # noqa
                got = "raises " + type(e).__name__
            if got != want and not (want != "ok" and got != "ok" and case[0] == "mksub"):
                res.append(("C08:refusal-wrong", "%s: expected %s, got %s" % (case[0], want, got)))
                break
    elif "source" in r:
        from . import c01
        res = c01.replay_validity(r, check_recipes)
    else:
        from .c02 import tree_of_sexp
        prev = None
        recipes = []
        for blk in sexp.decode(sexp.parse(r["blocks"])):
            prev = Recipe(tuple(tree_of_sexp(t) for t in blk), prev)
            recipes.append(prev)
        k = eval(r["k"], {"Fraction": Fraction})
        res = check_recipes(recipes) + check_recipes([x.scale(k) for x in recipes])
    for x in res:
        print(*x)
    return bool(res)
