"""C18 — title and serving count are read from the heading as documented."""
import html as pyhtml
import re

from recipe_grid import markdown as M

from .. import sexp, gen_md, md_common

PID = "C18"
TECHNIQUE = "Lean 4 theorems on the heading logic over the regenerated serving-phrase table + exact correspondence of title/servings + documented-forms oracle"
LEVEL_TEXT = ("The serving-phrase pattern is regenerated from markdown.py and the documented forms from markdown_reference.rst on every run; theorems in Lean: "
              "every documented form is accepted by the pattern (decided over the generated tables), the split is at the leftmost serving suffix, only a "
              "first, level-1, markup-free heading yields a title; the heading decision (title, servings, kind) is compared exactly with "
              "compile_markdown on generated headings, using the heading text the renderer actually saw. From the document text (C18c): firstHeadingX / docTitle "
              "model which element is the first heading (block scan to the first ATX or setext heading through blank lines, paragraphs, fenced and indented "
              "code) and how its inline text is rendered (backslash escapes, character references under marko's reference pattern with CPython's html5 tables "
              "regenerated on every run, html.escape) on the sub-language H (decidable predicate inH); doc_title_documented_form(_after / _closing), "
              "doc_title_setext_documented_form: for every title text that decodes to plain text D, every documented phrase in any letter case and spacing, "
              "every N and every continuation of the document, the title is D and the serving count N - with no observed hypothesis; "
              "doc_title_only_first_heading, doc_title_none_cases (no heading, lower level, markup: no count); the model is compared exactly with "
              "compile_markdown (level, rendered heading text, title, servings, rendered count) on generated documents, and random instances of the "
              "theorems are run on the real code.")
LEVEL_NOTE = ("Partial: outside the sub-language H (containers, tabs, HTML blocks, thematic breaks or link reference definitions before the first heading; lone special "
              "characters, links, markup together with backslashes in it) which element is the first heading and how its text is rendered is marko's business "
              "(observed per case, not modelled); inside H it is the model firstHeadingX, tied to marko by exact correspondence (validated, not proved; its "
              "'certainly markup' class rests on an unformalised argument about marko's token priorities). The heading rule is fully characterised (C18b): headingInfo_spec / headingInfo_none_iff (title and count iff the text "
              "splits as title, white space, accepted phrase, white space, digits, optional white space at the left-most such split), uniqueness, invariance under "
              "trailing white space and letter case, phrase_needs_preceding_space. Trusted: Lean kernel, translator of the pattern (it rejects patterns outside its template).")
LEAN_MODULES = ["RecipeGrid.Props.C18", "RecipeGrid.Props.C18b", "RecipeGrid.Props.C18c"]
SOURCES = ["recipe_grid/markdown.py", "docs/source/markdown_reference.rst"]
RULE = ("headings from a word pool containing 'for', digits, punctuation, entities, markup, every documented phrase form in random case and spacing, ATX and "
        "setext, levels 1-3, first or preceded by other content / other headings; non-trivial = contains a serving phrase; distinct = distinct documents")
DOCUMENTED = ["to serve", "to make", "serves", "for", "makes", "serving"]


def gen_heading_doc(rng):
    doc = gen_md.Doc()
    k = rng.random()
    if k < 0.15:
        doc.add([rng.choice(["Intro paragraph.", "Needs {2} eggs per person.", "Makes {1/2} litre; `{3}` is code."]), ""])
    if k > 0.9:
        gen_md.gen_heading(rng, doc, level=rng.choice([2, 3]))
    gen_md.gen_heading(rng, doc)
    if rng.random() < 0.3:
        gen_md.gen_heading(rng, doc, level=1, force_servings=7)
    doc.add(["Body {2} text.", ""])
    return doc


def real_info(mr):
    if mr.title is None:
        return ("no-title",)
    if mr.servings is None:
        return ("unscalable", mr.title)
    return ("scalable", mr.title, mr.servings)


def document_correspondence(run):
    """C18c: the title, serving count and first heading compile_markdown reads from a document against firstHeadingX / docTitle, html.unescape under
    marko's reference pattern against htmlUnescape, and random instances of the theorems on the real code (harness/mdheading_corr.py, its own process)"""
    import os
    import subprocess
    import sys
    here = os.path.dirname(os.path.dirname(os.path.abspath(__file__)))
    n1, n2 = ("1500", "800") if run.tier == "quick" and not getattr(run, "escalated", False) else ("12000", "6000")
    p = subprocess.run([sys.executable, os.path.join(here, "mdheading_corr.py"), str(20260930 + run.seed), n1, n2], stdout=subprocess.PIPE,
                       stderr=subprocess.STDOUT, text=True, timeout=3000, env=dict(os.environ, PYTHONPATH=os.pathsep.join(x for x in sys.path if x)))
    m = re.search(r"documents: (\d+), in H: (\d+)", p.stdout)
    m2 = re.search(r"^disagreements: (\d+)", p.stdout, re.M)
    if not m or not m2:
        run.disagree("md-title", "harness/mdheading_corr.py", p.stdout[-800:], "n/a")
        return
    run.groups["compile_markdown title / servings / first heading vs docTitle / firstHeadingX (documents of H)"] += int(m.group(2))
    run.groups["documents outside H (no claim)"] += int(m.group(1)) - int(m.group(2))
    run.evaluations += int(m.group(2))
    if int(m2.group(1)):
        for line in p.stdout.split("disagreements:")[1].splitlines()[1:8]:
            run.disagree("md-title", line.strip()[:300], "real", "model")


def correspondence(run):
    document_correspondence(run)
    docs = [gen_heading_doc(run.rng) for _ in range(run.budget(1500, 30000))]
    reqs, meta = [], []
    for doc in docs:
        text = doc.text()
        mr, events = gen_md.observe(text)
        if isinstance(mr, Exception):
            continue
        hs = md_common.heading_events(events)
        if not hs:
            continue
        # the model decides on every heading the renderer saw; only the first can give a title
        infos = []
        for (_, level, htext, first) in hs:
            phs = [p for p in gen_md.PLACEHOLDER.findall(htext)]   # placeholders of brace expressions inside this heading
            reqs.append(sexp.tag("heading", sexp.b(first), str(level), sexp.s(htext), sexp.lst(sexp.s, phs)))
            meta.append((text, hs, mr, len(infos)))
            infos.append(None)
    rep = run.ask(reqs)
    by_doc = {}
    for (text, hs, mr, i), m in zip(meta, rep):
        by_doc.setdefault(text, (hs, mr, []))[2].append(m)
    for text, (hs, mr, ms) in by_doc.items():
        model = ("no-title",)
        for m in ms:
            if m != "no-title":
                model = tuple(m[:3]) if m[0] == "scalable" else tuple(m)
        run.case(("heading", text), any(p in text.lower() for p in DOCUMENTED), kind=real_info(mr)[0], sample={"document": text[:120], "title": mr.title, "servings": mr.servings})
        run.groups["title/servings"] += 1
        if real_info(mr) != model:
            run.disagree("heading", text, real_info(mr), model)


def check_heading(title_words, phrase, n, sp1, sp2, case):
    """documented form: '<T><sp1><phrase><sp2><N>' as the first, plain, level-1 heading"""
    ph = {"lower": phrase, "upper": phrase.upper(), "title": phrase.title()}[case]
    heading = title_words + sp1 + ph + sp2 + str(n)
    mr = M.compile_markdown("# " + heading + "\n\nbody\n")
    out = []
    if mr.servings != n or mr.title != title_words.strip():
        out.append(("C18:documented-form-not-recognised:" + phrase.replace(" ", "-"),
                    "heading %r gives title %r servings %r" % (heading, mr.title, mr.servings)))
    else:
        h = mr.render(2)
        m = re.search(r'<span class="rg-serving-count">(.*?)</span></h1>', h, re.S)
        if not m or str(2 * n) not in re.sub(r"<[^>]*>", "", m.group(1)):
            out.append(("C18:heading-count-not-scaled", "heading %r at scale 2: %r" % (heading, h[:300])))
        # the heading still reads as written, with the count multiplied, at every scale (1 included)
        import html as _html
        from fractions import Fraction
        from recipe_grid.number_formatting import format_number
        from .c11 import own_format
        for k in (1, 2, Fraction(3, 2), Fraction(333, 1000), 0.333, 0.666, Fraction(1, 3), 2.5, 1.1):
            page = mr.render(k)
            hm = re.search(r"<h1[^>]*>(.*?)</h1>", page, re.S)
            shown = _html.unescape(re.sub(r"<ul.*?</ul>", "", hm.group(1), flags=re.S)) if hm else ""
            shown = " ".join(_html.unescape(re.sub(r"<[^>]*>", "", shown)).replace("\u2044", "/").split())
            # the count as the documentation displays it, computed independently of the formatter under test where that is possible
            want = " ".join((title_words + sp1 + ph + sp2 + (own_format(n * k) or format_number(n * k))).split())
            if shown != want:
                out.append(("C18:heading-text-wrong-when-rendered", "heading %r at scale %r reads %r, expected %r" % (heading, k, shown, want)))
                break
    return out


def file_route(scratch, doc, eol):
    from recipe_grid.static_site.recipe_directory import compile_recipe_markdown
    path = scratch / "recipe.md"
    path.write_bytes(doc.replace("\n", eol).encode("utf-8"))
    try:
        mr = compile_recipe_markdown(path, False, False)
    except Exception as e:  # noqa
        return (type(e).__name__, str(e)[:100])
    return (mr.title, mr.servings)


def oracle(run):
    rng = run.rng
    titles = ["Stew", "Food & drink", "Tom's pie", "Bread for two", "Tea for 2 and cake", "2 by 4", "Soup", "100% Rye", "Q \"x\"", "a_b"]
    for phrase in DOCUMENTED:
        for case in ("lower", "upper", "title"):
            for _ in range(run.budget(6, 60)):
                t = rng.choice(titles)
                n = rng.choice([1, 2, 4, 12, 100, 0, rng.randint(1, 999)])
                # the pattern's white space is Python's: form feed, vertical tab, NBSP, U+2028 ... count as much as a blank does
                sp1, sp2 = rng.choice([" ", "  ", " ", "\x0c", "\u00a0", " \x0b", "\u2028"]), rng.choice([" ", "  ", " ", "\x0c", "\u00a0", "\x1c", "\u3000"])
                run.case(("documented", t, phrase, n, sp1, sp2, case), True, kind="documented:" + phrase)
                for sig, detail in check_heading(t, phrase, n, sp1, sp2, case):
                    if "%" in t and "not-recognised" in sig:
                        sig = "C18:plain-title-with-percent-treated-as-markup"
                    run.violate(sig, detail, {"title": t, "phrase": phrase, "n": n, "sp1": sp1, "sp2": sp2, "case": case})
    # negative side: no heading first / lower level / markup / no serving word  => no servings; only the first heading counts
    neg = [("Intro\n\n## Stew for 2\n", (None, None)), ("## Stew for 2\n\n# Soup for 3\n", (None, None)), ("# *Stew* for 2\n", (None, None)),
           ("# Stew 2\n", ("Stew 2", None)), ("# Stew for two\n", ("Stew for two", None)), ("# Stew for 2\n\n# Soup for 3\n", ("Stew", 2)),
           ("para\n\n# Stew for 2\n", ("Stew", 2)), ("Stew for 2\n==========\n", ("Stew", 2)), ("# Stew before 2\n", ("Stew before 2", None)),
           ("# Food &amp; drink for 2\n", ("Food & drink", 2)), ("# Serves 2\n", ("Serves 2", None)),
           ("# *Fancy* soup\n\n# Stew for 6\n", (None, None)), ("# Soup with {2} eggs\n\n# Stew for 6\n", (None, None)),
           ("# <b>x</b>\n\ntext\n\n# Stew for 6\n", (None, None)), ("# `code` pie\n\n# Pie for 3\n", (None, None)),
           ("# Plum Preserves 2\n", ("Plum Preserves 2", None)), ("# Remakes 3\n", ("Remakes 3", None)), ("# Uniform 4\n", ("Uniform 4", None)),
           ("# Pie, serves 4\n", ("Pie,", 4)), ("Needs {2} eggs per person.\n\n# Pancakes for 4\n", ("Pancakes", 4)),
           ("Grandma's famous\nSunday roast for 6\n===\n", ("Grandma's famous\nSunday roast", 6)), ("Two line\ntitle\n=====\n", ("Two line\ntitle", None)),
           ("# Soup {v2\\} for 4\n", ("Soup {v2}", 4)), ("Tiffin {nut free\\} SERVES  6\n===\n", ("Tiffin {nut free}", 6)), ("# Hello \\{ and \\} for 3\n", ("Hello { and }", 3)),
           ("# Soup for 0\n", ("Soup", 0)),
           # digits of other scripts are not a count
           ("# \u30ab\u30ec\u30fc for \uff14\n", ("\u30ab\u30ec\u30fc for \uff14", None)), ("# Kabsa serves \u0664\n", ("Kabsa serves \u0664", None)), ("# Dal makes \u0967\u0968\n", ("Dal makes \u0967\u0968", None))]
    # leading lines of the kind other tools put first: a rule followed by a paragraph with a rule under it is a second-level heading, and it comes first
    neg += [("---\ntags: soup\n---\n\n# Stew for 6\n", (None, None)), ("---\ntitle: Other\ndate: 2020\n---\n# Stew for 6\n", (None, None)),
            ("---\n\n---\n\n# Stew for 6\n", ("Stew", 6)), ("---\n# Stew for 6\n", ("Stew", 6)), ("***\nStew for 6\n---\n\n# Soup for 2\n", (None, None))]
    import shutil
    from .. import gen_site
    from recipe_grid.static_site.recipe_directory import compile_recipe_markdown
    scratch = gen_site.scratch_root()
    try:
        for doc, (t, n) in neg:
            mr = M.compile_markdown(doc)
            run.case(("negative", doc), True, kind="negative")
            if (mr.title, mr.servings) != (t, n):
                run.violate("C18:heading-rule-wrong", "%r gives %r, expected %r" % (doc, (mr.title, mr.servings), (t, n)), {"document": doc, "expected": [t, n]})
            # the same document read from a file (site generator, stand-alone page, commands), in each line-ending convention of text files
            for name, eol in (("lf", "\n"), ("crlf", "\r\n"), ("cr", "\r")):
                run.case(("negative-file", name, doc), True, kind="file-route:" + name)
                got = file_route(scratch, doc, eol)
                if got != (t, n):
                    run.violate("C18:heading-rule-wrong:file:" + name, "%r in a file with %s line endings gives %r, expected %r" % (doc, name, got, (t, n)),
                                {"document": doc, "expected": [t, n], "file_eol": eol})
        for phrase in DOCUMENTED:
            for name, eol in (("lf", "\n"), ("crlf", "\r\n"), ("cr", "\r")):
                doc = "# Leek soup %s  7  \n\nText.\n\n    2 leeks\n" % phrase.upper()
                run.case(("documented-file", name, doc), True, kind="file-route:" + name)
                got = file_route(scratch, doc, eol)
                if got != ("Leek soup", 7):
                    run.violate("C18:heading-rule-wrong:file:" + name, "%r in a file with %s line endings gives %r" % (doc, name, got), {"document": doc, "expected": ["Leek soup", 7], "file_eol": eol})
    finally:
        shutil.rmtree(scratch, ignore_errors=True)


def replay(run, obj):
    r = obj["replay"]
    if "file_eol" in r:
        import shutil
        from .. import gen_site
        scratch = gen_site.scratch_root()
        try:
            got = file_route(scratch, r["document"], r["file_eol"])
        finally:
            shutil.rmtree(scratch, ignore_errors=True)
        print(got)
        return list(got) != r["expected"]
    if "document" in r:
        mr = M.compile_markdown(r["document"])
        bad = [mr.title, mr.servings] != r["expected"]
        print(mr.title, mr.servings)
        return bad
    res = check_heading(r["title"], r["phrase"], r["n"], r["sp1"], r["sp2"], r["case"])
    for x in res:
        print(*x)
    return bool(res)
