"""C12 — units: every name is recognised and every conversion is physically right."""
import itertools
import math
from fractions import Fraction

from recipe_grid.units import UNIT_SYSTEM
from recipe_grid.recipe import Quantity, Ingredient
from recipe_grid.compiler import compile as rg_compile
from recipe_grid.renderer.html import render_quantity
from recipe_grid.number_formatting import format_number

from .. import sexp, rsexp

PID = "C12"
TECHNIQUE = "Lean 4 kernel-decided theorems over the regenerated (finite) unit table + exhaustive bit-exact correspondence of conversions"
LEVEL_TEXT = ("The unit table is regenerated from units.py on every run and the laws are theorems about that finite table decided by the Lean kernel "
              "(decide +kernel): forest shape, reciprocity and transitivity of factors (spec layer), refusal exactly across kinds, agreement of every "
              "factor with hand-written physical reference values to 1e-6, binary64 factors within 4 ulp of the exact ones, completeness of the "
              "alternative-unit list, documented names = table names; the equal-amount test (C12b): refused between a unit and none and across kinds for all values, between known units of one kind it is the exact comparison of value against value times the table factor at relative tolerance 1e-9 off a guard band of 2^-21 (binary64 error analysis), aliases and letter cases of one unit with equal values are equal amounts under every exact scaling, unknown units need the same name; the conversion walk, alternative list and equal-amount test are tied to the code by "
              "exhaustive bit-exact comparison over all pairs of names.")
LEVEL_NOTE = ("Trusted: Lean kernel; translator for the table; reference constants hand-written in Props/C12.lean (US cup 236.5882365 ml, imperial pint "
              "568.26125 ml, lb 453.59237 g). Recognition of every name in any letter case/spacing/preposition is enumerated completely through the real "
              "compile() by the oracle and (once the parser model is tied in) by correspondence; the universal case-folding lemma is not yet a theorem.")
LEAN_MODULES = ["RecipeGrid.Props.C12", "RecipeGrid.Props.C12b", "RecipeGrid.Props.C12c"]
SOURCES = ["recipe_grid/units.py", "recipe_grid/recipe.py", "recipe_grid/renderer/html.py", "recipe_grid/parser/grammar.peg"]
EXHAUSTIVE = True
RULE = ("complete enumeration: all ordered pairs of the unit names (conversion, both layers), every name (alternative list, rendering), every name x "
        "{lower, UPPER, Title, aLtErNaTiNg} x {no space, space} x {none, of, of the} through compile(); random quantity pairs for the equal-amount test; "
        "non-trivial = pair of different names; distinct = distinct inputs")

# documented names on the pinned tree (docs are generated from the table, so this list is the reference)
DOCUMENTED = {
    "mass": [("g", "gram", "grams"), ("kg", "kilo", "kilos", "kilogram", "kilograms"), ("lb", "lbs", "pound", "pounds"), ("oz", "ozs", "ounce", "ounces")],
    "volume": [("l", "litre"), ("ml", "mill", "mills", "milliliter", "milliliters"),
               ("tsp", "tsps", "teaspoons", "teaspoon", "tea spoon", "tea spoons"),
               ("tbsp", "tbsps", "tablespoon", "tablespoons", "table spoon", "table spoons"), ("cup", "cups"), ("pint", "pints")],
    "clove": [("clove", "cloves")], "bulb": [("bulb", "bulbs")], "can": [("can", "cans", "tin", "tins")], "pinch": [("pinch", "pinches")],
    "knob": [("knob", "knobs")], "packet": [("packet", "packets", "pack", "packs")], "box": [("box", "boxes", "boxen")], "bag": [("bag", "bags")],
    "sack": [("sack", "sacks")], "sachet": [("sachet", "sachets")], "rasher": [("rasher", "rashers")], "strip": [("strip", "strips")],
}
REF = {"g": Fraction(1), "kg": Fraction(1000), "lb": Fraction("453.59237"), "oz": Fraction("453.59237") / 16,
       "l": Fraction(1), "ml": Fraction(1, 1000), "tsp": Fraction(5, 1000), "tbsp": Fraction(15, 1000),
       "cup": Fraction("0.2365882365"), "pint": Fraction("0.56826125")}
NAME_KIND = {}
NAME_REF = {}
for kind, units in DOCUMENTED.items():
    for names in units:
        for n in names:
            NAME_KIND[n] = kind
            NAME_REF[n] = REF.get(names[0], Fraction(1)) if kind in ("mass", "volume") else Fraction(1)
            NAME_REF.setdefault(n, Fraction(1))
PRIMARY = {n: names[0] for units in DOCUMENTED.values() for names in units for n in names}


def real_convert(a, b):
    try:
        return UNIT_SYSTEM.convert_between(a, b)
    except KeyError:
        return None


def rng_case(a, v):
    """the unit name in a letter case that depends on the inputs only (deterministic)"""
    k = (len(a) + int(v * 2)) % 3
    return a if k == 0 else (a.upper() if k == 1 else a.title())


def names_now():
    return list(UNIT_SYSTEM.iter_names())


def correspondence(run):
    names = names_now()
    pairs = [(a, b) for a in names for b in names]
    rep = run.ask([sexp.tag("conv", "F", sexp.s(a), sexp.s(b)) for a, b in pairs])
    for (a, b), m in zip(pairs, rep):
        r = real_convert(a, b)
        impl = None if r is None else sexp.pynum(r)
        run.case(("conv", a, b), a != b, kind="same-kind" if r is not None else "different-kind", sample={"convert_between": [a, b], "factor": repr(r)})
        run.groups["convert_between"] += 1
        if impl != m:
            run.disagree("conv", [a, b], impl, m)
    rep = run.ask([sexp.tag("alts", sexp.s(a)) for a in names])
    for a, m in zip(names, rep):
        impl = [[sexp.pynum(sc), n] for sc, n in sorted(UNIT_SYSTEM.iter_conversions_from(a), key=lambda sn: (sn[0] != 1, isinstance(sn[0], float), sn[1]))]
        run.case(("alts", a), True, kind="alts")
        run.groups["alternative units"] += 1
        if impl != [list(x) for x in (m or [])]:
            run.disagree("alts", a, impl, m)
    # equal-amount test on random quantity pairs (bit-exact isclose)
    rng = run.rng
    qs = []
    for _ in range(run.budget(3000, 40000)):
        a = rng.choice(names + ["sack", "handful", None])
        b = rng.choice([rng.choice(names), a, a, PRIMARY.get(a, a), "Handful", None])
        v = rng.choice([1, 2, 500, Fraction(1, 2), 0.5, 1.5, 250.0, rng.randint(1, 2000), rng.randint(1, 10 ** 6) / 1000])
        k = real_convert(b.lower(), a.lower()) if (a and b) else None
        if k is not None and rng.random() < 0.8:
            w = v / k if rng.random() < 0.5 else Fraction(v) / Fraction(k)
            if rng.random() < 0.3:
                w = float(w) * (1 + rng.choice([1e-9, -1e-9, 2e-9, 1e-10, 9.99e-10, 1.001e-9]))
        else:
            w = rng.choice([v, v, 1, 2.0])
        if a and rng.random() < 0.3:
            a = rng.choice([a.upper(), a.title()])
        qs.append((Quantity(v, a), Quantity(w, b)))
    rep = run.ask([sexp.tag("eqv", rsexp.qty(x), rsexp.qty(y)) for x, y in qs])
    for (x, y), m in zip(qs, rep):
        impl = x.has_equal_value_to(y)
        run.case(("eqv", repr(x), repr(y)), True, kind="eqv-%s" % impl)
        run.groups["has_equal_value_to"] += 1
        if impl != m:
            run.disagree("eqv", [repr(x), repr(y)], impl, m)


def case_variants(n):
    alt = "".join(c.upper() if i % 2 else c.lower() for i, c in enumerate(n))
    return sorted({n, n.upper(), n.title(), alt})


def check_recognition(name, spelled, sp, prep):
    text = "2%s%s%s spam" % (sp, spelled, prep)
    try:
        r = rg_compile([text])
    except Exception as e:  # noqa
        return [("C12:unit-not-recognised", "%r does not compile: %s" % (text, type(e).__name__))]
    t = r[0].recipe_trees[0]
    ing = t.sub_tree if hasattr(t, "sub_tree") else t
    q = getattr(ing, "quantity", None)
    if not isinstance(ing, Ingredient) or q is None or q.unit != spelled or q.value_unit_spacing != sp or q.preposition != prep or str(ing.description) != "spam":
        return [("C12:unit-not-recognised", "%r parsed as %r" % (text, ing))]
    return []


def oracle(run):
    names = names_now()
    # documented names all present, nothing undocumented
    for n in NAME_KIND:
        if n not in names:
            run.violate("C12:documented-name-missing", "unit name %r is documented but unknown" % n, {"name": n})
    # recognition in any case / spacing / preposition, longest name wins (finite, complete)
    for n in sorted(NAME_KIND):
        for v in case_variants(n):
            for sp in ("", " "):
                for prep in ("", " of", " of the", " OF The"):
                    run.case(("recognise", v, sp, prep), True, kind="recognition")
                    for sig, detail in check_recognition(n, v, sp, prep):
                        run.violate(sig, detail, {"name": n, "spelled": v, "sp": sp, "prep": prep})
    # conversions
    for a in sorted(NAME_KIND):
        for b in sorted(NAME_KIND):
            run.case(("phys", a, b), a != b, kind="physics")
            f = real_convert(a, b)
            same = NAME_KIND[a] == NAME_KIND[b] and (NAME_KIND[a] in ("mass", "volume") or PRIMARY[a] == PRIMARY[b])
            if not same:
                if f is not None:
                    run.violate("C12:converts-across-kinds", "%s -> %s gives %r" % (a, b, f), {"pair": [a, b]})
                continue
            if f is None:
                run.violate("C12:conversion-refused", "%s -> %s refused" % (a, b), {"pair": [a, b]})
                continue
            want = NAME_REF[a] / NAME_REF[b]
            if abs(Fraction(f) - want) > want * Fraction(1, 10 ** 6):
                run.violate("C12:factor-physically-wrong", "%s -> %s is %r, physical value %s" % (a, b, f, float(want)), {"pair": [a, b]})
            g = real_convert(b, a)
            if g is None or abs(Fraction(f) * Fraction(g) - 1) > Fraction(1, 10 ** 12):
                run.violate("C12:not-reciprocal", "%s <-> %s: %r * %r" % (a, b, f, g), {"pair": [a, b]})
    for kind in ("mass", "volume"):
        ns = [n for n in sorted(NAME_KIND) if NAME_KIND[n] == kind]
        prim = sorted({PRIMARY[n] for n in ns})
        for a, b, c in itertools.product(prim, repeat=3):
            run.case(("trans", a, b, c), True, kind="transitivity")
            x, y, z = real_convert(a, b), real_convert(b, c), real_convert(a, c)
            if None in (x, y, z) or abs(Fraction(x) * Fraction(y) - Fraction(z)) > abs(Fraction(z)) * Fraction(1, 10 ** 12):
                run.violate("C12:not-transitive", "%s->%s->%s" % (a, b, c), {"triple": [a, b, c]})
    # alternative-unit list
    for a in sorted(NAME_KIND):
        for v in (3, Fraction(1, 2), 2.5, 0, 0.0, Fraction(0), 1, 1.0):
            written = rng_case(a, v)
            html = render_quantity(Quantity(v, written, " "))
            import re
            import html as _html
            items = re.findall(r"<li>(.*?)</li>", html)
            others = sorted({PRIMARY[n] for n in NAME_KIND if NAME_KIND[n] == NAME_KIND[a] and NAME_KIND[a] in ("mass", "volume")} - {PRIMARY[a]})
            got = sorted(i.rsplit(" ", 1)[1] for i in items)
            run.case(("altlist", a, repr(v)), True, kind="alt-list")
            if got != others:
                run.violate("C12:alternative-list-wrong", "%r %s: lists %r, expected %r" % (v, a, got, others), {"name": a})
                continue
            # the headline is the amount as written (the author's unit, in the author's spelling)
            head = re.sub(r"<ul.*", "", html, flags=re.S)
            head_text = _html.unescape(re.sub(r"<[^>]*>", "", head)).replace("\u2044", "/").strip()
            want_head = format_number(v) + " " + written
            if " ".join(head_text.split()) != " ".join(want_head.split()):
                run.violate("C12:alternative-list-wrong", "%r %s: headline %r, expected %r" % (v, written, head_text, want_head), {"name": a})
            # every alternative shows the converted amount
            for it in items:
                val, unit = _html.unescape(re.sub(r"<[^>]*>", "", it)).replace("\u2044", "/").rsplit(" ", 1)
                f = real_convert(a, unit)
                want_val = format_number(v * f)
                if " ".join(val.split()) != want_val:
                    run.violate("C12:alternative-list-wrong", "%r %s: shows %r %s, expected %r" % (v, a, val, unit, want_val), {"name": a})
    # the consumers of "equal amount": inlining in the compiler (direct and through a chain of definitions) and the linter's sums
    prim = sorted({PRIMARY[n] for n in NAME_KIND})
    seen = set()
    for a in prim:
        for b in prim:
            if a == b:
                continue
            for chained in (False, True):
                run.case(("consumers", a, b, chained), True, kind="equal-amount-consumers")
                for sig, detail in check_consumers(a, b, chained, chained):
                    if sig not in seen:
                        seen.add(sig)
                        run.violate(sig, detail, {"consumers": [a, b, chained, chained]})
    # equal amounts
    rng = run.rng
    for _ in range(run.budget(2000, 30000)):
        a, b = rng.choice(sorted(NAME_KIND)), rng.choice(sorted(NAME_KIND))
        v = Fraction(rng.randint(1, 5000), rng.choice([1, 2, 3, 4, 10]))
        same_kind = NAME_KIND[a] == NAME_KIND[b] and (NAME_KIND[a] in ("mass", "volume") or PRIMARY[a] == PRIMARY[b])
        f = real_convert(a, b)
        delta = rng.choice([1, 1, 1, Fraction(1001, 1000), Fraction(999, 1000), 2, Fraction(1, 2)])
        # the factor itself is checked against physics above; here: equal iff the same amount under that factor
        w = v * Fraction(f) * delta if (same_kind and f is not None) else v
        ca, cb = rng.choice(case_variants(a)), rng.choice(case_variants(b))
        x, y = Quantity(v, ca), Quantity(w, cb)
        want = same_kind and delta == 1
        got = x.has_equal_value_to(y)
        run.case(("equal", a, b, str(v), str(w)), True, kind="equal-amount")
        if got != want:
            run.violate("C12:equal-amount-wrong", "%r vs %r: %s" % (x, y, got), {"a": [str(v), a], "b": [str(w), b]})
    # units the table does not know, and unit against no unit (C12b: equal_amount_unknown_units, equal_amount_unit_vs_none): the same name in
    # any letter case with the same value is the same amount; another name, or a unit against none, never is
    unknown = ["handful", "sprig", "bunch", "stick", "slice", "prise", "b\u00fcschel", "dash", "glass", "handfuls"]
    assert not any(u in NAME_KIND for u in unknown)
    for _ in range(run.budget(400, 6000)):
        a, b = rng.choice(unknown), rng.choice(unknown + [None])
        if rng.random() < 0.5:
            b = a
        v = Fraction(rng.randint(1, 5000), rng.choice([1, 2, 3, 4, 10]))
        delta = rng.choice([1, 1, 1, Fraction(1001, 1000), Fraction(999, 1000), 2])
        ca = rng.choice([a, a.upper(), a.title()])
        cb = None if b is None else rng.choice([b, b.upper(), b.title()])
        if ca.lower() != a or (cb is not None and cb.lower() != b):
            continue
        x, y = Quantity(v, ca), Quantity(v * delta, cb)
        if rng.random() < 0.5:
            x, y = y, x
        want = a == b and delta == 1
        got = x.has_equal_value_to(y)
        run.case(("equal-unknown", ca, cb, str(v), str(delta)), True, kind="equal-amount-unknown-units")
        if got != want:
            run.violate("C12:equal-amount-wrong", "%r vs %r: %s" % (x, y, got), {"a": [str(x.value), x.unit], "b": [str(y.value), y.unit]})


def num_text(x):
    """a number in the recipe syntax"""
    x = Fraction(x)
    if x.denominator == 1:
        return str(x.numerator)
    w, r = divmod(x.numerator, x.denominator)
    return ("%d " % w if w else "") + "%d/%d" % (r, x.denominator)


def check_consumers(a, b, chained, case):
    """the consumers of 'same physical amount': the compiler folds a sub recipe into its single use exactly when the use takes the whole
    amount, in whatever unit it is written (directly, or through a chain of definitions); the linter accepts uses that add up to the whole and
    refuses to add amounts of different kinds. Several sub recipes in one description, each with its own unit."""
    from recipe_grid.compiler import compile as rg_compile
    from recipe_grid.lint import check as lint_check
    out = []
    f = real_convert(a, b)
    same_kind = NAME_KIND[a] == NAME_KIND[b] and (NAME_KIND[a] in ("mass", "volume") or PRIMARY[a] == PRIMARY[b])
    ua, ub = (a.upper(), b.title()) if case else (a, b)
    if same_kind and f is not None:
        v = Fraction(3)
        w = v * Fraction(f)
        if w.denominator > 10 ** 6 or w.numerator > 10 ** 12:
            return out
        # (1) folded: one definition, one use of the whole amount in the other unit
        src = "%s %s flour\n" % (num_text(v), ua)
        name = "flour"
        if chained:
            src += "sifted flour = sift(flour)\n"
            name = "sifted flour"
        src += "knead(%s %s of the %s, water)\n" % (num_text(w), ub, name)
        try:
            trees = rg_compile([src])[0].recipe_trees
        except Exception as e:  # noqa
            return [("C12:equal-amount-wrong", "compile raises %r for %r" % (e, src))]
        if len(trees) != 1:
            out.append(("C12:equal-amount-wrong", "the whole amount in another unit is not treated as the whole: %r compiles to %d trees" % (src, len(trees))))
        # (2) two sub recipes with totals in different units, each used up by two halves written in the other's / its own unit: no findings
        src2 = ("%s %s flour\n%s %s sugar\nmix(%s %s flour, %s %s sugar)\nbake(%s %s flour, %s %s sugar)\n"
                % (num_text(2 * v), ua, num_text(2 * w), ub, num_text(w), ub, num_text(v), ua, num_text(v), ua, num_text(w), ub))
        try:
            kinds = sorted(x.kind.name for x in lint_check(rg_compile([src2])))
        except Exception as e:  # noqa
            return out + [("C12:equal-amount-wrong", "lint raises %r for %r" % (e, src2))]
        if kinds:
            out.append(("C12:equal-amount-wrong", "uses that add up to the whole in convertible units are reported %r: %r" % (kinds, src2)))
    else:
        # different kinds: a use written in a unit of another kind is refused, also when an earlier sub recipe of the description
        # was (rightly) converted from that very unit
        ka = [n for n in sorted(NAME_KIND) if NAME_KIND[n] == NAME_KIND[a] and n != a and real_convert(a, n) is not None]
        if not ka:
            return out
        r = ka[0]
        fr = Fraction(real_convert(a, r))
        if fr.denominator > 10 ** 6:
            return out
        src3 = ("2 %s flour\n2 %s milk\nmix(%s %s flour, %s %s milk)\nbake(%s %s flour, %s %s milk)\n"
                % (ua, ub, num_text(fr), r, num_text(fr), r, num_text(fr), r, num_text(fr), r))
        try:
            kinds = sorted(set(x.kind.name for x in lint_check(rg_compile([src3]))))
        except Exception as e:  # noqa
            return out + [("C12:converts-across-kinds", "lint raises %r for %r" % (e, src3))]
        if kinds != ["sub_recipe_reference_incompatible_units"]:
            out.append(("C12:converts-across-kinds", "flour in %s, milk in %s, both used in %s: lint reports %r, expected the incompatible units of the milk only: %r" % (a, b, r, kinds, src3)))
    return out


def replay(run, obj):
    r = obj["replay"]
    if "consumers" in r:
        res = check_consumers(*r["consumers"])
        for x in res:
            print(*x)
        return bool(res)
    if "spelled" in r:
        res = check_recognition(r["name"], r["spelled"], r["sp"], r["prep"])
        for x in res:
            print(*x)
        return bool(res)
    n0 = len(run.violations)
    oracle(run)
    sig = obj.get("signature")
    hit = [v for v in run.violations[n0:] if v["signature"] == sig]
    for v in hit[:3]:
        print(v["signature"], v["detail"])
    return bool(hit)
