"""C13 — a Markdown document becomes its recipes plus ordinary CommonMark."""
import random as pyrandom
import re
from fractions import Fraction

import marko
from recipe_grid.compiler import compile as rg_compile
from recipe_grid import markdown as M

from .. import sexp, rsexp, gen_md, md_common

PID = "C13"
TECHNIQUE = "Lean 4 theorems on the Markdown decision logic (block grouping, placeholder substitution) + exact correspondence of render() and grouping + CommonMark differential oracle"
LEVEL_TEXT = ("Lean model of the logic inside markdown.py: grouping of code blocks into independent recipes, line padding, and MarkdownRecipe.render as chained "
              "placeholder replacement; theorems: exactly the indented and recipe/new-recipe fenced blocks are grouped in order with a new group at each "
              "new-recipe, and the substitution algebra; compile_pad: compiling the line-padded sources the front end builds equals compiling the block texts "
              "directly, up to the offsets inside the two positioned errors (for every padding and every text); render(k) is compared byte for byte with the model on generated documents and scales; grouping "
              "with the observed code blocks. Scaled-value expressions in prose (C13c): the ScaledValueExpression patterns are transcribed literally into a "
              "backtracking regex engine in Lean (braceMatch, braceParts); theorems: the match is anchored and sound and equals a search in which only "
              "backslashes and braces matter (braceMatch_search, braceMatch_iff, braceMatch_greedy), the finditer tokenisation is a deterministic lexer "
              "(brace_step_groups), every spelling of a number is read as its value (spelling_*), no zero denominator and no exception for sources up to "
              "300 characters (braceParts_total, braceExpr_total), what an author writes with printBrace is matched as a whole and read back as the "
              "original string (print_parse_roundtrip, side conditions each shown necessary), and scaling multiplies exactly the numbers found "
              "(brace_scale); pattern.match and the constructed string are compared exactly with the model on exhaustive short soups, structured and "
              "malformed sources. From the document text (C13d): which fenced block starts a new independent recipe, for documents of the sub-language D of "
              "the block-scanner model (scan_group, scan_group_new).")
LEVEL_NOTE = ("Partial: marko's CommonMark parsing/rendering is outside the model; 'everything else renders as plain CommonMark', absence of placeholder "
              "residue and independence of the random generator are checked by the oracle against marko.Markdown() on generated documents (search). "
              "Placeholder collisions with document text have probability about 26^-32 per position (stated, not proved).")
LEAN_MODULES = ["RecipeGrid.Props.C13", "RecipeGrid.Props.C13b", "RecipeGrid.Props.C13c", "RecipeGrid.Props.C13d", "RecipeGrid.Props.C13e"]
SOURCES = ["recipe_grid/markdown.py"]
RULE = ("generated documents: optional first heading (ATX/setext, serving phrases), prose with and without brace expressions, lists, quotes, raw HTML, code "
        "spans, other fenced code, 1-2 independent recipes of 1-3 blocks each as indented / ```recipe / ~~~new-recipe blocks at top level, in list items "
        "and in block quotes; scales from ints, Fractions and floats; non-trivial = at least one recipe block; distinct = distinct documents")


def gen_cases(run, n):
    # first one document per description of the corpus of minimised past failures (multi-block ones keep their blocks), then random ones
    from .. import gen_desc
    return [gen_md.gen_doc(run.rng, descs=[d]) for d in gen_desc.CORPUS] + [gen_md.gen_doc(run.rng) for _ in range(n)]


def brace_correspondence(run):
    """C13c: ScaledValueExpression.pattern.match / the constructed ScaledValueString against Model/BraceExpr.lean (harness/brace_corr.py, its own
    process: it lifts the interpreter's int/str digit limit only where it decodes the model's replies)"""
    import os
    import subprocess
    import sys
    mode = "--tiny" if run.tier == "quick" and not getattr(run, "escalated", False) else "--quick" if run.tier == "quick" else "--full"
    here = os.path.dirname(os.path.dirname(os.path.abspath(__file__)))
    p = subprocess.run([sys.executable, os.path.join(here, "brace_corr.py"), mode, "--seed", str(20260930 + run.seed)], stdout=subprocess.PIPE, stderr=subprocess.STDOUT,
                       text=True, timeout=3000, env=dict(os.environ, PYTHONPATH=os.pathsep.join(x for x in sys.path if x)))
    import re as _re
    m = _re.search(r"compared: (\d+) match, (\d+) parse; disagreements: (\d+)", p.stdout)
    if not m:
        run.disagree("brace-expression", "harness/brace_corr.py " + mode, p.stdout[-800:], "n/a")
        return
    run.groups["ScaledValueExpression.pattern.match vs braceMatch"] += int(m.group(1))
    run.groups["ScaledValueExpression(...).string vs braceParts"] += int(m.group(2))
    run.evaluations += int(m.group(1)) + int(m.group(2))
    for line in p.stdout.splitlines():
        mm = _re.match(r"\s+((?:match|parse|roundtrip)/\S+)\s+(\d+)$", line)
        if mm:
            run.dist["brace:" + mm.group(1)] += int(mm.group(2))
    for blk in _re.findall(r"DISAGREE (\w+) input=(.*)\n\s+real =(.*)\n\s+model=(.*)", p.stdout)[:10]:
        run.disagree("brace-expression:" + blk[0], blk[1], blk[2], blk[3])


def correspondence(run):
    brace_correspondence(run)
    docs = gen_cases(run, run.budget(250, 5000))
    reqs, meta = [], []
    for doc in docs:
        text = doc.text()
        mr, events = gen_md.observe(text)
        if isinstance(mr, Exception):
            run.case(("md", text), True, kind="rejected:" + type(mr).__name__)
            continue
        k = md_common.gen_scale(run.rng)
        try:
            rendered = mr.render(k)
        except Exception as e:  # noqa
            rendered = "render raised %s: %s" % (type(e).__name__, str(e)[:100])
        reqs.append(sexp.tag("mdrender", md_common.doc_sexp(mr), sexp.num(k)))
        meta.append(("render", text, rendered, k))
        kinds = []
        for e in md_common.block_events(events):
            if e[0] == "other-fence":
                kinds.append(sexp.tag("fenced", sexp.s(e[1] or "")))
            elif e[1] == "indented":
                kinds.append("indented")
            else:
                kinds.append(sexp.tag("fenced", sexp.s(e[2])))
        reqs.append(sexp.tag("group", "(l " + " ".join(kinds) + ")"))
        # observed grouping: recipe block index within all code blocks, per independent recipe
        idx = [i for i, e in enumerate(md_common.block_events(events)) if e[0] == "recipe-block"]
        groups, it = [], iter(idx)
        for g in mr.recipes:
            groups.append([next(it) for _ in g])
        meta.append(("group", text, groups, None))
        for e in md_common.block_events(events):
            if e[0] == "recipe-block":
                reqs.append(sexp.tag("padsrc", sexp.s(text), str(e[3]), sexp.b(e[1] == "fenced"), sexp.s(e[4])))
                rb = M.RecipeSourceBlock(e[4], e[3], e[1] == "fenced", e[2] == "new-recipe")
                meta.append(("padsrc", text, rb.get_line_number_corrected_source(text), None))
    rep = run.ask(reqs)
    for (what, text, impl, k), m in zip(meta, rep):
        run.case((what, text, repr(k)), True, kind=what, sample={"kind": what, "document": text[:200]} if what == "render" else None)
        run.groups["markdown " + what] += 1
        if impl != m:
            run.disagree(what, {"document": text, "scale": repr(k)}, repr(impl)[:1500], repr(m)[:1500])


# ------------------------------------------------------------------ oracle
def plain_doc(doc):
    """the same document with every recipe block replaced by an ordinary code block holding a marker"""
    lines = list(doc.lines)
    return lines


def normalise_recipe_html(mr_html, mr):
    """undo, textually, what the extension adds: placeholders of recipe blocks / brace expressions / title header"""
    out = mr_html
    if mr.pre_title_placeholder:
        out = out.replace(mr.pre_title_placeholder, "").replace(mr.post_title_placeholder, "")
    out = re.sub(r'<h1 class="rg-title-(?:un)?scalable">', "<h1>", out)
    return out


def check_doc(doc, seeds=(1, 2)):
    out = []
    text = doc.text()
    pyrandom.seed(seeds[0])
    mr, events = gen_md.observe(text)
    if isinstance(mr, Exception):
        # a document all of whose recipe blocks are valid descriptions must compile: nothing else may be read as a recipe
        from .. import gen_desc
        descs = getattr(doc, "descs", None)
        if descs is not None:
            try:
                for d in descs:
                    gen_desc.meaning(d)
            except gen_desc.Rejected:
                return out      # an error in a recipe block: C07/C19's business
            out.append(("C13:valid-document-rejected", "%s: %s" % (type(mr).__name__, str(mr).replace("\n", " | ")[:200])))
        return out
    # 1. exactly the recipe blocks are compiled, in order, grouped at new-recipe; equals compiling the block texts directly
    blocks = [e for e in events if e[0] == "recipe-block"]
    if len(blocks) != len(doc.blocks):
        out.append(("C13:wrong-blocks-treated-as-recipes", "document has %d recipe blocks, %d were compiled" % (len(doc.blocks), len(blocks))))
        return out
    groups = {}
    for b in doc.blocks:
        groups.setdefault(b["group"], []).append(b["text"])
    try:
        direct = [rg_compile(ts) for _, ts in sorted(groups.items())]
    except Exception as e:  # noqa
        direct = None
    if direct is not None:
        if [rsexp.c_blocks(g) for g in mr.recipes] != [rsexp.c_blocks(g) for g in direct]:
            out.append(("C13:recipes-differ-from-direct-compilation", "groups %r" % ([len(g) for g in mr.recipes],)))
    # 1b. a plain top-level first heading gets the title header (and only then)
    t = getattr(doc, "title", None)
    if t is not None and t.get("plain") and t["level"] == 1 and t.get("first") and t["text"].strip():
        page = mr.render(1)
        if mr.title is None or "<header>" not in page or not re.search(r'<h1 class="rg-title-(?:un)?scalable">', page):
            out.append(("C13:plain-first-heading-without-title-header", "heading %r: title %r" % (t["text"], mr.title)))
    # 1c. the tables of the recipe blocks show the compiled recipes: every cell's text is the amount and name of its node (C04's cell oracle,
    #     whose expectation is computed from the tree and not by the renderer), for the first trees of every independent recipe
    from . import c04
    seen_sigs = set()
    for gi, g in enumerate(mr.recipes):
        for r in g:
            for t in r.recipe_trees[:4]:
                for sig, detail in c04.check_tree(t, "recipe%d-" % gi):
                    if sig not in seen_sigs:
                        seen_sigs.add(sig)
                        out.append(("C13:recipe-block-table-wrong:" + sig.split(":", 1)[1], detail))
    # 2. no placeholder residue, independent of the RNG, at several scales
    for k in (1, 2, Fraction(3, 2)):
        try:
            r1 = mr.render(k)
        except Exception as e:  # noqa
            out.append(("C13:render-raises:%s" % type(e).__name__, "render(%r): %s" % (k, str(e)[:200])))
            return out
        if gen_md.PLACEHOLDER.search(r1):
            out.append(("C13:placeholder-residue", "scale %r: %r" % (k, gen_md.PLACEHOLDER.search(r1).group(0))))
        pyrandom.seed(seeds[1])
        mr2 = M.compile_markdown(text)
        if mr2.render(k) != r1:
            out.append(("C13:output-depends-on-random-state", "scale %r" % (k,)))
    # 3. everything else is plain CommonMark: replace recipe blocks by marker code blocks, brace expressions by marker words
    lines = list(doc.lines)
    for n, b in enumerate(doc.blocks):
        ncode = len(b["text"].split("\n"))
        first = b["first_line"]
        for i in range(ncode):
            ln = lines[first + i]
            keep = ln[:len(b["prefix"])] if ln.startswith(b["prefix"]) else ("    " if b["kind"] == "indented" else "")
            lines[first + i] = (keep + "RGBLOCK%d" % n) if i == 0 else None
        if b["kind"] != "indented":
            lines[first - 1] = re.sub(r"(new-)?recipe\s*$", "rgmark", lines[first - 1])
    plain_text = "\n".join(l for l in lines if l is not None) + "\n"
    svs_n = [0]

    def mark(m):
        svs_n[0] += 1
        return "RGSVS%dX" % svs_n[0]
    # brace expressions outside code: the generator only writes them in prose / list / quote lines
    plain_lines = []
    in_fence = False
    for l in plain_text.split("\n"):
        if re.match(r"^\s*(>\s*)?(```|~~~)", l):
            in_fence = not in_fence
        if in_fence or l.startswith("    ") or l.startswith("<div>"):
            plain_lines.append(l)
        else:
            # code spans, inline HTML / autolinks (higher inline priority) and escaped braces are not expressions
            parts = re.split(r"(`[^`]*`|<[^>]*>|\\[{}])", l)
            parts = [p if p.startswith(("`", "\\", "<")) else re.sub(M.ScaledValueExpression.pattern.pattern, mark, p) for p in parts]
            plain_lines.append("".join(parts))
    plain = marko.Markdown()("\n".join(plain_lines))
    got = normalise_recipe_html(mr.html, mr)
    for n, (ph, _) in enumerate(mr.recipe_placeholders.items()):
        got = got.replace(ph, "[[B%d]]" % n)
    plain = re.sub(r'<pre><code(?: class="language-rgmark")?>RGBLOCK(\d+)\n</code></pre>\n', lambda m: "[[B%s]]" % m.group(1), plain)
    title_ph = None
    if mr.servings is not None:
        # the heading's serving count is a scaled value wrapped in a span
        m = re.search(r'<span class="rg-serving-count">(.*?)(%[A-Z]{32}%)</span>', got)
        if m:
            title_ph = m.group(2)
            got = got.replace(m.group(0), m.group(1) + str(mr.servings))
    i = 0
    for ph in mr.scaled_value_strings:
        if ph == title_ph:
            continue
        i += 1
        got = got.replace(ph, "RGSVS%dX" % i)
    if mr.servings is not None:
        plain = re.sub(r"(<h1>.*?)0*(\d+)(\s*</h1>)", lambda m: m.group(1) + str(int(m.group(2))) + m.group(3), plain, count=1, flags=re.S)
        got = re.sub(r"(<h1>.*?)0*(\d+)(\s*</h1>)", lambda m: m.group(1) + str(int(m.group(2))) + m.group(3), got, count=1, flags=re.S)
    if got != plain:
        # first difference
        j = next((x for x in range(min(len(got), len(plain))) if got[x] != plain[x]), min(len(got), len(plain)))
        out.append(("C13:differs-from-plain-commonmark", "at %d: recipe_grid %r vs marko %r" % (j, got[max(0, j - 40):j + 60], plain[max(0, j - 40):j + 60])))
    return out


# ---- "brace expressions in prose are replaced by their content with its numbers scaled": the content, read independently
BRACE_PROBES = ["{2} eggs", "Use {1/2} cup and {1 1/2} tsp.", "{0 eggs} today", "{2 hours at 0 degrees}", "{0/4 of it} left", "{10} or {0.5} or {0.0}",
                "{serves 4, or 8 small}", "a{3}b{ 4 }c", "{1 / 2} and {3\t1/ 4}", "{7}{8} {9}", "{12.50 g}", "{007}", "{1/3}"]


def brace_expected(line, k):
    """the visible text of a prose line at scale k (numbers inside braces multiplied and shown by format_number, the rest verbatim)"""
    from recipe_grid.number_formatting import format_number
    out, i = "", 0
    num = re.compile(r"(?:(\d+)[ \t]+)?(\d+)[ \t]*/[ \t]*(0*[1-9]\d*)|(\d+(?:\.\d*)?)")
    while i < len(line):
        if line[i] != "{":
            out += line[i]
            i += 1
            continue
        j = i + 1
        while j < len(line):
            m = num.match(line, j)
            if m:
                if m.group(2) is not None:
                    v = int(m.group(1) or 0) + Fraction(int(m.group(2)), int(m.group(3)))
                else:
                    v = int(m.group(4)) if "." not in m.group(4) else float(m.group(4))
                out += format_number(v * k).replace("/", "\u2044")
                j = m.end()
            elif line[j] == "\\" and j + 1 < len(line):
                out += line[j + 1]
                j += 2
            elif line[j] == "}":
                break
            else:
                out += line[j]
                j += 1
        i = j + 1
    return out


def check_brace_probe(line):
    out = []
    mr = M.compile_markdown("%s\n" % line)
    for k in (1, 2, Fraction(3, 2), Fraction(1, 3)):
        html = mr.render(k)
        m = re.search(r"<p>(.*?)</p>", html, re.S)
        import html as pyhtml
        shown = pyhtml.unescape(re.sub(r"<[^>]*>", "", m.group(1))) if m else None
        want = brace_expected(line, k)
        if shown is None or " ".join(shown.split()) != " ".join(want.split()):
            out.append(("C13:brace-expression-content-wrong", "%r at scale %r reads %r, expected %r" % (line, k, shown, want)))
            break
    return out


def check_many_placeholders():
    """a document with far more than ten scaled values and several recipe blocks: each paragraph shows its own numbers, each block its own table"""
    import html as pyhtml
    paras = ["Step %d uses {%d} spoons and {%d/4} cups." % (i, i, i) for i in range(1, 16)]
    blocks = ["    item%d = mix(%d g flour%d, water)" % (i, i, i) for i in range(1, 5)]
    doc = "# Feast for 2\n\n" + "\n\n".join(paras[:8]) + "\n\n" + "\n\ntext\n\n".join(blocks) + "\n\n" + "\n\n".join(paras[8:]) + "\n"
    mr = M.compile_markdown(doc)
    out = []
    for k in (1, 2, Fraction(3, 2)):
        html = mr.render(k)
        shown = [" ".join(pyhtml.unescape(re.sub(r"<[^>]*>", "", m)).split()) for m in re.findall(r"<p>(.*?)</p>", html, re.S)]
        shown = [x for x in shown if x.startswith("Step ")]
        want = [" ".join(brace_expected(p_, k).split()) for p_ in paras]
        if shown != want:
            bad = [(a, b) for a, b in zip(shown, want) if a != b][:2]
            out.append(("C13:brace-expression-content-wrong", "document with %d scaled values at scale %r: %r" % (31, k, bad or (len(shown), len(want)))))
            break
        if html.count('<table class="rg-table"') != 4 or gen_md.PLACEHOLDER.search(html):
            out.append(("C13:recipe-blocks-lost-or-residue", "scale %r: %d tables for 4 blocks, residue %r" % (k, html.count('<table class="rg-table"'), bool(gen_md.PLACEHOLDER.search(html)))))
            break
    return out


FIXED_TEXTS = ["# Scones for 4\n\nRub in {50} g.\n\n    200 g flour\n    50 g butter\n\n# Notes\n\nServe {2} each.\n\n# More for 3\n\ntext\n",
               "# One\n\n# Two\n\n    1 x\n\n# Three for 2\n",
               "Intro {1}\n\n# Late title for 2\n\n    1 x\n\n# Another\n",
               # a count written in the digits of another script is title text: nothing to scale, the heading is left as written
               "# \u30ab\u30ec\u30fc for \uff14\n\n    1 x\n", "# Kabsa serves \u0664\n\n    1 x\n", "# Platter to serve \uff11\uff12\n\nText {2}.\n"]


FENCE_CASE_DOC = ("# T\n\n```Recipe\nnot a recipe (\n```\n\n```recipe\na = 1 egg\n```\n\n~~~New-Recipe\nalso not (\n~~~\n\n```recipe\nfry(a)\n```\n\n"
                  "```Python\nx = {1}\n```\n\n~~~RECIPE\n((\n~~~\n")


def check_fence_case():
    """only the tags 'recipe' and 'new-recipe', as written, mark recipe blocks; any other tag (other letter case too) is ordinary code and keeps its tag"""
    out = []
    try:
        mr = M.compile_markdown(FENCE_CASE_DOC)
    except Exception as e:  # noqa
        return [("C13:valid-document-rejected", "fenced blocks tagged Recipe / New-Recipe / RECIPE are ordinary code: %s" % type(e).__name__)]
    html = mr.render(1)
    if [len(g) for g in mr.recipes] != [2]:
        out.append(("C13:wrong-blocks-treated-as-recipes", "groups %r, expected one recipe of two blocks" % ([len(g) for g in mr.recipes],)))
    for tag in ("Recipe", "New-Recipe", "Python", "RECIPE"):
        if 'class="language-%s"' % tag not in html:
            out.append(("C13:differs-from-plain-commonmark", "code block tagged %s does not keep its tag: %r" % (tag, re.findall(r'class="language-[^"]*"', html))))
            break
    return out


def check_fixed_text(text):
    """no placeholder residue, no dependence on the random generator, the first plain top-level heading (only) is the title"""
    out = []
    results = []
    for seed in (1, 2):
        pyrandom.seed(seed)
        mr = M.compile_markdown(text)
        results.append([mr.render(k) for k in (1, 2)])
        for h in results[-1]:
            if gen_md.PLACEHOLDER.search(h):
                out.append(("C13:placeholder-residue", "%r: %r" % (text[:40], gen_md.PLACEHOLDER.search(h).group(0))))
                return out
            if h.count("<header>") > 1:
                out.append(("C13:more-than-one-title-header", "%r" % text[:40]))
                return out
    if results[0] != results[1]:
        out.append(("C13:output-depends-on-random-state", "%r" % text[:40]))
    first = re.search(r"^# (.*)$", text, re.M).group(1)
    want = re.sub(r"\s+for [0-9]+$", "", first)
    if mr.title != want and text.startswith("# "):
        out.append(("C13:title-is-not-the-first-heading", "%r: title %r" % (text[:40], mr.title)))
    if text.startswith("# ") and want == first:
        # no count: the heading reads the same at every scale
        for h in results[-1]:
            m = re.search(r"<h1[^>]*>(.*?)</h1>", h, re.S)
            if not m or " ".join(re.sub(r"<[^>]*>", "", m.group(1)).split()) != " ".join(first.split()):
                out.append(("C13:differs-from-plain-commonmark", "%r: the heading is shown as %r" % (text[:40], m.group(1) if m else None)))
                break
    return out


def oracle(run):
    run.case(("fence-case",), True, kind="fence-tag-case")
    for sig, detail in check_fence_case():
        run.violate(sig, detail, {"fence_case": True})
    for text in FIXED_TEXTS:
        run.case(("fixed-text", text), True, kind="fixed-text")
        for sig, detail in check_fixed_text(text):
            run.violate(sig, detail, {"fixed_text": text})
    run.case(("many-placeholders",), True, kind="many-placeholders")
    for sig, detail in check_many_placeholders():
        run.violate(sig, detail, {"many_placeholders": True})
    for line in BRACE_PROBES:
        run.case(("brace-probe", line), True, kind="brace-probe")
        for sig, detail in check_brace_probe(line):
            run.violate(sig, detail, {"brace_probe": line})
    for doc in gen_cases(run, run.budget(150, 4000)):
        run.case(("oracle", doc.text()), bool(doc.blocks))
        for sig, detail in check_doc(doc):
            run.violate(sig, detail, {"document": doc.text(), "blocks": doc.blocks, "lines": doc.lines, "title": getattr(doc, "title", None),
                                       "descs": repr(getattr(doc, "descs", None))})


def replay(run, obj):
    r = obj["replay"]
    if r.get("fence_case"):
        res = check_fence_case()
        for x in res:
            print(*x)
        return bool(res)
    if "fixed_text" in r:
        res = check_fixed_text(r["fixed_text"])
        for x in res:
            print(*x)
        return bool(res)
    if r.get("many_placeholders"):
        res = check_many_placeholders()
        for x in res:
            print(*x)
        return bool(res)
    if "brace_probe" in r:
        res = check_brace_probe(r["brace_probe"])
        for x in res:
            print(*x)
        return bool(res)
    doc = gen_md.Doc()
    doc.lines = r["lines"]
    doc.blocks = r["blocks"]
    doc.title = r.get("title")
    if r.get("descs"):
        doc.descs = eval(r["descs"], {"Fraction": Fraction})
    res = check_doc(doc)
    for x in res:
        print(*x)
    return bool(res)
