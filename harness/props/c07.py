"""C07 — any input yields a recipe or a documented, located error; never a crash."""
import re
import time

from peggie import ParseError
from peggie.error_message_generation import offset_to_line_and_column, extract_line
from recipe_grid.compiler import compile as rg_compile, RecipeCompileError
from recipe_grid.markdown import compile_markdown

from .. import sexp, gen_desc, parser_corr
from ..compile_common import real_outcome, model_requests, same, brief
from . import c01

PID = "C07"
TECHNIQUE = "Lean 4 totality of the parser/compiler model + theorems on error location (offset -> line/column) + outcome-kind correspondence on malformed input + crash-freedom sweep"
LEVEL_TEXT = ("The parser/compiler model is a total Lean function whose result type lists every outcome (recipe, syntax error, the two compile errors, and "
              "'undocumented exception'); theorems: every reported offset maps to an existing line and a column within or just past it, the characters "
              "before the offset are exactly the earlier lines plus column-1 characters, and the snippet is that line; the model's outcome kind and "
              "position are tied to compile() on mutated, truncated and random text. Syntax errors are located too (C07c): the model parseE carries peggie's "
              "furthest-failure offset (the largest offset at which a terminal of the grammar was tried and failed, abandoned alternatives included) and is proved "
              "to accept exactly the texts of the plain parser with the same AST (parseE_erase), to report an offset inside the text or at its end on an "
              "existing line whose text is the quoted line (syntaxError_offset_le, syntaxError_line_exists, compile_syntax_error_located) and never before a "
              "prefix of complete statements that is accepted on its own (syntaxError_after_accepted_prefix); line, column and quoted line of every "
              "ParseError are compared exactly with the model. Through the Markdown front end (C07d): mdCompile_documented_outcomes - for every document of the "
              "sub-language D2 the model of compile_markdown returns a result or one of the three documented located errors, never anything else. That no undocumented exception escapes is false on some inputs "
              "(recorded findings); outside them it is checked by the sweep over arbitrary text and Markdown documents.")
LEVEL_NOTE = ("Partial: the interpreter's recursion limit, wall-clock time and exceptions inside marko cannot be exhibited by a total Lean function; they are "
              "covered only by the oracle sweep (search). For the model it IS a theorem that compile returns a recipe or one of the three documented "
              "located errors for every input (compile_documented_outcomes, compile_no_internal, parse_never_zeroDivision) and that every reported "
              "offset lies inside the reported block's text (compile_error_in_source). Trusted: Lean kernel, peggie PEG semantics as exercised.")
LEAN_MODULES = ["RecipeGrid.Props.C07", "RecipeGrid.Props.C07b", "RecipeGrid.Props.C07c", "RecipeGrid.Props.C07d"]
SOURCES = ["recipe_grid/parser/__init__.py", "recipe_grid/parser/grammar.py", "recipe_grid/parser/grammar.peg", "recipe_grid/parser/ast.py",
           "recipe_grid/compiler.py", "recipe_grid/markdown.py"]
RULE = ("arbitrary text: token soups incl. Unicode, every kind of single-edit mutation of valid descriptions, prefixes and suffixes, nesting up to 30, texts up "
        "to 20 kB, Markdown documents embedding them; random strings with every line separator x offsets for the location functions; non-trivial = not "
        "accepted as a recipe; distinct = distinct texts")
SEPS = ["\n", "\r\n", "\r", "\x0b", "\x0c", "\x1c", "\x1d", "\x1e", "\x85", " ", " "]


def gen_lines_text(rng):
    parts = []
    for _ in range(rng.randint(0, 6)):
        parts.append("".join(rng.choice("ab é,=(") for _ in range(rng.randint(0, 5))))
        parts.append(rng.choice(SEPS + ["\n", "\n", ""]))
    return "".join(parts)


def correspondence(run):
    rng = run.rng
    cases = []
    for _ in range(run.budget(3000, 40000)):
        t = gen_lines_text(rng)
        cases.append((t, rng.randint(0, len(t) + 2)))
    rep = run.ask([sexp.tag("linecol", sexp.s(t), str(o)) for t, o in cases])
    for (t, o), m in zip(cases, rep):
        l, c = offset_to_line_and_column(t, o)
        try:
            snip = extract_line(t, l)
        except IndexError:
            snip = None
        run.case(("linecol", t, o), len(t.splitlines()) > 1, kind="linecol")
        run.groups["offset_to_line_and_column/extract_line"] += 1
        if [l, c, snip] != list(m):
            run.disagree("linecol", [t, o], [l, c, snip], list(m))
    # outcome kind + position on malformed programs
    tl = []
    valid = c01.gen_cases(run, run.budget(150, 3000))
    for d, t, _ in valid:
        t = list(t)
        i = rng.randrange(len(t))
        k = rng.random()
        if k < 0.5:
            t[i] = parser_corr.mutate(rng, t[i])
        elif k < 0.75:
            t[i] = t[i][:rng.randint(0, len(t[i]))]
        else:
            t[i] = t[i][rng.randint(0, len(t[i])):]
        tl.append(t)
    for _ in range(run.budget(150, 3000)):
        tl.append([parser_corr.gen_soup(rng)])
    tl.extend([t] for t in parser_corr.neighbours())
    # where a syntax error is reported: peggie's furthest failure (line, column, quoted line) vs the model's parseE (theorems of Props/C07c)
    from recipe_grid.parser import parse as rg_parse
    single = [t[0] for t in tl if len(t) == 1] + list(parser_corr.EDGE_CASES)
    for t, m in zip(single, run.ask([sexp.tag("parse-err", sexp.s(t)) for t in single])):
        try:
            rg_parse(t)
            real_p = ("ok",)
        except ParseError as e:
            real_p = ("syntax", e.line, e.column, e.snippet)
        except RecursionError:
            continue
        except Exception:  # noqa  (after a successful parse: compared below as an outcome of compile)
            real_p = ("ok",)
        model_p = ("ok",) if tuple(m) == ("ok",) else ("syntax", m[2], m[3], m[4])
        run.case(("parse-err", t), real_p[0] == "syntax", kind="syntax-position:" + real_p[0])
        run.groups["ParseError line/column/snippet vs parseE"] += 1
        if real_p != model_p:
            run.disagree("parse-err", t, repr(real_p)[:300], repr(model_p)[:300])
    rep = run.ask(model_requests(tl))
    for t, m in zip(tl, rep):
        real = real_outcome(t)
        run.case(("compile", tuple(t)), real[0] != "ok", kind=real[0] if real[0] != "exception" else real[1], sample={"sources": t, "outcome": list(brief(real))})
        run.groups["compile (malformed)"] += 1
        if not same(real, m):
            run.disagree("compile", list(t), repr(brief(real))[:800], repr(m)[:800])


def classify_exception(name, texts):
    joined = "\n".join(texts)
    if name == "ZeroDivisionError" and re.search(r"/[ \t]*0+(?![0-9])", joined):
        return "C07:ZeroDivisionError:zero-denominator"
    if name == "OverflowError" and re.search(r"[0-9]{300,}", joined):
        return "C07:OverflowError:integer-literal-beyond-float-range"
    if name == "ValueError" and re.search(r"[0-9]{4301,}", joined):
        # CPython refuses str -> int beyond sys.get_int_max_str_digits() (4300) digits
        return "C07:ValueError:integer-literal-beyond-interpreter-digit-limit"
    if name == "RecursionError":
        # the string rule recurses once per string part: one name written as dozens of quoted/braced parts
        parts = max((len(re.findall(r"'[^'\n]*'|\"[^\"\n]*\"|\{[^}\n]*\}", line)) for line in joined.split("\n")), default=0)
        return "C07:RecursionError:name-of-%s-string-parts" % ("40-or-more" if parts >= 40 else "fewer-than-40")
    return "C07:%s:undocumented-exception" % name


def located_ok(src_texts, line, col, snippet):
    """is (line, col, snippet) a position in one of the sources?"""
    for t in src_texts:
        lines = t.splitlines(keepends=True)
        if not lines:
            if (line, col, snippet) == (1, 1, ""):
                return True
            continue
        if 1 <= line <= len(lines) and 1 <= col <= len(lines[line - 1]) + 1 and snippet == t.splitlines()[line - 1]:
            return True
    return False


def check_texts(texts):
    out = []
    t0 = time.time()
    real = real_outcome(texts)
    dt = time.time() - t0
    if dt > 30:
        out.append(("C07:too-slow", "%.1fs for %d characters" % (dt, sum(map(len, texts)))))
    if real[0] == "exception":
        out.append((classify_exception(real[1], texts), "%s: %s on %r" % (real[1], real[2], [t[:200] for t in texts])))
    elif real[0] == "syntax":
        e = real[2]
        if not located_ok(texts, e.line, e.column, e.snippet):
            out.append(("C07:syntax-error-badly-located", "line %r col %r snippet %r" % (e.line, e.column, e.snippet)))
    elif real[0] in ("redefined", "proportion"):
        if not located_ok(texts, real[2], real[3], real[4]):
            out.append(("C07:compile-error-badly-located", "line %r col %r snippet %r" % real[2:5]))
    return out


EXOTIC_BREAKS = "\r\x0b\x0c\x1c\x1d\x1e\x85\u2028\u2029"


def exotic_break_class(doc):
    """Recorded findings (found with the Lean model of the block scanner, Props/C19d: they are exactly what its sub-language D excludes): a character
    that str.splitlines counts as a line break but CommonMark does not (lone CR, VT, FF, FS/GS/RS, NEL, LS, PS) (a) on the opening line of a code
    fence, or (b) on a white-space-only line. marko keeps (a) as one line and turns (b) inside a code block into a plain line feed or drops it, so the
    text the compiler sees has fewer lines than the document. Anything else keeps the plain signature."""
    norm = doc.replace("\r\n", "\n")
    for line in norm.split("\n"):
        if any(c in line for c in EXOTIC_BREAKS):
            if line.lstrip(" ").startswith(("```", "~~~")):
                return ":line-break-character-on-a-fence-line"
            if not line.strip():
                return ":line-break-character-on-a-blank-line"
    if norm and norm[-1] in EXOTIC_BREAKS:
        # (c) the document ends in such a character (no final line feed): marko appends a line feed to the block's text, the error "unexpected end"
        # is then placed on the line after the document's last
        return ":line-break-character-at-the-end-of-the-document"
    return ""


def check_markdown(doc):
    try:
        compile_markdown(doc)
    except (ParseError, RecipeCompileError) as e:
        try:
            str(e)          # the located message itself must be producible
        except Exception as e2:  # noqa
            return [("C07:%s:error-message-cannot-be-produced" % type(e2).__name__, "markdown %r" % doc[:200])]
        lines = doc.splitlines() or [""]     # the tool counts lines the way str.splitlines does
        snippet = e.snippet.strip()
        if not (1 <= e.line <= len(lines)) or (snippet and snippet not in lines[e.line - 1]) or (not snippet and lines[e.line - 1].strip().strip(" \t>-").strip() not in ("", "```", "~~~")
                                                                                        and not lines[e.line - 1].strip().startswith(("```", "~~~"))):
            return [("C07:markdown-error-names-one-line-quotes-another" + exotic_break_class(doc), "line %r quoted %r, document line is %r" % (
                e.line, e.snippet, lines[e.line - 1] if 1 <= e.line <= len(lines) else None))]
    except RecursionError:
        return [(classify_exception("RecursionError", [doc]), "markdown %r" % doc[:200])]
    except Exception as e:  # noqa
        name = type(e).__name__
        if name == "ZeroDivisionError" and re.search(r"/[ \t]*0+(?![0-9])", doc):
            return [("C07:ZeroDivisionError:zero-denominator", "markdown %r" % doc[:200])]
        if name == "AttributeError" and re.search(r"!\[[^\]]*\{[^}]*\}[^\]]*\]\(", doc):
            return [("C07:AttributeError:brace-expression-in-image-alt-text", "markdown %r" % doc[:200])]
        if name == "ValueError" and re.search(r"[0-9]{4301,}", doc):
            return [("C07:ValueError:integer-literal-beyond-interpreter-digit-limit", "markdown %r..." % doc[:60])]
        try:
            import marko
            marko.Markdown()(doc)
        except Exception:  # noqa
            return []      # the statement is about documents "that the underlying CommonMark converter can itself convert"
        return [("C07:%s:undocumented-exception-markdown" % name, "markdown %r: %s" % (doc[:200], str(e)[:100]))]
    return []


def growth(make, small, big, run_it):
    """(seconds for the bigger input, ratio to the smaller one): inputs that differ by two repetitions of one construct"""
    ts = []
    for n in (small, big):
        t0 = time.time()
        try:
            run_it(make(n))
        except Exception:
            pass
        ts.append(time.time() - t0)
    return ts[1], ts[1] / max(ts[0], 1e-4)


def check_promptness():
    """'terminates promptly': compile time must not multiply with every further statement / character of a short input"""
    out = []
    chain = lambda n: ["a0 = 1 egg\n" + "\n".join("a%d = mix(1/2 * a%d, 1/2 * a%d)" % (k, k - 1, k - 1) for k in range(1, n))]  # noqa
    t, r = growth(chain, 13, 15, lambda src: real_outcome(src))
    if t > 0.3 and r > 2.5:
        out.append(("C07:compile-time-doubles-per-statement:chain-of-sub-recipes-each-used-twice",
                    "15 one-line statements (each sub recipe used twice by the next): %.2fs, %.1f times the time for 13" % (t, r)))
    digits = lambda n: "{" + "1" * n + "\n"  # noqa
    t, r = growth(digits, 20, 22, compile_markdown)
    if t > 0.3 and r > 2.5:
        out.append(("C07:markdown-time-doubles-per-character:unclosed-brace-followed-by-digits",
                    "a paragraph of '{' and 22 digits: %.2fs, %.1f times the time for 20 digits" % (t, r)))
    slashes = lambda n: "{" + "\\a" * n + "\n"  # noqa
    t, r = growth(slashes, 19, 21, compile_markdown)
    if t > 0.3 and r > 2.5:
        out.append(("C07:markdown-time-doubles-per-character:unclosed-brace-followed-by-backslash-pairs",
                    "a paragraph of '{' and 21 backslash-letter pairs: %.2fs, %.1f times the time for 19" % (t, r)))
    # other repeated constructs must stay cheap
    for what, make, run_it in (("statements", lambda n: ["\n".join("s%d = mix(%d g x%d, y)" % (i, i, i) for i in range(n * 40))], real_outcome),
                               ("nested steps", lambda n: ["f(" * n + "x" + ")" * n], real_outcome),
                               ("references", lambda n: ["a = 1 kg x\n" + "\n".join("f%d(10 g a)" % i for i in range(n * 20))], real_outcome),
                               ("brace expressions", lambda n: "text {1 1/2} and {2} " * (n * 20) + "\n", compile_markdown),
                               ("closed brace with digits", lambda n: "{" + "1" * (n * 5) + "}\n", compile_markdown)):
        t, r = growth(make, 10, 12, run_it)
        if t > 2.0 and r > 2.5:
            out.append(("C07:time-multiplies-with-input-size:%s" % what.replace(" ", "-"), "%.2fs, %.1f times the time for an input one fifth shorter" % (t, r)))
    return out


CORPUS = [["{}"], ["2 {}"], ["mix(flour, salt {})"], ["{} = boil(water)\nserve({})"], ["fry('')"], ["a {}{} b"], ["1" * 400 + " spam\nfry(1 spam)"], ["1" * 400 + " g spam\nfry(" + "1" * 397 + ".0 kg spam)"], ["1" * 4301 + " spam"],
          ["1/0 x"], ["2 1/0 kg x"], ["{1/0} x"], ["x {a 3/0 b}"], [" ".join(["'a'"] * 80)], ["f(" * 25 + "x" + ")" * 25], ["9" * 310 + " x"],
          [""], ["\n"], ["x ="], ["a = b = c"], ["1/ spam"], ["foo, foo = spam"], ["50% x"], ["x\nx = 1\n rest of y"]]
MD_CORPUS = ["x {123456789012345678901234567890.5 grains} y", "# T\n\n    a {123456789012345678901234567890.5} = 1 x\n    a {123456789012345678901234567890.5} = 2 x\n", "Use {1e5} and {99999999999999999999999999999.25}.\n", "    f(x\x0c", "text\n\n    f(x\u2028", "x {" + "9" * 309 + ".} y", "x {" + "1" * 4301 + "} y", "# T\n\n    " + "9" * 309 + ". g x\n", "```recipe\r\r\nx = 1 egg\nx = 2 eggs\n```\n", "```recipe\x0c\nx = 1 egg\nx = 2 eggs\n```\n", "    x = 1 egg\n\r\r\n    x = 2 eggs\n",
             "  ```recipe\n  x = 1 egg\n \x0c\n  x = 2 eggs\n  ```\n", "*\rx\n", "{1/0}", "![{2} eggs](x.png)", "# T\n\n    1/0 x\n", "# Title for 2\n\n    2 eggs\n", "```recipe\nx = \n```\n", "text {3 1/2} more {x\\}}"]


def gen_texts(run, n):
    rng = run.rng
    out = []
    valid = c01.gen_cases(run, max(1, n // 3))
    for d, t, _ in valid:
        t = list(t)
        i = rng.randrange(len(t))
        k = rng.random()
        if k < 0.45:
            t[i] = parser_corr.mutate(rng, t[i])
        elif k < 0.6:
            t[i] = t[i][:rng.randint(0, len(t[i]))]
        elif k < 0.75:
            t[i] = t[i][rng.randint(0, len(t[i])):]
        elif k < 0.85:
            depth = rng.randint(5, 30)
            t[i] = "fry(" * depth + t[i].strip().split("\n")[0] + ")" * depth
        out.append(t)
    for _ in range(n // 3):
        out.append([parser_corr.gen_soup(rng)])
    for _ in range(n // 3):
        out.append(["".join(chr(rng.choice([rng.randint(32, 126), rng.randint(160, 0x2fff), 10, 9, 0x1f600])) for _ in range(rng.randint(0, 40)))])
    return out


def oracle(run):
    rng = run.rng
    # positions of the two compile errors, from the printer's marks (multi-block descriptions)
    for d, texts, marks in c01.gen_cases(run, run.budget(250, 6000)):
        exp = c01.expected(d, texts, marks)
        if exp[0] == "ok":
            continue
        run.case(("oracle-position", tuple(texts)), True, kind="position:" + exp[0])
        for sig, detail in c01.check_case(d, texts, marks):
            if sig == "C01:error-position-wrong":
                run.violate("C07:compile-error-at-wrong-position", detail, {"sources": texts, "expected": list(exp)})
    nb = parser_corr.neighbours()
    # the corpus of minimised past failures of the compile-based checks, in its canonical spelling: accepted or refused, never another exception
    desc_corpus = [list(gen_desc.print_desc(d, gen_desc.Spelling(None))[0]) for d in gen_desc.CORPUS]
    for t in CORPUS + desc_corpus + [[x] for x in (nb if getattr(run, 'escalated', False) or run.tier == 'thorough' else nb[::4])] + gen_texts(run, run.budget(600, 20000)):
        run.case(("oracle", tuple(t)), True, kind="text")
        for sig, detail in check_texts(t):
            run.violate(sig, detail, {"sources": t})
    # size stress within the documented bounds (<= 20 kB): many statements, long names
    g = gen_desc.Gen(rng)
    big = "\n".join(gen_desc.print_block([g.stmt(2)], gen_desc.Spelling(rng))[0].strip() for _ in range(run.budget(60, 400)))[:20000]
    run.case(("oracle-big", big), True, kind="big")
    for sig, detail in check_texts([big]):
        run.violate(sig, detail, {"sources": [big]})
    run.case(("promptness",), True, kind="promptness")
    for sig, detail in check_promptness():
        run.violate(sig, detail, {"promptness": True})
    docs = list(MD_CORPUS)
    for t in gen_texts(run, run.budget(90, 3000)):
        body = "\n".join(t)
        docs.append("# Title for 3\n\nSome {2} text.\n\n" + "\n".join("    " + l for l in body.split("\n")) + "\n")
        docs.append("Intro\n\n```recipe\n" + body + "\n```\n\n{1 1/2} x\n")
        docs.append("# T\n\n```new-recipe\nfine = 1 x\n```\n\ntext\n\n~~~new-recipe\n" + body + "\n~~~\n")
    for doc in docs:
        run.case(("oracle-md", doc), True, kind="markdown")
        for sig, detail in check_markdown(doc):
            run.violate(sig, detail, {"markdown": doc})


def replay(run, obj):
    r = obj["replay"]
    if "expected" in r:
        real = real_outcome(r["sources"])
        kind, b, off = r["expected"]
        l, c = c01.line_col(r["sources"][b], off)
        bad = real[0] != kind or (real[2], real[3]) != (l, c)
        print("expected", kind, "at block", b, "line", l, "col", c, "; got", brief(real), real[2:5] if len(real) > 4 else "")
        return bad
    res = check_promptness() if r.get("promptness") else (check_markdown(r["markdown"]) if "markdown" in r else check_texts(r["sources"]))
    for x in res:
        print(*x)
    return bool(res)
