"""C15 — site contains exactly the right pages, each scaled to its serving count."""
import os
import shutil
from fractions import Fraction
from urllib.parse import unquote

from recipe_grid.markdown import compile_markdown

from .. import sexp, gen_site, htmltok
from . import c14

PID = "C15"
TECHNIQUE = "Lean 4 theorems on the page-hierarchy model (page set = expected files, scale of every page) + correspondence of the page set + exact-file-set and scaled-content oracle on generated sites"
LEVEL_TEXT = ("The page hierarchy of website.py is modelled in Lean over an abstract source tree (home, servesN and categories hierarchies, shared unscaled recipe "
              "pages, serving menus, error when a recipe states more servings than M); the model's page set, titles and generated links are compared with "
              "real generated sites; the oracle compares the set of files written with the set prescribed by the property and every recipe page's scaled "
              "values with an independent render at n / servings. C15b: the factor handed to render for the page of count n is exactly n / stated servings "
              "(pageScale_value, _native, _count_shown, _injective, _compose), observed on every page and on the stand-alone page. C15c: which entries of a "
              "directory are sub directories, the readme and recipes (enumerate_spec: all directories, the one file named readme.md / index.md in any letter "
              "case, every other file with suffix .md in any letter case, in listing order; enumerate_error_iff: refused exactly with two or more readme "
              "files), compared with enumerate_recipe_directory on real directories with files, directories and symbolic links. C15d: what the page for n shows - "
              "page_for_n (the written numbers, in reading order, each times n / s), page_exact_value (a written whole number or fraction w becomes exactly "
              "w n / s), page_float_value, native_page_shows_written (the page for n = s shows the numbers as written, no rescaling note), heading_count_shown; on "
              "top of C03e's page_numbers_scaled; compared with real rendered pages (C03's page-values correspondence).")
LEVEL_NOTE = ("Partial: files actually written (pathlib, open, copyfile) and Jinja templates are outside the model. Known finding: two recipes whose file names "
              "differ only in the extension's letter case map to one page. Trusted: Lean kernel; model as far as correspondence exercises it.")
LEAN_MODULES = ["RecipeGrid.Props.C15", "RecipeGrid.Props.C15b", "RecipeGrid.Props.C15c", "RecipeGrid.Props.C15d"]
SOURCES = ["recipe_grid/static_site/website.py", "recipe_grid/static_site/recipe_directory.py", "recipe_grid/markdown.py"]
RULE = c14.RULE + "; stated serving counts 1..5 including counts above M (error expected)"


def correspondence(run):
    c14.correspondence(run)
    from . import c03
    c03.pagevalues_correspondence(run)
    scale_correspondence(run)
    enumerate_correspondence(run)


ENTRY_NAMES = ["README.md", "readme.md", "ReadMe.MD", "index.md", "INDEX.md", "Index.Md", "readme.markdown", "readme.md.bak", "README", "a.md", "b.MD", "c.Md", "d.mD",
               ".md", "..md", "e.md.", "f.markdown", "g.txt", "h", "i.j.md", "k.md.txt", "l .md", "md", "\u0130ndex.md", "inde\u0131x.md", "n.\uff4dd", "o.m\u0064",
               "read me.md", "p.MD ", " q.md"]


def enumerate_correspondence(run):
    """enumerate_recipe_directory on real directories (files, directories and symbolic links to either, named like readmes, recipes and neither)
    against the model's enumerateDir fed with the same listing (theorems enumerate_spec, enumerate_error_iff in Props/C15c.lean)"""
    import os
    from recipe_grid.static_site.recipe_directory import enumerate_recipe_directory
    from recipe_grid.static_site.exceptions import MultipleReadmeError
    rng = run.rng
    scratch = gen_site.scratch_root()
    try:
        reqs, reals = [], []
        for i in range(run.budget(60, 1500)):
            d = scratch / ("d%d" % i)
            d.mkdir()
            other = scratch / ("other%d" % i)
            other.mkdir()
            (other / "target.md").write_text("# T for 2\n\n    1 x\n")
            names = rng.sample(ENTRY_NAMES, rng.randint(0, 8))
            if rng.random() < 0.7:
                names = [n for n in names if n.lower() not in ("readme.md", "index.md")] + rng.sample(["README.md", "index.md", "Readme.MD"], rng.choice([0, 1, 1]))
            for n in names:
                kind = rng.choice(["file", "file", "file", "dir", "link-file", "link-dir"])
                p = d / n
                if kind == "file":
                    p.write_text("# %s for 2\n\n    1 x\n" % (n.strip(". ") or "x"))
                elif kind == "dir":
                    p.mkdir()
                elif kind == "link-file":
                    os.symlink(other / "target.md", p)
                else:
                    os.symlink(other, p)
            listing = [(q.name, q.is_dir()) for q in d.iterdir()]
            try:
                r = enumerate_recipe_directory(d)
                real = ("ok", r.description_source.name if r.description_source else None, [q.name for q in r.subdirectories], [q.name for q in r.recipes])
            except MultipleReadmeError as e:
                real = ("multiple-readme",)
            except Exception as e:  # noqa
                real = ("raises", type(e).__name__)
            reqs.append(sexp.tag("enumerate", sexp.lst(lambda e: sexp.tag("e", sexp.s(e[0]), sexp.b(e[1])), listing)))
            reals.append((listing, real))
        for (listing, real), m in zip(reals, run.ask(reqs)):
            model = ("ok", m[1], list(m[2]), list(m[3])) if m[0] == "ok" else ("multiple-readme",)
            run.case(("enumerate", tuple(listing)), len(listing) > 1, kind="enumerate:" + real[0])
            run.groups["enumerate_recipe_directory vs enumerateDir"] += 1
            if real != model:
                run.disagree("enumerate", listing, repr(real)[:400], repr(model)[:400])
    finally:
        shutil.rmtree(scratch, ignore_errors=True)


def scale_correspondence(run):
    """the factor handed to MarkdownRecipe.render by the site generator and by the stand-alone page, per (page count, stated count),
    against the model's pageScale (theorems pageScale_* in Props/C15b.lean); a stated count of 0 must fail on both sides"""
    from pathlib import Path
    from recipe_grid import markdown as MD
    from recipe_grid.static_site import website as W
    from recipe_grid.static_site.standalone_page import generate_standalone_page
    rng = run.rng
    seen, cur = [], [None]
    orig_render, orig_from = MD.MarkdownRecipe.render, W.RecipePage.from_recipe_source.__func__

    def render(self, scale=1):
        seen.append((cur[0], self.servings, scale))
        return orig_render(self, scale)

    def from_recipe_source(cls, servings, *a, **k):
        cur[0] = ("site", servings)
        try:
            return orig_from(cls, servings, *a, **k)
        finally:
            cur[0] = None

    MD.MarkdownRecipe.render = render
    W.RecipePage.from_recipe_source = classmethod(from_recipe_source)
    try:
        for i in range(run.budget(6, 60)):
            d, M = gen_case(rng)
            src, gen_out, scratch, err = gen_site.generate(d, M)
            shutil.rmtree(scratch, ignore_errors=True)
        scratch = gen_site.scratch_root()
        try:
            for native in (0, 1, 2, 3, 7, 12, None):
                f = Path(scratch) / ("r%s.md" % native)
                f.write_text("# Soup%s\n\n    %s eggs\n" % ("" if native is None else " for %d" % native, 4))
                for n in (1, 2, 3, 5, 12, 24):
                    if native is None:
                        continue
                    cur[0] = ("standalone", n)
                    try:
                        generate_standalone_page(f, servings=n, embed_local_links=False)
                    except ZeroDivisionError:
                        seen.append((cur[0], native, "zerodiv"))
                    finally:
                        cur[0] = None
        finally:
            shutil.rmtree(scratch, ignore_errors=True)
    finally:
        MD.MarkdownRecipe.render = orig_render
        W.RecipePage.from_recipe_source = classmethod(orig_from)
    cases = sorted({(c[1], nat, sc if sc == "zerodiv" else sexp.pynum(sc)) for c, nat, sc in seen if c is not None}, key=repr)
    reqs = [sexp.tag("pagescale", sexp.opt(lambda x: str(x), n), sexp.opt(lambda x: str(x), nat)) for n, nat, _ in cases]
    for (n, nat, sc), rep in zip(cases, run.ask(reqs)):
        run.case(("pagescale", n, nat), nat is not None and n != nat, kind="pagescale")
        run.groups["render factor per page (website + stand-alone) vs pageScale"] += 1
        want = None if sc == "zerodiv" else sc
        if rep != want:
            run.disagree("pagescale", "servings=%r stated=%r" % (n, nat), want, rep)


def expected_files(d, M):
    files = {"/index.html", "/css/style.css"}
    collisions = []
    for rel, dd in gen_site.walk(d):
        sub = (rel + "/") if rel else ""
        for n in list(range(1, M + 1)):
            files.add("/serves%d/%sindex.html" % (n, sub))
        files.add("/categories/%sindex.html" % sub)
        stems = {}
        for r in dd["recipes"]:
            stem = r["file"].rpartition(".")[0]
            if stem in stems:
                collisions.append((rel, stems[stem], r["file"]))
            stems[stem] = r["file"]
            if r["servings"] is None:
                files.add("/categories/%s%s.html" % (sub, stem))
            else:
                for n in range(1, M + 1):
                    files.add("/serves%d/%s%s.html" % (n, sub, stem))
    return files, collisions


def scaled_values(html):
    root, _ = htmltok.tree(html)
    vals = []
    for n in root.iter():
        if "rg-scaled-value" in n.classes() and not any("rg-serving-count" in a.classes() for a in ancestors(n)):
            if not any(x.tag == "ul" for x in n.iter()):
                vals.append(n.text().strip())
            else:
                vals.append(n.text(lambda k: k.tag == "ul").strip())
    return vals


def scale_shown(text, k):
    """a displayed value ('200 g', '1/2', '4 large or 6 small' is several values) multiplied by k and displayed as the documentation
    prescribes (exact numbers only: whole numbers and the listed denominators); None when that cannot be decided here"""
    import re
    from .c11 import own_format
    m = re.match(r"^(\d+ \d+\u2044\d+|\d+\u2044\d+|\d+)(?![\d.])(.*)$", " ".join(text.split()), re.S)
    if not m:
        return None
    num = m.group(1).replace("\u2044", "/")
    v = sum(Fraction(p) for p in num.split())
    shown = own_format(v * k)
    if shown is None:
        return None
    return shown.replace("/", "\u2044") + m.group(2)


def ancestors(n):
    n = n.parent
    while n is not None:
        yield n
        n = n.parent


def check_site(d, M, mode="abs"):
    out = []
    src, gen_out, scratch, err = gen_site.generate(d, M, mode=mode)
    try:
        too_many = [r for _, dd in gen_site.walk(d) for r in dd["recipes"] if r["servings"] and r["servings"] > M]
        if err is not None:
            name = type(err).__name__
            if name == "MaxServingsLowerThanLargestRecipeError":
                if not too_many:
                    out.append(("C15:spurious-max-servings-error", str(err)))
                return out
            out.append(("C15:generation-raises:%s" % name, str(err)[:200]))
            return out
        if too_many:
            out.append(("C15:too-many-servings-not-reported", "recipe states %d servings, M = %d" % (too_many[0]["servings"], M)))
            return out
        want, collisions = expected_files(d, M)
        got = set(gen_site.output_files(gen_out))
        assets = {f for f in got if f.startswith("/assets/")}
        # copies under /assets/ are exactly the local files the documents point at (never a recipe or readme source)
        linked = {"/assets/" + t for _, dd in gen_site.walk(d) for h in list(dd["recipes"]) + ([dd["readme"]] if dd["readme"] else [])
                  for _, _, (kind, t) in h.get("links", []) if kind == "asset"}
        missing, extra = sorted(want - got), sorted((got - want - assets) | (assets - linked))
        if missing or extra:
            out.append(("C15:wrong-set-of-files", "missing %r, extra %r" % (missing[:4], extra[:4])))
        if collisions:
            out.append(("C15:page-path-collision:same-stem", "directory %r: %r and %r share one page path" % collisions[0]))
        # every recipe page is scaled by n / servings; its menu lists all counts; category pages list by title
        for rel, dd in gen_site.walk(d):
            sub = (rel + "/") if rel else ""
            for r in dd["recipes"]:
                stem = r["file"].rpartition(".")[0]
                if [x["file"].rpartition(".")[0] for x in dd["recipes"]].count(stem) > 1:
                    continue
                mr = compile_markdown(r["raw"] if r.get("raw") is not None else gen_site.recipe_text(r))
                pages = [(None, "/categories/%s%s.html" % (sub, stem))] if r["servings"] is None else [(n, "/serves%d/%s%s.html" % (n, sub, stem)) for n in range(1, M + 1)]
                for n, path in pages:
                    if path not in got:
                        continue
                    html = (gen_out / path[1:]).read_text()
                    k = 1 if n is None else Fraction(n, r["servings"])
                    # independently of the code's own scaling: every value shown on the unscaled rendering, multiplied by k here
                    want = [scale_shown(v, k) for v in scaled_values(mr.render(1))]
                    got_vals = scaled_values(html)
                    if None not in want and [" ".join(x.split()) for x in got_vals] != want:
                        out.append(("C15:page-not-scaled-by-n-over-servings", "%s: shows %r, expected (written values times %s) %r" % (path, got_vals[:12], k, want[:12])))
                    if scaled_values(html) != scaled_values(mr.render(k)):
                        out.append(("C15:page-not-scaled-by-n-over-servings", "%s: shows %r, expected %r" % (path, scaled_values(html)[:6], scaled_values(mr.render(k))[:6])))
                    if n is not None:
                        root, _ = htmltok.tree(html)
                        menu = [li.text().strip() for sp in root.iter() if "rg-serving-count" in sp.classes() for ul in sp.iter() if ul.tag == "ul" for li in ul.children if not isinstance(li, str)]
                        nums = [m.split()[-1] for m in menu if m.split()]
                        if nums != [str(i) for i in range(1, M + 1)]:
                            out.append(("C15:serving-menu-wrong", "%s: menu %r" % (path, menu)))
                        # every entry of the menu leads, by ordinary URL resolution, to this recipe's page for that count
                        for sp in root.iter():
                            if "rg-serving-count" not in sp.classes():
                                continue
                            for a in sp.iter():
                                if a.tag != "a" or "href" not in a.attrs or not a.text().split():
                                    continue
                                cnt = a.text().split()[-1]
                                if cnt.isdigit() and gen_site.resolve(path, a.attrs["href"]) != "/serves%s/%s%s.html" % (cnt, sub, stem):
                                    out.append(("C15:serving-menu-wrong", "%s: the entry for %s leads to %r" % (path, cnt, gen_site.resolve(path, a.attrs["href"]))))
                                    break
            for root_name in ["serves%d" % n for n in range(1, M + 1)] + ["categories"]:
                path = "/%s/%sindex.html" % (root_name, sub)
                if path not in got:
                    continue
                page = gen_site.parse_page((gen_out / path[1:]).read_text())
                labels = sorted(x[3].strip() for x in page.links if x[0] == "a" and x[3].strip())
                from recipe_grid.static_site.recipe_directory import dirname_to_title
                want_labels = [s["readme"]["title"] if s["readme"] else dirname_to_title(s["name"]) for s in dd["subdirs"]] + [r["title"] for r in dd["recipes"]]
                for w in want_labels:
                    if w not in labels:
                        out.append(("C15:category-list-incomplete", "%s does not list %r" % (path, w)))
                        break
                # every entry of the list leads, by ordinary URL resolution, to a page of the site
                for x in page.links:
                    if x[0] != "a" or x[3].strip() not in want_labels:
                        continue
                    t = gen_site.resolve(path, x[2])
                    if t is None or (t not in got and t.rstrip("/") + "/index.html" not in got):
                        out.append(("C15:category-entry-leads-nowhere", "%s: entry %r has link %r which resolves to %r" % (path, x[3].strip(), x[2], t)))
                        break
        return out
    finally:
        shutil.rmtree(scratch, ignore_errors=True)


def check_decimal_consistency():
    """a decimal written once in the prose and once as a quantity is the same number on every page: prose and tables are scaled alike"""
    import re
    from recipe_grid.static_site.website import generate_static_site
    out = []
    scratch = gen_site.scratch_root()
    try:
        src = scratch / "book"
        src.mkdir()
        vals = ["0.603", "1.15", "2.675", "0.1", "33.3", "0.045", "7.25"]
        (src / "dough.md").write_text("# Dough for 3\n\nUse " + " and ".join("{%s}" % v for v in vals) + ".\n\n" + "".join("    %s kg z%d\n" % (v, i) for i, v in enumerate(vals)))
        (src / "other.md").write_text("# Other for 7\n\nUse " + " and ".join("{%s}" % v for v in vals) + ".\n\n" + "".join("    %s kg z%d\n" % (v, i) for i, v in enumerate(vals)))
        generate_static_site(src, scratch / "out", 12)
        for stem in ("dough", "other"):
            for n in range(1, 13):
                page = (scratch / "out" / ("serves%d" % n) / (stem + ".html")).read_text()
                shown = [v for v in scaled_values(page)]
                prose, table = shown[:len(vals)], [t.split()[0] for t in shown[len(vals):2 * len(vals)]]
                if prose != table:
                    out.append(("C15:page-not-scaled-by-n-over-servings", "/serves%d/%s.html: the prose shows %r where the table shows %r for the same written numbers" % (n, stem, prose, table)))
                    return out
        return out
    finally:
        shutil.rmtree(scratch, ignore_errors=True)


def check_cli_status():
    """the command reports through its exit status whether the site was generated: zero and all pages for a good tree, non-zero and a message
    when a recipe states more servings than --max-servings - run as a module and the way the installed command runs it"""
    import subprocess
    import sys
    out = []
    scratch = gen_site.scratch_root()
    try:
        src = scratch / "book"
        src.mkdir()
        (src / "stew.md").write_text("# Stew for 4\n\n    1 kg beef\n")
        (src / "plain.md").write_text("# Plain\n\n    1 x\n")
        env = dict(os.environ, PYTHONPATH=os.pathsep.join(x for x in sys.path if x))
        routes = {"python -m recipe_grid.scripts.recipe_grid_site": [sys.executable, "-m", "recipe_grid.scripts.recipe_grid_site"],
                  "installed command (sys.exit(main()))": [sys.executable, "-c", "import sys; from recipe_grid.scripts.recipe_grid_site import main; sys.exit(main())"]}
        for name, argv in routes.items():
            for M, ok in ((4, True), (3, False), (10, True)):
                dst = scratch / ("out-%d-%d" % (M, len(name)))
                p = subprocess.run(argv + [str(src), str(dst), "--max-servings", str(M)], stdout=subprocess.PIPE, stderr=subprocess.PIPE, text=True, timeout=300, env=env)
                pages = sorted(str(x.relative_to(dst)) for x in dst.rglob("*.html")) if dst.exists() else []
                if ok and (p.returncode != 0 or "serves%d/stew.html" % M not in pages or "serves1/stew.html" not in pages or "categories/plain.html" not in pages):
                    out.append(("C15:command-line-wrong", "%s with --max-servings %d: exit status %d, pages %r" % (name, M, p.returncode, pages[:6])))
                if not ok and (p.returncode == 0 or not (p.stderr + p.stdout).strip()):
                    out.append(("C15:too-many-servings-not-reported", "%s with --max-servings %d on a recipe for 4: exit status %d, message %r" % (name, M, p.returncode, (p.stderr + p.stdout)[-150:])))
        return out
    finally:
        shutil.rmtree(scratch, ignore_errors=True)


def gen_case(rng, collide=False):
    d = gen_site.gen_tree(rng, rng.randint(0, 3), gen_site.SAFE_NAMES, servings_pool=(None, 1, 2, 3, 5))
    if collide and d["recipes"]:
        r = d["recipes"][0]
        d["recipes"].append(dict(file=r["file"].rpartition(".")[0] + (".MD" if r["file"].endswith(".md") else ".md"), title="Twin", servings=r["servings"], links=[]))
    if rng.random() < 0.5:
        c14.gen_links(rng, d)      # recipes and readmes that point at one another and at local files
    return d, rng.randint(1, 4)


def fixed_cases():
    r = lambda f, t, s_: dict(file=f, title=t, servings=s_, links=[])  # noqa
    sub = lambda n, recs, subs=(): dict(name=n, readme=None, recipes=list(recs), subdirs=list(subs), assets=[])  # noqa
    yield sub("root", [r("one.md", "One", 1)]), 1                                     # M = 1, a recipe for 1
    yield sub("root", [r("soup.md", "Root soup", 2)], [sub("mains", [r("soup.md", "Main soup", 3)]), sub("starters", [r("soup.md", "Starter soup", None)])]), 3
    yield sub("root", [r("big.md", "Big", 4), r("plain.md", "Plain", None)], [sub("x", [r("SOUP.MD", "Loud", 2), r("Pie.Md", "Pie", 1)])]), 4   # servings == M
    yield sub("root", [r("twelve.md", "Party punch", 12), r("two.md", "Two", 2)]), 12
    yield sub("root", [r("foo.md", "Foo", 2), r("foo.MD", "Twin", 2)]), 2          # recorded finding: one page for two files
    # category readmes whose titles begin or end with letters of the mark-up around them (h, 1, >, /)
    rd = lambda t: dict(file="README.md", title=t, links=[])  # noqa
    yield dict(name="root", readme=rd("h1 cooking at home 1"), recipes=[r("plain.md", "Plain", 2)], assets=[],
               subdirs=[dict(name="a", readme=rd("Lunch"), recipes=[r("x.md", "X", 2)], subdirs=[], assets=[]),
                        dict(name="b", readme=rd("Meal plan week 1"), recipes=[r("y.md", "Y", None)], subdirs=[], assets=[]),
                        dict(name="c", readme=rd("hot dish"), recipes=[r("z.md", "Z", 1)], subdirs=[], assets=[])]), 2
    # a readme whose title ends like a serving phrase with a count above M (a readme is not a recipe: no error), and a recipe with whole numbers
    # too large for a float (shown exactly on every page, the one at the stated count included)
    big = dict(file="big.md", title="Big", servings=2, links=[],
               raw="# Big for 2\n\nCount {18014398509481985} grains.\n\n    9007199254740993 g sand\n    sift(sand, {36028797018963969} times)\n")
    yield dict(name="root", readme=rd("Party food for 20"), recipes=[r("dip.md", "Dip", 2), big], assets=[],
               subdirs=[dict(name="more", readme=rd("Buffet serves 12"), recipes=[r("x.md", "X", None)], subdirs=[], assets=[])]), 3
    # names that read as a URL scheme when they begin a relative link (category listings and menus must still lead to the page)
    yield sub("root", [r("curry:mild.md", "Mild curry", 2), r("a:b.md", "AB", None)], [sub("sides:hot", [r("rice:plain.md", "Rice", 2), r("naan.md", "Naan", 1)])]), 2
    # recipes that point at one another and at a local file, in another directory too
    potato = dict(file="potato.md", title="Potato soup", servings=2, links=[("Lleek", "leek.md", ("recipe", "soups/leek.md")), ("Ipic", "pic.png", ("asset", "soups/pic.png"))])
    leek = dict(file="leek.md", title="Leek soup", servings=3, links=[("Lbread", "../bread.md", ("recipe", "bread.md")), ("Lroot", "/soups/potato.md", ("recipe", "soups/potato.md"))])
    bread = dict(file="bread.md", title="Bread", servings=None, links=[("Lsoup", "soups/potato.md", ("recipe", "soups/potato.md"))])
    yield dict(name="root", readme=None, recipes=[bread], assets=[],
               subdirs=[dict(name="soups", readme=None, recipes=[potato, leek], subdirs=[], assets=[dict(file="pic.png", data=b"\x89PNG")])]), 3


def oracle(run):
    rng = run.rng
    run.case(("command-line",), True, kind="command-line")
    for sig, detail in check_cli_status()[:2]:
        run.violate(sig, detail, {"command_line": True})
    run.case(("decimal-consistency",), True, kind="decimal-consistency")
    for sig, detail in check_decimal_consistency():
        run.violate(sig, detail, {"decimal_consistency": True})
    fixed = [(d, M, mode) for d, M in fixed_cases() for mode in gen_site.PATH_MODES]
    for i in range(run.budget(25, 600) + len(fixed)):
        d, M, mode = fixed[i] if i < len(fixed) else (gen_case(rng, collide=(i == len(fixed))) + (gen_site.PATH_MODES[i % 3],))
        run.case(("oracle", gen_site.tree_sexp(d), M), True, kind="site-" + mode)
        seen = set()
        for sig, detail in check_site(d, M, mode):
            if sig not in seen:
                seen.add(sig)
                run.violate(sig, detail, {"site": c14.d_json(d), "M": M, "mode": mode})


def replay(run, obj):
    r = obj["replay"]
    if r.get("command_line"):
        res = check_cli_status()
        for x in res:
            print(*x)
        return bool(res)
    if r.get("decimal_consistency"):
        res = check_decimal_consistency()
        for x in res:
            print(*x)
        return bool(res)
    res = check_site(c14.d_unjson(r["site"]), r["M"], r.get("mode", "abs"))
    for x in res:
        print(*x)
    return bool(res)
