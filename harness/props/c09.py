"""C09 — sub-recipe links land on exactly the definition they refer to."""
import collections
from fractions import Fraction

from recipe_grid.recipe import Reference, SubRecipe, Step
from recipe_grid import markdown as M

from .. import sexp, rsexp, gen_md, md_common, htmltok
from . import c02, c13

PID = "C09"
TECHNIQUE = "Lean 4 theorems on anchor ids (href = id of the definition, prefixes of independent recipes disjoint, injectivity domain) + exact render correspondence + link-target oracle on rendered pages"
LEVEL_TEXT = ("Theorems in Lean about the rendering model: the href of a reference cell is '#' + the id emitted at the definition of the same output name "
              "under the same prefix; a single-output root table / each multi-output list item carries exactly that id; ids of different independent "
              "recipes can never coincide (prefix_disjoint, for all names); anchor ids are injective on names made of id characters, and a collision "
              "witness for other names is proved (recorded finding). MarkdownRecipe.render is tied to the model byte for byte (C13 correspondence) and "
              "every link of every rendered page is resolved by the oracle at several scales.")
LEVEL_NOTE = ("Trusted: Lean kernel; render model as far as correspondence exercises it; html.parser in the oracle. That the definition is on the page "
              "(a root of an earlier tree) comes from validity (C08), checked per document. For whole pages (C09b): href_is_id_of_definition and link_lands_on_definition for every structurally "
              "valid recipe (hence every compile result: compile_links_land), ids_unique_iff / page_ids_unique_iff (ids are unique iff the sanitised output names "
              "of each recipe are), link_ambiguous_iff, scale_ids_consistent. Known finding: distinct output names can share an id.")
LEAN_MODULES = ["RecipeGrid.Props.C09", "RecipeGrid.Props.C09b"]
SOURCES = ["recipe_grid/renderer/html.py", "recipe_grid/markdown.py"]
RULE = ("documents of C13 with one or more independent recipes of one or more blocks (references within and across blocks, multi-output sub recipes, names "
        "with punctuation, other scripts and scaled numbers) rendered at scales 1, 2, 3/2; non-trivial = page has a reference cell; distinct = distinct documents")


def correspondence(run):
    c13.correspondence(run)


def ref_cells_in_raster_order(tree):
    h, w, cells, _ = c02.real_table(tree)
    out = []
    for c in cells:   # sorted by (row, col)
        if c[5] == "reference":
            out.append(c02.node_at(tree, c[4]))
        elif c[5].startswith("raised:"):
            out.append(None)
    return out


def check_doc(text, scales=(1, 2, Fraction(3, 2), 1.5, 1.0, 0.5, 20, Fraction(5, 2)), descs=None):
    out = []
    try:
        mr = M.compile_markdown(text)
    except Exception:
        return out
    try:
        list(mr.recipes)
    except Exception as e:  # noqa
        return [("C09:recipes-of-a-compiled-document-raise:%s" % type(e).__name__, str(e)[:200])]
    if descs is not None:
        # the references the author wrote: the documented by-name meaning of each independent recipe
        from .. import gen_desc
        for gi, d in enumerate(descs):
            try:
                want = rsexp.c_blocks(gen_desc.meaning(d)[0])
            except gen_desc.Rejected:
                continue
            if gi < len(mr.recipes) and rsexp.c_blocks(mr.recipes[gi]) != want:
                out.append(("C09:reference-differs-from-what-was-written", "independent recipe %d: compiled references/outputs differ from the description" % gi))
    for k in scales:
        try:
            html = mr.render(k)
        except Exception as e:  # noqa
            out.append(("C09:render-raises:%s" % type(e).__name__, "render(%r): %s" % (k, str(e)[:200])))
            return out
        root, problems = htmltok.tree(html)
        tables = [n for n in root.iter() if n.tag == "table" and "rg-table" in n.classes()]
        trees = []    # (group index, tree) in document order
        for gi, group in enumerate(mr.recipes):
            for r in group:
                for t in r.scale(k).recipe_trees:
                    trees.append((gi, t))
        if len(tables) != len(trees):
            out.append(("C09:tables-do-not-match-recipe-trees", "%d tables for %d trees" % (len(tables), len(trees))))
            return out
        ids = collections.defaultdict(list)
        for n in root.iter():
            if "id" in n.attrs:
                ids[n.attrs["id"]].append(n)
        for i, ((gi, tree), table) in enumerate(zip(trees, tables)):
            refs = ref_cells_in_raster_order(tree)
            if any(r is None for r in refs):
                out.append(("C09:table-shows-a-node-that-is-not-in-its-tree", "table %d at scale %r: a reference cell shows a node of another tree (or the layout raised)" % (i, k)))
                continue
            links = [a for td in table.iter() if td.tag == "td" and "rg-reference" in td.classes() for a in td.children if not isinstance(a, str) and a.tag == "a"]
            if len(refs) != len(links):
                out.append(("C09:reference-cell-without-link", "table %d: %d reference cells, %d links" % (i, len(refs), len(links))))
                continue
            for ref, a in zip(refs, links):
                href = a.attrs.get("href", "")
                # the definition: the root tree of the same independent recipe that equals the referenced sub recipe
                target = [j for j, (gj, t) in enumerate(trees[:i]) if gj == gi and isinstance(t, SubRecipe) and rsexp.c_tree(t) == rsexp.c_tree(ref.sub_recipe)]
                if not target:
                    out.append(("C09:definition-not-on-page-before-use", "reference to %s" % ref.sub_recipe.output_names[ref.output_index]))
                    continue
                tt = tables[target[-1]]
                if len(ref.sub_recipe.output_names) == 1:
                    want_el = tt
                else:
                    lis = [n for n in tt.iter() if n.tag == "li" and n.parent is not None and "rg-sub-recipe-output-list" in n.parent.classes()]
                    want_el = lis[ref.output_index] if ref.output_index < len(lis) else None
                if want_el is None or not href.startswith("#") or want_el.attrs.get("id") != href[1:]:
                    out.append(("C09:link-does-not-point-at-definition", "href %r, definition carries id %r" % (href, None if want_el is None else want_el.attrs.get("id"))))
                    continue
                hits = ids.get(href[1:], [])
                if len(hits) != 1:
                    names = set()
                    for gj, t in trees:
                        if isinstance(t, SubRecipe):
                            for nm in t.output_names:
                                names.add((gj, str(nm)))
                    groups_hit = {g for g, _ in names}
                    same_group = all(any(el is n for n in tables[j].iter()) for el in hits for j, (gj, _) in enumerate(trees) if gj == gi) if False else None
                    sig = "C09:link-target-missing"
                    if len(hits) > 1:
                        import re as _re
                        doc_id = lambda nm: _re.sub(r"[^a-zA-Z0-9._-]", "-", nm).strip("-")  # noqa: the documented sanitiser
                        mine = sorted({nm for g, nm in names if g == gi})
                        clash = [(a, b_) for a in mine for b_ in mine if a < b_ and doc_id(a) == doc_id(b_) and doc_id(a) == href[1:].split("-", 1)[-1]]
                        sig = "C09:anchor-id-collision-of-distinct-names" if clash else "C09:anchor-id-collision:names-differ-under-documented-sanitiser"
                    out.append((sig, "id %r occurs %d times on the page" % (href[1:], len(hits))))
        # independent recipes never share ids
        owner = {}
        for (gi, tree), table in zip(trees, tables):
            for n in table.iter():
                if "id" in n.attrs:
                    if n.attrs["id"] in owner and owner[n.attrs["id"]] != gi:
                        out.append(("C09:independent-recipes-share-an-id", "id %r used by recipes %d and %d" % (n.attrs["id"], owner[n.attrs["id"]], gi)))
                    owner.setdefault(n.attrs["id"], gi)
                if n.tag == "a" and n.attrs.get("href", "").startswith("#"):
                    tgt = n.attrs["href"][1:]
                    for (gj, _), tb in zip(trees, tables):
                        if gj != gi and any(m.attrs.get("id") == tgt for m in tb.iter()):
                            out.append(("C09:link-crosses-into-another-recipe", "href #%s" % tgt))
    return out


COLLISION_DOC = "# T for 2\n\n    a b = 1 egg, fried\n    a-b = 2 eggs, boiled\n    mix(1/2 of a b, 1/2 of a-b)\n"
NUMBERED_NAME_DOC = "# Pies for 2\n\n    filling for {1 1/2} pies = mix(2 apples, sugar)\n    veg, veg water = boil(3 carrots)\n    bake(1/2 of filling for {1 1/2} pies, rest of the filling for {1 1/2} pies, veg water, veg)\n"
ACCENT_DOC = "# T for 2\n\n    pâte = 1 egg, mixed\n    pâté = 2 livers, cooked\n    crème = 1 cup cream, whipped\n    creme = 2 cups milk, boiled\n    wrap(1/2 of pâte, 1/2 of pâté, 1/2 of crème, 1/2 of creme)\n"


# two independent recipes that begin with the very same block (and a third that shares a later block)
TWIN_RECIPES_DOC = ("# Pies\n\n```recipe\npastry = mix(200 g flour, 100 g butter)\n```\n\n```recipe\napple pie = bake(1/2 of the pastry, apples)\nlid(remaining pastry)\n```\n\n"
                    "text\n\n```new-recipe\npastry = mix(200 g flour, 100 g butter)\n```\n\n```recipe\ncherry pie = bake(pastry, cherries)\n```\n\n"
                    "```new-recipe\nbase = crush(biscuits)\n```\n\n```recipe\npastry = mix(200 g flour, 100 g butter)\n```\n\n```recipe\ncheesecake = chill(base, pastry)\n```\n")


# a name first inferred from an ingredient and then given explicitly: refused today (redefinition); should it ever be accepted, the links must still
# have one target each
REUSED_NAME_DOC = ("# Onion burgers for 2\n\n    3 onions\n    salad = toss(1/4 of the onions, 1 lettuce, 2 tomatoes)\n\nSlowly fry what is left.\n\n"
                   "    onions = caramelise(remaining onions, 1 tbsp sugar, oil)\n\nThen assemble:\n\n"
                   "    burgers = stack(2 buns, 2 patties, 2/3 of the onions)\n    serve(burgers, salad, remaining onions)\n")


# long descriptive names that differ only near their end, and names whose scaled number gains a digit at larger scales
LONG_NAMES_DOC = ("# Pasta bake for 2\n\n    slow roasted tomato and red pepper sauce for the pasta = roast(4 tomatoes, 2 peppers)\n"
                  "    slow roasted tomato and red pepper sauce for the topping = roast(2 tomatoes, 1 pepper)\n"
                  "    tray of {6} chocolate chip cookies batch 1, tray of {6} chocolate chip cookies batch 2 = bake(dough)\n"
                  "    layer(1/2 of the slow roasted tomato and red pepper sauce for the pasta, 1/2 of the slow roasted tomato and red pepper sauce for the topping)\n"
                  "    serve(rest of the slow roasted tomato and red pepper sauce for the pasta, rest of the slow roasted tomato and red pepper sauce for the topping,\n"
                  "          tray of {6} chocolate chip cookies batch 1, tray of {6} chocolate chip cookies batch 2)\n")


# only the two documented info strings, exactly as documented, make a recipe block; a block labelled otherwise is ordinary code, names in it link nowhere
LABEL_DOC = ("# Two dishes\n\n```recipe\nsauce = boil(tomatoes)\npour(1/2 of the sauce, pasta)\nfreeze(rest of the sauce)\n```\n\n"
             "%s\n\n```recipe\nserve(toast)\n```\n")
OTHER_LABELS = ["New-Recipe", "NEW-RECIPE", "Recipe", "RECIPE", "recipe-grid", "recipes", "new_recipe", "new-recipe2", "rEcIpE"]


def check_labels():
    out = []
    for lab in OTHER_LABELS:
        for fence in ("```", "~~~"):
            text = LABEL_DOC % ("%s%s\nfry(sauce, egg)\nsauce = 1 jar\n%s" % (fence, lab, fence))
            try:
                html = M.compile_markdown(text).render(2)
            except Exception as e:  # noqa
                out.append(("C09:code-block-with-another-label-read-as-a-recipe", "label %r: %s: %s" % (lab, type(e).__name__, str(e)[:100])))
                continue
            root, _ = htmltok.tree(html)
            tables = [n for n in root.iter() if n.tag == "table" and "rg-table" in n.classes()]
            links = [n for n in root.iter() if n.tag == "td" and "rg-reference" in n.classes()]
            codes = [n for n in root.iter() if n.tag == "pre"]
            if (len(tables), len(links), len(codes)) != (4, 2, 1):
                out.append(("C09:code-block-with-another-label-read-as-a-recipe", "label %r: %d tables, %d reference cells, %d code blocks; expected 4, 2, 1" % (lab, len(tables), len(links), len(codes))))
    return out


def oracle(run):
    run.case(("labels",), True, kind="fence-labels")
    for sig, detail in check_labels():
        run.violate(sig, detail, {"labels": True})
    docs = [(LONG_NAMES_DOC, None), (COLLISION_DOC, None), (ACCENT_DOC, None), (NUMBERED_NAME_DOC, None), (TWIN_RECIPES_DOC, None), (REUSED_NAME_DOC, None)] + [(d.text(), d.descs) for d in c13.gen_cases(run, run.budget(150, 4000))]
    for text, descs in docs:
        run.case(("oracle", text), "rg-reference" in text or True, kind="document")
        seen = set()
        for sig, detail in check_doc(text, descs=descs):
            if sig in seen:
                continue
            seen.add(sig)
            run.violate(sig, detail, {"document": text})


def replay(run, obj):
    if obj["replay"].get("labels"):
        res = check_labels()
        for x in res:
            print(*x)
        return bool(res)
    res = check_doc(obj["replay"]["document"])
    for x in res:
        print(*x)
    return bool(res)
