"""C16 — local files are copied byte-exact and never taken from outside the source root."""
import base64
import mimetypes
import os
import re
import shutil
from functools import partial
from pathlib import Path
from urllib.parse import quote, unquote, urlsplit

from recipe_grid.static_site.html_postprocessing import postprocess_html, resolve_local_links, embed_local_links_as_data_urls
from recipe_grid.static_site.exceptions import LinkToExternalFileError, LinkToNonExistentFileError, StaticSiteError
from recipe_grid.static_site.website import generate_static_site
from recipe_grid.static_site.standalone_page import generate_standalone_page

from .. import sexp, gen_site

PID = "C16"
TECHNIQUE = "Lean 4 theorems on the link-rewriting decision (untouched iff external/in-page, containment of asset paths, refusal outside the root) + correspondence of resolve_local_links + byte-exact copy and canary oracle with symlinks"
LEVEL_TEXT = ("The decision logic of resolve_local_links / embed_local_links_as_data_urls after URL splitting and path canonicalisation is modelled in Lean; "
              "theorems: a URL is left untouched iff it has a scheme, a network location or an empty path; an asset path is produced only for an existing "
              "file whose canonical path lies below the canonical root and equals assets + the path relative to the root, hence contains no '..'; "
              "otherwise the corresponding error. The model is compared with the real functions on real directories (files, symlinks inside/outside, "
              "every link spelling); the oracle checks byte-identical copies, data URLs and that no byte of an outside canary file reaches the output. "
              "The data URL itself (C16c): b64encode / dataUrl model base64.b64encode and the f-string of embed_local_links_as_data_urls; b64decode_encode, "
              "dataUrl_roundtrip, parseDataUrlCanon_eq_some_iff (an RFC 2397 / RFC 4648 reader gets back exactly the media type and the file's bytes, for every "
              "byte string of every length), b64encode_injective, dataUrl_only_file_bytes, dataUrl_attribute_verbatim (nothing in it is changed by the HTML "
              "serialisation); the media type: CPython's guess_type rule over its regenerated built-in tables (guessTypeWith_mem, typed_file_has_no_encoding, "
              "compressed_file_is_octet_stream: a compressed file is never labelled with the type of what it unpacks to - the repaired behaviour; "
              "old_rule_mislabels_witness), compared with the real functions on real files and with mimetypes on the machine's and the built-in tables.")
LEVEL_NOTE = ("Path resolution is modelled too (C16b: an abstract file system with symbolic links, CPython's Path.resolve() including what it does at a loop, "
              "percent-decoding, component-wise containment): asset_is_inside_root and no_outside_bytes hold for every file system, root and URL; the model found "
              "that the pinned code served outside bytes behind a symlink loop (single_resolve_leaks) and that a first repair was insufficient "
              "(double_resolve_leaks); the repaired code is what is modelled and compared on generated directory trees. Partial: copyfile being byte-exact and lxml's rewrite_links finding every link are the file "
              "system's and the library's behaviour: observed by the oracle, not proved; mimetypes.guess_type and base64 are modelled (C16c) and tied by exact "
              "correspondence, the platform's mime.types additions travel with the request. Trusted: Lean kernel; urlsplit/unquote as the harness applies them.")
LEAN_MODULES = ["RecipeGrid.Props.C16", "RecipeGrid.Props.C16b", "RecipeGrid.Props.C16c"]
TRUSTED_EXTRA = ["Model/Fs.lean as a description of CPython 3.12's pathlib.Path.resolve() / os.path.realpath(strict=False) and of the kernel's path lookup "
                 "(symbolic links, ELOOP, 40-link limit): validated only by the correspondence on generated directory trees; the model gives up ('fuel') after "
                 "4096 link expansions; '//' prefixes, relative roots and urlsplit's ValueError cases are not modelled"]
SOURCES = ["recipe_grid/static_site/html_postprocessing.py", "recipe_grid/static_site/website.py", "recipe_grid/static_site/standalone_page.py"]
RULE = ("link spellings: relative, ./, ../ chains (inside and escaping the root), root-absolute, percent-encoded, with query/fragment, external schemes, "
        "protocol-relative, in-page anchors, empty; targets: existing files with random bytes and names with spaces/#/%, directories, missing files, "
        "symlinks pointing inside and outside, files outside the root; both generators; non-trivial = link is local; distinct = distinct (layout, url)")
CANARY = b"CANARY-OUTSIDE-FILE-MUST-NOT-LEAK-7f3a9c"


def build_fs(rng, scratch):
    """root/ with files, subdirs, symlinks; outside/ with the canary. Returns dict of names."""
    root = scratch / "src root"
    outside = scratch / "outside"
    (root / "a" / "sub").mkdir(parents=True)
    (root / "b").mkdir()
    outside.mkdir()
    files = {}
    # (names with ';' and '=': path parameters of old URL grammars; "scan.jpg;1" beside "scan.jpg" are two files)
    for rel in ["a/img 1.png", "a/sub/data#1.txt", "b/file%20x.bin", "top.txt", "a/é.svg", "a/scan.jpg;1", "a/scan.jpg", "a/sub/notes;v=2.txt"]:
        data = bytes(rng.randrange(256) for _ in range(rng.randint(1, 200)))
        (root / rel).write_bytes(data)
        files[rel] = data
    (outside / "secret.txt").write_bytes(CANARY + b" secret")
    (scratch / "src root-private").mkdir()          # a sibling whose name starts with the root's name
    (scratch / "src root-private" / "secret.txt").write_bytes(CANARY + b" prefix sibling")
    (scratch / "sibling.txt").write_bytes(CANARY + b" sibling")
    os.symlink(root / "top.txt", root / "a" / "link-inside.txt")
    os.symlink(outside / "secret.txt", root / "a" / "link-outside.txt")
    os.symlink(outside, root / "b" / "dir-outside")
    (root / "a" / "recipe.md").write_text("# R for 2\n\n    1 x\n")
    return root, outside, files


URLS = ["scan.jpg;1", "scan.jpg", "./scan.jpg;1?x#y", "scan.jpg%3B1", "sub/notes;v=2.txt", "sub/notes;v=3.txt", "scan.jpg;2", "img%201.png", "img 1.png", "./img%201.png", "sub/data%231.txt", "sub/data#1.txt", "../b/file%2520x.bin", "../top.txt", "/top.txt", "/a/img%201.png",
        "link-inside.txt", "link-outside.txt", "../b/dir-outside/secret.txt", "../../outside/secret.txt", "../../sibling.txt", "/../sibling.txt",
        "%2e%2e/%2e%2e/outside/secret.txt", "../../src%20root-private/secret.txt", "/../src%20root-private/secret.txt", "missing.png", "sub/", "sub", ".", "", "#frag", "img%201.png#frag", "img%201.png?q=1", "http://example.com/x.png",
        "//example.com/x.png", "mailto:a@b", "data:text/plain,hi", "%C3%A9.svg", "é.svg", "sub/../img%201.png", "/a/../top.txt", "a%00b", "recipe.md", "../a/recipe.md#top"]


def run_resolve(root, source, from_path, url, lookup):
    assets = {}
    frag = '<a href="%s">x</a>' % url.replace("&", "&amp;").replace('"', "&quot;")
    try:
        out = postprocess_html(frag, False, [partial(resolve_local_links, source=source, root=root, from_path=from_path,
                                                     source_to_page_paths=lookup, filename_to_asset_paths=assets, assets_dir_path="/assets")])
    except LinkToExternalFileError:
        return "LinkToExternalFileError", assets
    except LinkToNonExistentFileError:
        return "LinkToNonExistentFileError", assets
    except Exception as e:  # noqa
        return "raises:" + type(e).__name__, assets
    m = re.search(r'href="([^"]*)"', out)
    return ("href", m.group(1).replace("&amp;", "&") if m else None), assets


def model_request(root, source, from_path, url, lookup):
    parts = urlsplit(url)
    path = unquote(parts.path)
    if path.startswith("/"):
        fs = root / Path(*path.split("/")[1:])
    else:
        fs = source.parent / Path(*path.split("/"))
    try:
        fs = fs.resolve()
    except Exception:
        return None
    rootp = root.resolve()
    lk = lookup.get(fs)
    return sexp.tag("rewrite", sexp.s(parts.scheme), sexp.s(parts.netloc), sexp.s(parts.path), sexp.lst(sexp.s, fs.parts[1:]), sexp.lst(sexp.s, rootp.parts[1:]),
                    sexp.b(fs.is_file()), sexp.opt(lambda x: sexp.tag("lk", sexp.s(x[0]), sexp.b(x[1])), lk), sexp.s(from_path), sexp.s("/assets")), parts


def dataurl_correspondence(run):
    """C16c: base64, data URLs, guess_type and lxml's attribute serialisation against Model/DataUrl.lean (harness/dataurl_corr.py, its own process)"""
    import re
    import subprocess
    import sys
    here = os.path.dirname(os.path.dirname(os.path.abspath(__file__)))
    args = [sys.executable, os.path.join(here, "dataurl_corr.py"), str(20260930 + run.seed)]
    if run.tier == "quick" and not getattr(run, "escalated", False):
        args.append("quick")
    p = subprocess.run(args, stdout=subprocess.PIPE, stderr=subprocess.STDOUT, text=True, timeout=3000, env=dict(os.environ, PYTHONPATH=os.pathsep.join(x for x in sys.path if x)))
    m = re.search(r"^disagreements: (\d+)", p.stdout, re.M)
    if not m:
        run.disagree("data-url", "harness/dataurl_corr.py", p.stdout[-800:], "n/a")
        return
    n = sum(int(x) for x in re.findall(r"^  \S.*?\s(\d+)$", p.stdout, re.M))
    run.groups["base64 / data URL / guess_type / attribute serialisation vs Model/DataUrl.lean"] += n
    run.evaluations += n
    if int(m.group(1)):
        for line in p.stdout.split("disagreements:")[1].splitlines()[1:8]:
            run.disagree("data-url", line.strip()[:300], "real", "model")


def correspondence(run):
    dataurl_correspondence(run)
    rng = run.rng
    scratch = gen_site.scratch_root()
    try:
        root, outside, files = build_fs(rng, scratch)
        source = root / "a" / "recipe.md"
        lookup = {(root / "a" / "recipe.md").resolve(): ("/serves2/a/recipe.html", True), (root / "a").resolve(): ("/categories/a/index.html", True),
                  root.resolve(): ("/categories/index.html", True)}
        reqs, meta = [], []
        for url in URLS * run.budget(1, 4):
            from_path = rng.choice(["/serves2/a/recipe.html", "/serves3/a/recipe.html", "/categories/a/index.html"])
            r = model_request(root, source, from_path, url, lookup)
            real, assets = run_resolve(root, source, from_path, url, lookup)
            if r is None:
                run.case(("resolve", url, from_path), True, kind="unresolvable:" + str(real))
                continue
            reqs.append(r[0])
            meta.append((url, from_path, real, assets, r[1]))
        rep = run.ask(reqs)
        for (url, from_path, real, assets, parts), m in zip(meta, rep):
            if m == "untouched":
                model = ("href", url)
            elif isinstance(m, tuple) and m[0] == "page":
                model = ("href", parts._replace(path=m[1]).geturl())
            elif isinstance(m, tuple) and m[0] == "asset":
                model = ("href", parts._replace(path=m[2]).geturl())
            else:
                model = m
            run.case(("resolve", url, from_path), bool(parts.path) and not parts.scheme, kind=str(m[0] if isinstance(m, tuple) else m),
                     sample={"url": url, "from": from_path, "outcome": str(real)})
            run.groups["resolve_local_links"] += 1
            ok = real == model
            if ok and isinstance(m, tuple) and m[0] == "asset":
                ok = list(assets.values()) == [m[1]]
            if isinstance(real, str) and real.startswith("raises:"):
                ok = True     # undocumented exception: the oracle reports it; the model has no such outcome
            if not ok:
                run.disagree("resolve_local_links", [url, from_path], [real, list(assets.values())], repr(m))
    finally:
        shutil.rmtree(scratch, ignore_errors=True)
    # path resolution itself (symbolic links, loops, '..', percent-decoding, containment) on generated directory trees
    from .. import fs_corr
    fs_corr.correspondence(run, run.budget(25, 400))


# ------------------------------------------------------------------ oracle: whole generators on a real tree
def classify(root, source_dir, url):
    """what the property prescribes for a link written in a file in source_dir: ('untouched',) | ('copy', relpath) | ('outside',) | ('missing',) | ('page',)"""
    parts = urlsplit(url)
    if parts.scheme or parts.netloc or parts.path == "":
        return ("untouched",)
    path = unquote(parts.path)
    if "\x00" in path:
        return ("invalid",)
    fs = (root / path.lstrip("/")) if path.startswith("/") else (source_dir / path)
    real = Path(os.path.realpath(fs))
    rr = Path(os.path.realpath(root))
    if real != rr and rr not in real.parents:
        return ("outside",)
    if real.suffix == ".md" or real.is_dir():
        return ("page",)
    if not real.is_file():
        return ("missing",)
    return ("copy", str(real.relative_to(rr)).replace(os.sep, "/"))


def check_site_link(rng, url):
    out = []
    scratch = gen_site.scratch_root()
    try:
        root, outside, files = build_fs(rng, scratch)
        md = "# R for 2\n\n    1 x\n\n[L](%s)\n\n![I](%s)\n" % (url, url) if " " not in url else "# R for 2\n\n    1 x\n\n[L](<%s>)\n" % url
        if ";" in url:
            # (Markdown percent-encodes a ';' in a link destination; raw HTML hands it on as written)
            md = "# R for 2\n\n    1 x\n\n<img src=\"%s\" alt=\"J\">\n\n<a href=\"%s\">H</a>\n" % (url, url)
        (root / "a" / "recipe.md").write_text(md)
        want = classify(root, root / "a", url)
        site_out = scratch / "out"
        try:
            generate_static_site(root, site_out, 2)
            res = "ok"
        except StaticSiteError as e:
            res = type(e).__name__
        except Exception as e:  # noqa
            res = "raises:" + type(e).__name__
        exp = {"outside": "LinkToExternalFileError", "missing": "LinkToNonExistentFileError"}.get(want[0], "ok")
        if want[0] == "invalid":
            if not (res in ("LinkToNonExistentFileError", "LinkToExternalFileError") or res == "ok"):
                out.append(("C16:invalid-link-raises-undocumented-exception", "%r: %s" % (url, res)))
        elif res != exp:
            out.append(("C16:wrong-outcome:%s-expected-%s" % (want[0], exp), "site: link %r gave %s" % (url, res)))
        if site_out.exists():
            for p in site_out.rglob("*"):
                if p.is_file() and CANARY in p.read_bytes():
                    out.append(("C16:outside-bytes-leaked", "site file %s contains the canary (link %r)" % (p.relative_to(site_out), url)))
            if want[0] == "copy" and res == "ok":
                copy = site_out / "assets" / want[1]
                src_file = Path(os.path.realpath(root)) / want[1]
                if not copy.is_file() or copy.read_bytes() != src_file.read_bytes():
                    out.append(("C16:asset-copy-missing-or-different", "link %r: assets/%s" % (url, want[1])))
                page = (site_out / "serves2" / "a" / "recipe.html").read_text()
                hrefs = re.findall(r'(?:href|src)="([^"]*)"', page)
                targets = [gen_site.resolve("/serves2/a/recipe.html", h.replace("&amp;", "&")) for h in hrefs]
                if "/assets/" + want[1] not in targets:
                    out.append(("C16:link-does-not-point-at-copy", "link %r: page links resolve to %r" % (url, [t for t in targets if t and "assets" in t])))
            if want[0] == "untouched" and res == "ok":
                page = (site_out / "serves2" / "a" / "recipe.html").read_text()
                if url and ('href="%s"' % url.replace("&", "&amp;")) not in page:
                    out.append(("C16:external-or-anchor-link-modified", "%r not found verbatim in page" % url))
        # standalone page
        for embed in (True, False):
            try:
                page = generate_standalone_page(root / "a" / "recipe.md", embed_local_links=embed)
                res2 = "ok"
            except StaticSiteError as e:
                res2, page = type(e).__name__, ""
            except Exception as e:  # noqa
                res2, page = "raises:" + type(e).__name__, ""
            if CANARY in page.encode() or base64.b64encode(CANARY)[:20] in page.encode():
                out.append(("C16:outside-bytes-leaked", "standalone page (embed=%s) contains the canary (link %r)" % (embed, url)))
            if embed:
                cls = classify(root, root / "a", url)   # the standalone page's root is the file's directory
                cls_sa = classify(root / "a", root / "a", url)
                exp2 = {"outside": "LinkToExternalFileError", "missing": "LinkToNonExistentFileError", "page": None, "invalid": None}.get(cls_sa[0], "ok")
                if exp2 is not None and res2 != exp2 and not (cls_sa[0] == "page"):
                    out.append(("C16:standalone-wrong-outcome:%s-expected-%s" % (cls_sa[0], exp2), "standalone: link %r gave %s" % (url, res2)))
                if cls_sa[0] == "copy" and res2 == "ok":
                    data = (Path(os.path.realpath(root / "a")) / cls_sa[1]).read_bytes()
                    mt, enc = mimetypes.guess_type(cls_sa[1])
                    if mt is None or enc is not None:      # no type known, or the type of what is inside a compressed file: just bytes
                        mt = "application/octet-stream"
                    if ("data:%s;base64,%s" % (mt, base64.b64encode(data).decode())) not in page:
                        out.append(("C16:data-url-wrong", "link %r" % url))
                if cls_sa[0] == "invalid" and res2.startswith("raises:"):
                    out.append(("C16:invalid-link-raises-undocumented-exception", "standalone %r: %s" % (url, res2)))
        return out
    finally:
        shutil.rmtree(scratch, ignore_errors=True)


def check_rebuild(rng):
    """a second generation into the same output directory still gives byte-identical copies"""
    out = []
    scratch = gen_site.scratch_root()
    try:
        root, outside, files = build_fs(rng, scratch)
        (root / "a" / "recipe.md").write_text("# R for 2\n\n    1 x\n\n![I](img%201.png)\n\n[L](../top.txt)\n")
        site_out = scratch / "out"
        generate_static_site(root, site_out, 2)
        for rel in ("a/img 1.png", "top.txt"):
            old = (root / rel).read_bytes()
            new = bytes((b + 1) % 256 for b in old)        # same size, different content
            (root / rel).write_bytes(new)
            os.utime(root / rel, (1000000000, 1000000000))   # and an old modification time (mv / cp -p / archive restore)
        generate_static_site(root, site_out, 2)
        for rel in ("a/img 1.png", "top.txt"):
            if (site_out / "assets" / rel).read_bytes() != (root / rel).read_bytes():
                out.append(("C16:asset-copy-stale-after-rebuild", "assets/%s differs from the source after regenerating into the same directory" % rel))
        return out
    finally:
        shutil.rmtree(scratch, ignore_errors=True)


def check_symlinked_input(rng):
    """the file handed to the standalone generator is a symlink: its own directory is the root, not the target's"""
    out = []
    scratch = gen_site.scratch_root()
    try:
        book, shared = scratch / "book", scratch / "shared"
        book.mkdir()
        shared.mkdir()
        (shared / "soup.md").write_text("# Soup for 2\n\n    1 x\n\n![I](photo.jpg)\n")
        (shared / "only.md").write_text("# Only for 2\n\n    1 x\n\n![I](private.jpg)\n")
        (shared / "photo.jpg").write_bytes(CANARY + b" shared photo")
        (shared / "private.jpg").write_bytes(CANARY + b" private")
        (book / "photo.jpg").write_bytes(b"book photo bytes")
        os.symlink(shared / "soup.md", book / "soup.md")
        os.symlink(shared / "only.md", book / "only.md")
        page = generate_standalone_page(book / "soup.md", embed_local_links=True)
        if base64.b64encode(b"book photo bytes").decode() not in page or base64.b64encode(CANARY)[:20].decode() in page:
            out.append(("C16:standalone-embeds-file-from-outside-its-root", "book/soup.md -> ../shared/soup.md embedded shared/photo.jpg instead of book/photo.jpg"))
        try:
            page = generate_standalone_page(book / "only.md", embed_local_links=True)
            out.append(("C16:standalone-embeds-file-from-outside-its-root", "book/only.md links private.jpg which exists only next to the symlink's target: no error raised"))
        except StaticSiteError:
            pass
        # the same through the command line (recipe-grid FILE OUT), which is how a user reaches the stand-alone generator
        import contextlib
        import io
        import sys
        from recipe_grid.scripts import recipe_grid as cli
        for name, must_fail in (("soup.md", False), ("only.md", True)):
            o = scratch / ("cli-" + name + ".html")
            old, code = sys.argv, 0
            sys.argv = ["recipe-grid", str(book / name), str(o)]
            try:
                with contextlib.redirect_stdout(io.StringIO()), contextlib.redirect_stderr(io.StringIO()):
                    try:
                        cli.main()
                    except SystemExit as e:
                        code = e.code or 0
                    except StaticSiteError:
                        code = 1
            finally:
                sys.argv = old
            page = o.read_text() if o.exists() else ""
            if must_fail and code == 0:
                out.append(("C16:standalone-embeds-file-from-outside-its-root", "recipe-grid book/only.md: private.jpg exists only next to the symlink's target; the command succeeded"))
            if not must_fail and (code != 0 or base64.b64encode(b"book photo bytes").decode() not in page):
                out.append(("C16:standalone-embeds-file-from-outside-its-root", "recipe-grid book/soup.md (a symlink): exit %r, the page does not embed book/photo.jpg" % (code,)))
            if base64.b64encode(CANARY)[:20].decode() in page:
                out.append(("C16:outside-bytes-leaked", "recipe-grid book/%s embedded bytes of a file outside book/" % name))
        out += check_large_embedded_files(scratch)
        return out
    finally:
        shutil.rmtree(scratch, ignore_errors=True)


def check_large_embedded_files(scratch):
    """embedded copies are byte-exact whatever the size of the file (sizes around powers of two, where buffers end)"""
    import re
    out = []
    d = scratch / "big"
    d.mkdir()
    sizes = [0, 1, 2, 3, 4095, 4096, 4097, 65535, 65536, 65537, 1048575, 1048576, 1048577, 1048581, 3 * 1048576 + 1]
    names = []
    for i, n in enumerate(sizes):
        names.append("f%d.bin" % i)
        (d / names[-1]).write_bytes(bytes((j * 7 + i) % 251 for j in range(n)))
    # files of textual types whose bytes a text-mode reading would change (line-ending conventions, byte-order mark, bytes that are not UTF-8)
    texts = [b"<svg xmlns='http://www.w3.org/2000/svg'>\r\n<text>a</text>\r\n</svg>\r\n", b"\xef\xbb\xbfa,b\rc,d\r", b"line\r\nline\n\rline\x1a\n",
             b"caf\xe9 \xff\xfe\n", b"a\x0bb\x0cc\x85d\xe2\x80\xa8e\n", b""]
    for ext in ("svg", "txt", "csv", "html", "css", "json", "xml", "js"):
        for j, t in enumerate(texts):
            names.append("t%d.%s" % (j, ext))
            (d / names[-1]).write_bytes(t)
    # compressed files: the bytes embedded are not of the type of what they unpack to
    gz = b"\x1f\x8b\x08\x00" + bytes(range(40))
    for nm in ("notes.txt.gz", "pic.svgz", "all.tar.gz", "all.tgz", "LOUD.TXT.GZ", "page.html.bz2", "data.csv.xz", "plain", "odd.unknownext"):
        names.append(nm)
        (d / nm).write_bytes(gz)
    sizes = [len((d / nm).read_bytes()) for nm in names]
    (d / "r.md").write_text("# Big for 2\n\n    1 x\n\n" + "\n\n".join("![I%d](%s)" % (i, nm) for i, nm in enumerate(names)) + "\n")
    try:
        page = generate_standalone_page(d / "r.md", embed_local_links=True)
    except Exception as e:  # noqa
        return [("C16:data-url-wrong", "stand-alone page with files of sizes %r raises %s: %s" % (sizes, type(e).__name__, str(e)[:100]))]
    urls = re.findall(r'src="(data:[^"]*)"', page)
    if len(urls) != len(sizes):
        return [("C16:data-url-wrong", "%d data URLs for %d linked files" % (len(urls), len(sizes)))]
    import html as html_mod
    from urllib.parse import unquote_to_bytes
    for i, (n, u) in enumerate(zip(sizes, urls)):
        head, _, payload = html_mod.unescape(u).partition(",")
        try:
            # RFC 2397: base64 when the header says so, percent-encoded octets otherwise
            data = base64.b64decode(payload, validate=True) if head.endswith(";base64") else unquote_to_bytes(payload)
        except Exception as e:  # noqa
            out.append(("C16:data-url-wrong", "file %s of %d bytes: the data URL cannot be decoded (%s)" % (names[i], n, e)))
            break
        if data != (d / names[i]).read_bytes():
            out.append(("C16:data-url-wrong", "file %s of %d bytes: the embedded copy has %d bytes / differs" % (names[i], n, len(data))))
            break
        # the media type named in the header matches the file (a hand-written table of well-known suffixes; compressed files are just bytes)
        ext = names[i].rpartition(".")[2].lower() if "." in names[i] else ""
        want_mt = {"svg": "image/svg+xml", "txt": "text/plain", "csv": "text/csv", "html": "text/html", "css": "text/css", "json": "application/json",
                   "xml": ("text/xml", "application/xml"), "js": ("text/javascript", "application/javascript"), "bin": "application/octet-stream",
                   "": "application/octet-stream", "unknownext": "application/octet-stream"}.get(ext)
        got_mt = head[len("data:"):].split(";")[0]
        if ext in ("gz", "svgz", "tgz", "bz2", "xz"):
            # whatever name the platform's tables have for the compression, it is not the type of the content
            if got_mt in ("text/plain", "image/svg+xml", "application/x-tar", "text/html", "text/csv"):
                out.append(("C16:data-url-media-type-does-not-match-the-file", "compressed file %s is embedded as %r" % (names[i], got_mt)))
                break
        elif want_mt is not None and got_mt not in ((want_mt,) if isinstance(want_mt, str) else want_mt):
            out.append(("C16:data-url-media-type-does-not-match-the-file", "file %s is embedded as %r" % (names[i], got_mt)))
            break
    return out


def check_symlinked_recipe_in_site():
    """a recipe file inside the tree that is a symlink to a recipe of another directory: its relative links are relative to where it
    stands in the tree (each copy shows the file next to it), byte for byte"""
    out = []
    scratch = gen_site.scratch_root()
    try:
        root = scratch / "site"
        (root / "weeknight").mkdir(parents=True)
        (root / "party").mkdir()
        (root / "weeknight" / "curry.md").write_text("# Curry for 2\n\n    1 x\n\n![I](photo.jpg)\n\n[L](notes.txt)\n")
        (root / "weeknight" / "photo.jpg").write_bytes(b"weeknight photo")
        (root / "weeknight" / "notes.txt").write_bytes(b"weeknight notes")
        (root / "party" / "photo.jpg").write_bytes(b"party photo, another file")
        (root / "party" / "notes.txt").write_bytes(b"party notes")
        os.symlink("../weeknight/curry.md", root / "party" / "curry.md")
        site_out = scratch / "out"
        generate_static_site(root, site_out, 2)
        for d in ("weeknight", "party"):
            for f in ("photo.jpg", "notes.txt"):
                dst = site_out / "assets" / d / f
                if not dst.exists() or dst.read_bytes() != (root / d / f).read_bytes():
                    out.append(("C16:asset-of-symlinked-recipe-not-copied", "assets/%s/%s is %s" % (d, f, "missing" if not dst.exists() else "not the file next to the recipe")))
            page = (site_out / "serves2" / d / "curry.html").read_text()
            for m in re.findall(r'(?:src|href)="([^"]*(?:photo\.jpg|notes\.txt))"', page):
                tgt = gen_site.resolve("/serves2/%s/curry.html" % d, m)
                if tgt != "/assets/%s/%s" % (d, m.rsplit("/", 1)[-1]):
                    out.append(("C16:symlinked-recipe-shows-another-directorys-file", "%s/curry.md: %r resolves to %s" % (d, m, tgt)))
        return out
    finally:
        shutil.rmtree(scratch, ignore_errors=True)


def check_symlink_aliases():
    """documents with a second name through a symbolic link: a category directory that is a link to a directory outside the source root
    (its recipes are shown, but a link that NAMES one of them resolves outside the root and is refused), and a recipe file that is a link
    to a plain file elsewhere in the tree (a link to that plain file is a link to a local file: copied to the assets area, not turned into
    the recipe's page)"""
    from recipe_grid.static_site.exceptions import LinkToExternalFileError
    out = []
    scratch = gen_site.scratch_root()
    try:
        root, outside = scratch / "site", scratch / "elsewhere"
        (root / "a").mkdir(parents=True)
        outside.mkdir()
        (outside / "cake.md").write_text("# Cake for 2\n\n    1 x\n")
        os.symlink(outside, root / "more", target_is_directory=True)
        (root / "a" / "recipe.md").write_text("# Tea for 2\n\n    1 x\n\n[L](../more/cake.md)\n")
        try:
            generate_static_site(root, scratch / "out1", 2)
            out.append(("C16:wrong-outcome:outside-expected-LinkToExternalFileError", "site/more -> ../elsewhere; the link ../more/cake.md resolves outside the source root and was accepted"))
        except LinkToExternalFileError:
            pass
        except StaticSiteError as e:
            out.append(("C16:wrong-outcome:outside-expected-LinkToExternalFileError", "raised %s instead" % type(e).__name__))
        root2 = scratch / "site2"
        (root2 / "texts").mkdir(parents=True)
        story = b"# Story for 2\n\n    1 x\n"
        (root2 / "texts" / "story.txt").write_bytes(story)
        os.symlink("texts/story.txt", root2 / "story.md")
        (root2 / "reader.md").write_text("# Reader for 2\n\n    1 x\n\n[L](texts/story.txt)\n")
        generate_static_site(root2, scratch / "out2", 2)
        copy = scratch / "out2" / "assets" / "texts" / "story.txt"
        if not copy.exists() or copy.read_bytes() != story:
            out.append(("C16:wrong-outcome:copy-expected-ok", "a link to texts/story.txt (a plain file that a recipe file links to by symlink) got no byte-identical copy under assets/"))
        page = (scratch / "out2" / "serves2" / "reader.html").read_text()
        hrefs = re.findall(r'href="([^"]*story[^"]*)"', page)
        if [gen_site.resolve("/serves2/reader.html", h) for h in hrefs] != ["/assets/texts/story.txt"]:
            out.append(("C16:wrong-outcome:copy-expected-ok", "the link to texts/story.txt is written %r" % hrefs))
        return out
    except Exception as e:  # noqa
        return out + [("C16:generation-raises:%s" % type(e).__name__, str(e)[:200])]
    finally:
        shutil.rmtree(scratch, ignore_errors=True)


def check_raw_html_references():
    """local files referred to only by raw HTML (upper-case tag and attribute names, OBJECT DATA is not one of lxml's link attributes and is
    left out) in a category readme / a recipe: copied all the same, and an escape is refused all the same"""
    out = []
    scratch = gen_site.scratch_root()
    try:
        root = scratch / "site"
        (root / "mains").mkdir(parents=True)
        (scratch / "outside.png").write_bytes(b"outside bytes")
        (root / "mains" / "photo.png").write_bytes(b"photo bytes")
        (root / "mains" / "banner.png").write_bytes(b"banner bytes")
        (root / "mains" / "stew.md").write_text("# Stew for 2\n\n    1 x\n\n<IMG SRC=\"banner.png\" ALT=\"J\">\n")
        (root / "mains" / "README.md").write_text("# Mains\n\n<IMG SRC=\"photo.png\" ALT=\"J\">\n\n<A HREF=\"stew.md\">H</A>\n")
        (root / "README.md").write_text("# Home\n\n<IMG SRC = \"mains/photo.png\" ALT=\"J\">\n")
        generate_static_site(root, scratch / "out", 2)
        for rel in ("mains/photo.png", "mains/banner.png"):
            dst = scratch / "out" / "assets" / rel
            if not dst.exists() or dst.read_bytes() != (root / rel).read_bytes():
                out.append(("C16:file-referred-to-by-raw-html-not-copied", "assets/%s is %s" % (rel, "missing" if not dst.exists() else "different")))
        for page, needle in (("categories/mains/index.html", "photo.png"), ("serves1/mains/index.html", "photo.png"), ("index.html", "photo.png"), ("serves2/mains/stew.html", "banner.png")):
            text = (scratch / "out" / page).read_text()
            for m in re.findall(r'(?i)(?:src|href)\s*=\s*"([^"]*%s)"' % re.escape(needle), text):
                if gen_site.resolve("/" + page, m) != "/assets/mains/" + needle:
                    out.append(("C16:raw-html-reference-not-rewritten", "%s: %r" % (page, m)))
        (root / "mains" / "README.md").write_text("# Mains\n\n<IMG SRC=\"../../outside.png\" ALT=\"J\">\n")
        try:
            generate_static_site(root, scratch / "out2", 2)
            out.append(("C16:escape-through-raw-html-not-refused", "a readme showing ../../outside.png through <IMG SRC=...> was generated without error"))
        except StaticSiteError:
            pass
        return out
    except Exception as e:  # noqa
        return out + [("C16:generation-raises:%s" % type(e).__name__, str(e)[:200])]
    finally:
        shutil.rmtree(scratch, ignore_errors=True)


def check_rebuild_after_readme_edit():
    """a readme that is edited to point at another local file between two generations in one process: the second site has that file"""
    out = []
    scratch = gen_site.scratch_root()
    try:
        root = scratch / "site"
        (root / "puddings").mkdir(parents=True)
        (root / "puddings" / "rice.md").write_text("# Rice pudding for 2\n\n    1 x\n")
        (root / "puddings" / "old.png").write_bytes(b"old picture")
        (root / "puddings" / "new.png").write_bytes(b"new picture!")
        (root / "puddings" / "README.md").write_text("# Puddings\n\n![I](old.png)\n")
        (root / "README.md").write_text("# Home\n\n[L](puddings/old.png)\n")
        generate_static_site(root, scratch / "out1", 2)
        (root / "puddings" / "README.md").write_text("# Puddings\n\n![I](new.png)\n")
        (root / "README.md").write_text("# Home\n\n[L](puddings/new.png)\n")
        generate_static_site(root, scratch / "out2", 2)
        dst = scratch / "out2" / "assets" / "puddings" / "new.png"
        if not dst.exists() or dst.read_bytes() != b"new picture!":
            out.append(("C16:file-linked-after-edit-not-copied", "assets/puddings/new.png is missing from the site generated after the readme was changed to show it"))
        for page in ("index.html", "categories/puddings/index.html"):
            if "old.png" in (scratch / "out2" / page).read_text():
                out.append(("C16:page-shows-file-of-earlier-generation", "%s still refers to old.png" % page))
        return out
    finally:
        shutil.rmtree(scratch, ignore_errors=True)


def oracle(run):
    rng = run.rng
    from .. import fs_corr
    run.case(("oracle-containment",), True, kind="containment")
    seen = set()
    for sig, detail, where in fs_corr.containment_oracle(rng, run.budget(40, 800)):
        if sig not in seen:
            seen.add(sig)
            run.violate(sig, detail, {"containment": where})
    run.case(("oracle-symlinked-recipe",), True, kind="symlinked-recipe")
    for sig, detail in check_symlinked_recipe_in_site():
        run.violate(sig, detail, {"symlinked_recipe": True})
    run.case(("oracle-symlink-aliases",), True, kind="symlink-aliases")
    for sig, detail in check_symlink_aliases():
        run.violate(sig, detail, {"symlink_aliases": True})
    run.case(("oracle-raw-html",), True, kind="raw-html-references")
    for sig, detail in check_raw_html_references():
        run.violate(sig, detail, {"raw_html": True})
    run.case(("oracle-readme-edit",), True, kind="rebuild-after-readme-edit")
    for sig, detail in check_rebuild_after_readme_edit():
        run.violate(sig, detail, {"readme_edit": True})
    run.case(("oracle-symlinked-input",), True, kind="symlinked-input")
    for sig, detail in check_symlinked_input(rng):
        run.violate(sig, detail, {"symlinked_input": True})
    run.case(("oracle-rebuild",), True, kind="rebuild")
    for sig, detail in check_rebuild(rng):
        run.violate(sig, detail, {"rebuild": True})
    urls = list(URLS)
    if run.tier == "thorough":
        urls = urls * 3
    for url in urls:
        if url in ("recipe.md", "../a/recipe.md#top", "sub", "sub/", ".", "/", ""):
            pass
        run.case(("oracle", url), True, kind=classify(Path("/nonexistent"), Path("/nonexistent/a"), url)[0] if False else "link")
        seen = set()
        for sig, detail in check_site_link(rng, url):
            if sig not in seen:
                seen.add(sig)
                run.violate(sig, detail, {"url": url})


def replay(run, obj):
    import random
    if obj["replay"].get("containment"):
        from .. import fs_corr
        res = fs_corr.replay_containment(obj["replay"]["containment"])
        for x in res:
            print(*x[:2])
        return bool(res)
    if obj["replay"].get("symlink_aliases"):
        res = check_symlink_aliases()
        for x in res:
            print(*x)
        return bool(res)
    if obj["replay"].get("raw_html"):
        res = check_raw_html_references()
        for x in res:
            print(*x)
        return bool(res)
    if obj["replay"].get("symlinked_recipe") or obj["replay"].get("readme_edit"):
        res = check_symlinked_recipe_in_site() if obj["replay"].get("symlinked_recipe") else check_rebuild_after_readme_edit()
        for x in res:
            print(*x)
        return bool(res)
    if obj["replay"].get("symlinked_input"):
        res = check_symlinked_input(random.Random(0))
        for x in res:
            print(*x)
        return bool(res)
    if obj["replay"].get("rebuild"):
        res = check_rebuild(random.Random(0))
        for x in res:
            print(*x)
        return bool(res)
    res = check_site_link(random.Random(0), obj["replay"]["url"])
    for x in res:
        print(*x)
    return bool(res)
