"""C17 — site output is a pure function of the source tree."""
import hashlib
import random as pyrandom
import shutil
from pathlib import Path

from recipe_grid.static_site.website import generate_static_site
from recipe_grid.static_site import recipe_directory
from recipe_grid.markdown import compile_markdown

from .. import sexp, gen_site
from . import c14

PID = "C17"
TECHNIQUE = "Lean 4 theorems on the page-hierarchy model (invariance under permutation of directory listings, placeholder independence) + correspondence + repeat-generation oracle with permuted listings, seeds, caches and edits"
LEVEL_TEXT = ("The site model takes each directory's listing order as an explicit input; theorems: the placeholder-substitution result does not depend on the "
              "placeholders chosen (C13) and the page set/links are invariant under permutation of the listings when sibling titles are distinct; the model "
              "is compared with real generated sites in the actual listing order; the oracle regenerates every tree with reversed and shuffled "
              "Path.iterdir order, different random seeds, interleaved unrelated compilations and an edit between two generations in one process, "
              "comparing sha256 of every output file.")
LEVEL_NOTE = ("Partial: the real iterdir, functools.lru_cache and random are outside the model; purity rests on the repeat-generation oracle (search). Trusted: "
              "Lean kernel; monkey-patching of Path.iterdir happens in the harness process only.")
LEAN_MODULES = ["RecipeGrid.Props.C17", "RecipeGrid.Props.C17b"]
SOURCES = ["recipe_grid/static_site/recipe_directory.py", "recipe_grid/static_site/website.py", "recipe_grid/markdown.py"]
RULE = ("source trees of C14 including sibling recipes and sub-directories with equal titles; each generated three times: listing order as is / reversed / "
        "shuffled, with different RNG seeds, after unrelated compilations, and once more after editing one recipe; non-trivial = some directory has two "
        "or more entries; distinct = distinct trees")


def cache_correspondence(run):
    """C17b: the real `_cached_compile_markdown` (functools.lru_cache around compile_markdown, keyed by the document text) observed through
    cache_info() over sequences of calls with repeats, more distinct texts than its capacity, and texts that do not compile - against the
    model Lru.call (hit / miss and number of entries after every call)"""
    from recipe_grid.static_site import recipe_directory as RD
    rng = run.rng
    cache = RD._cached_compile_markdown
    cap = cache.cache_info().maxsize
    for _ in range(run.budget(2, 12)):
        nkeys = rng.choice([5, 40, cap + 30, 2 * cap + 5])
        bad = sorted(rng.sample(range(nkeys), max(1, nkeys // 10)))
        seq = []
        for _ in range(rng.randint(50, 3 * cap + 200)):
            seq.append(rng.choice(seq[-8:]) if seq and rng.random() < 0.35 else rng.randrange(nkeys))
        cache.cache_clear()
        real = []
        for k in seq:
            before = cache.cache_info()
            text = ("# T%d for 2\n\n    1 x%d\n" % (k, k)) if k not in bad else ("# B%d for 2\n\n    f(x%d\n" % (k, k))
            try:
                r = cache(text)
                ok = r.title == "T%d" % k
            except Exception:  # noqa
                ok = k in bad
            after = cache.cache_info()
            real.append((after.hits > before.hits, after.currsize, ok))
        m = run.ask(["(lru %d %s %s)" % (cap, sexp.lst(str, seq), sexp.lst(str, bad))])[0]
        run.case(("lru", tuple(seq[:40]), nkeys), True, kind="lru:%s" % ("evicting" if nkeys > cap else "small"))
        run.groups["_cached_compile_markdown (hit/miss, size, result) vs Lru.call"] += len(seq)
        if [(a, b) for a, b, _ in real] != [(bool(x[0]), x[1]) for x in m] or not all(c for _, _, c in real):
            i = next((i for i, (x, y) in enumerate(zip(real, m)) if (x[0], x[1]) != (bool(y[0]), y[1]) or not x[2]), -1)
            run.disagree("lru", {"cap": cap, "calls": seq[:i + 1][-20:], "failing": bad}, repr(real[max(0, i - 2):i + 1]), repr(list(m)[max(0, i - 2):i + 1]))
    cache.cache_clear()


def correspondence(run):
    cache_correspondence(run)
    c14.correspondence(run)


def digest(out):
    return {f: hashlib.sha256((out / f[1:]).read_bytes()).hexdigest() for f in gen_site.output_files(out)}


class Listing:
    """patch Path.iterdir in this process: 'rev' | 'shuffle' | None"""

    def __init__(self, mode, seed=0):
        self.mode, self.seed = mode, seed

    def __enter__(self):
        self.orig = Path.iterdir
        mode, seed, orig = self.mode, self.seed, self.orig

        def iterdir(p):
            xs = sorted(orig(p), key=lambda q: q.name)
            if mode == "rev":
                xs.reverse()
            elif mode == "shuffle":
                pyrandom.Random(seed + len(xs)).shuffle(xs)
            return iter(xs)
        if mode is not None:
            Path.iterdir = iterdir
        return self

    def __exit__(self, *a):
        Path.iterdir = self.orig


def equal_title_siblings(d):
    for rel, dd in gen_site.walk(d):
        ts = [r["title"] for r in dd["recipes"]]
        if len(set(ts)) != len(ts):
            return True
        from recipe_grid.static_site.recipe_directory import dirname_to_title
        ds = [s["readme"]["title"] if s["readme"] else dirname_to_title(s["name"]) for s in dd["subdirs"]]
        if len(set(ds)) != len(ds):
            return True
    return False


def check_tree(d, M, seed):
    out = []
    scratch = gen_site.scratch_root()
    try:
        src = scratch / "my site"
        gen_site.write_tree(d, src)
        results = []
        for i, mode in enumerate(["sorted", "rev", "shuffle"]):
            o = scratch / ("out%d" % i)
            pyrandom.seed(seed + i)
            if i == 1:
                compile_markdown("# Unrelated for 3\n\n    1 a\n    2 b, chopped\n")   # something else compiled in between
            try:
                with Listing(mode, seed):
                    generate_static_site(src, o, M)
                results.append(digest(o))
            except Exception as e:  # noqa
                results.append("raises:" + type(e).__name__)
        if any(r != results[0] for r in results[1:]):
            if isinstance(results[0], dict) and all(isinstance(r, dict) for r in results):
                diff = sorted(f for f in set(results[0]) | set(results[1]) | set(results[2]) if len({r.get(f) for r in results}) > 1)
                sig = "C17:output-depends-on-listing-order-or-seed"
                if equal_title_siblings(d):
                    sig = "C17:output-depends-on-listing-order:siblings-with-equal-titles"
                out.append((sig, "files differing between generations: %r" % diff[:4]))
            else:
                out.append(("C17:outcome-differs-between-generations", repr([r if isinstance(r, str) else "ok" for r in results])))
        # regenerating into the SAME output directory after replacing a referenced file by one of the same size
        assets = [(rel, a) for rel, dd in gen_site.walk(d) for a in dd["assets"] if a["data"]]
        if assets and isinstance(results[0], dict):
            rel, a = assets[seed % len(assets)]
            ap = (src / rel / a["file"]) if rel else (src / a["file"])
            old = a["data"]
            a["data"] = bytes((x + 1) % 256 for x in old)
            ap.write_bytes(a["data"])
            try:
                with Listing("sorted"):
                    generate_static_site(src, scratch / "out0", M)
                fresh = scratch / "out-fresh-asset"
                with Listing("sorted"):
                    generate_static_site(src, fresh, M)
                if digest(scratch / "out0") != digest(fresh):
                    out.append(("C17:regeneration-into-same-directory-differs-from-fresh", "after replacing %s by a file of the same size" % a["file"]))
            except Exception as e:  # noqa
                out.append(("C17:regeneration-after-edit-raises", type(e).__name__))
        # an edit between two generations in one process is fully reflected (cache transparency)
        recs = [(rel, r) for rel, dd in gen_site.walk(d) for r in dd["recipes"] if r.get("raw") is None]
        if recs and isinstance(results[0], dict):
            rel, r = recs[seed % len(recs)]
            old_title = r["title"]
            r2 = dict(r, title=old_title + " edited")
            p = src / rel / r["file"] if rel else src / r["file"]
            p.write_text(gen_site.recipe_text(r2))
            o = scratch / "out-edit"
            try:
                with Listing("sorted"):
                    generate_static_site(src, o, M)
                r["title"] = old_title + " edited"
                # structural edits too: a new recipe and a changed README title in the same directory
                dd = [x for rl, x in gen_site.walk(d) if rl == rel][0]
                added = dict(file="added-later.md", title="Added later", servings=2, links=[])
                dd["recipes"].append(added)
                (p.parent / added["file"]).write_text(gen_site.recipe_text(added))
                old_readme = dd["readme"]
                dd["readme"] = dict(file=(old_readme or {}).get("file", "README.md"), title="Renamed category", links=[])
                (p.parent / dd["readme"]["file"]).write_text("# Renamed category\n\nhello\n\n\n")
                o3 = scratch / "out-edit2"
                with Listing("sorted"):
                    generate_static_site(src, o3, M)
                o = o3
                fresh = scratch / "fresh-src"
                gen_site.write_tree(d, fresh / "my site")
                o2 = scratch / "out-fresh"
                recipe_directory._cached_compile_markdown.cache_clear()
                with Listing("sorted"):
                    generate_static_site(fresh / "my site", o2, M)
                if digest(o) != digest(o2):
                    out.append(("C17:edit-not-reflected-in-second-generation", "after editing %s" % r["file"]))
            except Exception as e:  # noqa
                out.append(("C17:regeneration-after-edit-raises", type(e).__name__))
            finally:
                r["title"] = old_title
                try:
                    dd["recipes"].remove(added)
                    dd["readme"] = old_readme
                except Exception:
                    pass
        return out
    finally:
        shutil.rmtree(scratch, ignore_errors=True)


TWIN_RECIPES = [dict(file="a-decimal.md", title="A decimal", servings=2, links=[], raw="# A decimal for 2\n\nAdd {0.5} tsp.\n\n    0.5 tsp salt\n    1.5 kg flour\n    2.0 eggs\n"),
                dict(file="b-fraction.md", title="B fraction", servings=2, links=[], raw="# B fraction for 2\n\nAdd {1/2} tsp.\n\n    1/2 tsp salt\n    1 1/2 kg flour\n    2 eggs\n"),
                dict(file="c-upper.md", title="C upper", servings=2, links=[], raw="# C upper for 2\n\n    1/2 TSP salt\n    3/2 Kg flour\n"),
                # a second plain top-level heading further down, and prose with scaled values after it
                dict(file="d-two-headings.md", title="D scones", servings=2, links=[], raw="# D scones for 2\n\nRub in {50} g.\n\n    200 g flour\n    50 g butter\n\n# Notes\n\nServe {2} each.\n\n# More for 1\n\ntext\n")]


def check_fresh_processes(d, M, seed):
    """the same source tree generated by fresh interpreters (listing sorted / reversed) and by this long-running process gives the same files"""
    import json
    import os
    import subprocess
    import sys
    out = []
    scratch = gen_site.scratch_root()
    try:
        src = scratch / "my site"
        gen_site.write_tree(d, src)
        env = dict(os.environ, PYTHONPATH=os.pathsep.join(p for p in sys.path if p))
        results = {}
        for mode in ("sorted", "rev"):
            p = subprocess.run([sys.executable, "-m", "harness.site_subproc", str(src), str(scratch / ("out-" + mode)), str(M), mode, str(seed)],
                               cwd=os.path.dirname(os.path.dirname(os.path.dirname(os.path.abspath(__file__)))), env=env, stdout=subprocess.PIPE, stderr=subprocess.PIPE, text=True, timeout=300)
            try:
                results[mode] = json.loads(p.stdout.strip().splitlines()[-1])
            except Exception:
                return [("C17:fresh-process-generation-failed", (p.stderr or p.stdout)[-300:])]
        try:
            with Listing("sorted"):
                generate_static_site(src, scratch / "out-here", M)
            results["here"] = digest(scratch / "out-here")
        except Exception as e:  # noqa
            results["here"] = {"raises": type(e).__name__}
        for mode, r in results.items():
            if "raises" in r:
                return [("C17:generation-of-a-valid-tree-raises", "%s: %s" % (mode, r["raises"]))]
        if results["sorted"] != results["rev"]:
            diff = sorted(f for f in set(results["sorted"]) | set(results["rev"]) if results["sorted"].get(f) != results["rev"].get(f))
            out.append(("C17:output-depends-on-listing-order-or-seed", "fresh interpreters, listing sorted vs reversed: %r differ" % diff[:4]))
        if results["sorted"] != results["here"]:
            diff = sorted(f for f in set(results["sorted"]) | set(results["here"]) if results["sorted"].get(f) != results["here"].get(f))
            out.append(("C17:output-depends-on-earlier-work-of-the-process", "fresh interpreter vs this process: %r differ" % diff[:4]))
        return out
    finally:
        shutil.rmtree(scratch, ignore_errors=True)


def check_history(d, M, seed):
    """the site generated after other work of the same process on the same and on related inputs - a build that failed and was then repaired
    in place, stand-alone pages of the tree's recipes and of a recipe without a plain title, linting - equals the site a fresh interpreter
    generates from the final tree; and a tree that must be refused is refused by both"""
    import json
    import os
    import subprocess
    import sys
    from recipe_grid.static_site.standalone_page import generate_standalone_page
    out = []
    scratch = gen_site.scratch_root()
    # a tree that generates: M covers every stated serving count
    M = max([M] + [r["servings"] or 0 for _, dd in gen_site.walk(d) for r in dd["recipes"]])

    def fresh(src, name):
        env = dict(os.environ, PYTHONPATH=os.pathsep.join(p for p in sys.path if p))
        p = subprocess.run([sys.executable, "-m", "harness.site_subproc", str(src), str(scratch / name), str(M), "sorted", str(seed)],
                           cwd=os.path.dirname(os.path.dirname(os.path.dirname(os.path.abspath(__file__)))), env=env, stdout=subprocess.PIPE, stderr=subprocess.PIPE, text=True, timeout=300)
        try:
            return json.loads(p.stdout.strip().splitlines()[-1])
        except Exception:
            return {"raises": "fresh interpreter failed: " + (p.stderr or p.stdout)[-200:]}

    def here(src, name):
        try:
            with Listing("sorted"):
                generate_static_site(src, scratch / name, M)
            return digest(scratch / name)
        except Exception as e:  # noqa
            return {"raises": type(e).__name__}

    try:
        src = scratch / "my site"
        gen_site.write_tree(d, src)
        # a local file reached through a symbolic link, which is re-pointed between two generations (step 4)
        (src / "v1.png").write_bytes(b"first picture")
        (src / "v2.png").write_bytes(b"second picture, another file")
        os.symlink("v1.png", src / "pic.png")
        (src / "zz-linkpic.md").write_text("# Linkpic for 1\n\n    1 x\n\n![Ipic](pic.png)\n")
        readme = src / (d["readme"]["file"] if d["readme"] else "README.md")
        if not readme.exists():
            readme.write_text("# Front page\n\nhello\n")
        # 1. a build that fails late (a syntax error in the recipe that is read last), then the recipe is mended and the readme edited, both in place
        broken = src / "zz-broken.md"
        broken.write_text("# Broken for 1\n\n    bake(2 eggs, 100 g flour\n")
        r1 = here(src, "out-failed")
        if "raises" not in r1:
            out.append(("C17:generation-accepts-a-recipe-with-a-syntax-error", "zz-broken.md: bake(2 eggs, 100 g flour"))
        with open(broken, "r+") as f:
            f.seek(0)
            f.write("# Mended for 1\n\n    1 x\n")
            f.truncate()
        with open(readme, "r+") as f:
            text = f.read().replace("# ", "# Rewritten ", 1)
            f.seek(0)
            f.write(text)
            f.truncate()
        # 2. stand-alone pages of the tree's own recipes and of a recipe whose heading is not plain text; lint
        titleless = "# Mum's *best* sponge for 1\n\n    1 x\n"
        (scratch / "loose.md").write_text(titleless)
        for f in [scratch / "loose.md"] + sorted(src.rglob("*.md"))[:6]:
            try:
                generate_standalone_page(f, embed_local_links=False)
            except Exception:  # noqa
                pass
        a, b = here(src, "out-here"), fresh(src, "out-fresh")
        if "raises" in a and "raises" in b:
            # the scenario is void unless the mended tree generates
            out.append(("C17:generation-of-a-valid-tree-raises", "after mending: this process %r, a fresh interpreter %r" % (a["raises"], b["raises"])))
        if a != b:
            if "raises" in a or "raises" in b:
                out.append(("C17:output-depends-on-earlier-work-of-the-process", "after a failed build, in-place repairs and stand-alone pages: this process %r, a fresh interpreter %r"
                            % (a.get("raises", "generates"), b.get("raises", "generates"))))
            else:
                diff = sorted(f for f in set(a) | set(b) if a.get(f) != b.get(f))
                out.append(("C17:output-depends-on-earlier-work-of-the-process", "after a failed build, in-place repairs and stand-alone pages: %r differ from a fresh interpreter's" % diff[:4]))
        # 4. the link is re-pointed at another file: the next generation follows it, as a fresh interpreter does
        os.remove(src / "pic.png")
        os.symlink("v2.png", src / "pic.png")
        a, b = here(src, "out-here3"), fresh(src, "out-fresh3")
        if a != b:
            diff = sorted(f for f in set(a) | set(b) if a.get(f) != b.get(f))
            out.append(("C17:output-depends-on-earlier-work-of-the-process", "after re-pointing a symbolic link that a recipe's image goes through: %r differ from a fresh interpreter's" % diff[:4]))
        # 3. the same tree plus a recipe without a plain title (its text has been through the stand-alone generator): refused by both
        (src / "sponge.md").write_text(titleless)
        a, b = here(src, "out-here2"), fresh(src, "out-fresh2")
        if a.get("raises") != b.get("raises") or ("raises" not in a and a != b):
            out.append(("C17:output-depends-on-earlier-work-of-the-process", "a tree with a recipe without a plain title: this process %r, a fresh interpreter %r"
                        % (a.get("raises", "generates"), b.get("raises", "generates"))))
        return out
    finally:
        shutil.rmtree(scratch, ignore_errors=True)


def check_inplace_edit(d, M):
    """a readme and a recipe rewritten in place (nothing added or removed) between two generations in one process"""
    import copy
    out = []
    d = copy.deepcopy(d)
    if d["readme"] is None:
        d["readme"] = dict(file="README.md", title="Front page", links=[])
    scratch = gen_site.scratch_root()
    try:
        src = scratch / "my site"
        gen_site.write_tree(d, src)
        with Listing("sorted"):
            generate_static_site(src, scratch / "out1", M)
        for rel, dd in gen_site.walk(d):
            if dd["readme"]:
                dd["readme"]["title"] = dd["readme"]["title"] + " rewritten"
                links = "\n\n".join(gen_site.link_md(lab, url) for lab, url, _ in dd["readme"]["links"])
                p = (src / rel / dd["readme"]["file"]) if rel else (src / dd["readme"]["file"])
                with open(p, "r+") as f:        # the same file, rewritten in place: the directory itself is not touched
                    f.seek(0)
                    f.write("# %s\n\n%s\n\n%s\n" % (dd["readme"]["title"], dd["readme"].get("body", "hello"), links))
                    f.truncate()
        with Listing("sorted"):
            generate_static_site(src, scratch / "out2", M)
        fresh = scratch / "fresh" / "my site"
        gen_site.write_tree(d, fresh)
        recipe_directory._cached_compile_markdown.cache_clear()
        with Listing("sorted"):
            generate_static_site(fresh, scratch / "out3", M)
        if digest(scratch / "out2") != digest(scratch / "out3"):
            a, b = digest(scratch / "out2"), digest(scratch / "out3")
            diff = sorted(f for f in set(a) | set(b) if a.get(f) != b.get(f))
            out.append(("C17:edit-not-reflected-in-second-generation", "after rewriting the readme files in place: %r differ from a fresh generation" % diff[:4]))
        return out
    except Exception as e:  # noqa
        return [("C17:regeneration-after-edit-raises", type(e).__name__)]
    finally:
        shutil.rmtree(scratch, ignore_errors=True)


def gen_case(rng, force_equal=False):
    d = gen_site.gen_tree(rng, rng.randint(0, 2), gen_site.SAFE_NAMES, servings_pool=(None, 1, 2))
    if force_equal == 'case':
        # equal titles AND names that differ only in letter case (legitimate on a case-sensitive file system)
        d["recipes"] = [r for r in d["recipes"] if r["file"].lower() not in ("soup.md",)]
        d["recipes"] += [dict(file="Soup.md", title="Soup", servings=2, links=[]), dict(file="soup.md", title="Soup", servings=2, links=[])]
        d["subdirs"] += [dict(name="Pies", readme=None, recipes=[dict(file="a.md", title="A", servings=1, links=[])], subdirs=[], assets=[]),
                         dict(name="pies", readme=None, recipes=[dict(file="b.md", title="B", servings=1, links=[])], subdirs=[], assets=[])]
        return d, rng.randint(2, 3)
    if force_equal:
        while len(d["recipes"]) < 2:
            d["recipes"].append(dict(file="extra%d.md" % len(d["recipes"]), title="Same", servings=2, links=[]))
        d["recipes"][0]["title"] = d["recipes"][1]["title"] = "Same"
        d["recipes"][0]["servings"] = d["recipes"][1]["servings"] = 2
    else:
        if rng.random() < 0.3:
            # a recipe whose first heading is empty: its title is the empty string
            d["recipes"].append(dict(file="untitled.md", title="", servings=None, links=[], raw="#\n\nSome {2} text.\n\n    1 x\n"))
        c14.gen_links(rng, d)
        # distinct titles among siblings
        for rel, dd in gen_site.walk(d):
            for i, r in enumerate(dd["recipes"]):
                r["title"] = "%s %d" % (r["title"], i)
            for i, s in enumerate(dd["subdirs"]):
                if s["readme"]:
                    s["readme"]["title"] = "%s %d" % (s["readme"]["title"], i)
    return d, rng.randint(2, 3)


def check_same_seed_edit():
    """the random generator put into the same state before two generations in one process, a recipe's amounts (inside a recipe block and inside a
    brace expression) edited in between: the second site shows the edited amounts, exactly as a generation with another seed and cold caches does"""
    out = []
    scratch = gen_site.scratch_root()
    try:
        src = scratch / "book"
        (src / "sub").mkdir(parents=True)
        text = "# Soup for 2\n\nAdd {2} eggs.\n\n    %s leeks\n    boil(leeks, {3} l water)\n"
        (src / "soup.md").write_text(text % "100g")
        for seed in (1234, 0, 77):
            if seed == 77:      # (with a second document: whatever is compiled first draws first)
                (src / "sub" / "broth.md").write_text("# Broth\n\n    1 kg bones\n")
            pyrandom.seed(seed)
            generate_static_site(src, scratch / ("first%d" % seed), 4)
            (src / "soup.md").write_text((text % "250g").replace("{2}", "{5}").replace("{3}", "{7}"))
            pyrandom.seed(seed)
            generate_static_site(src, scratch / ("second%d" % seed), 4)
            recipe_directory._cached_compile_markdown.cache_clear()
            pyrandom.seed(seed + 99991)
            generate_static_site(src, scratch / ("fresh%d" % seed), 4)
            a, b = digest(scratch / ("second%d" % seed)), digest(scratch / ("fresh%d" % seed))
            if a != b:
                out.append(("C17:edit-not-reflected-in-second-generation", "same random state before both generations: %r differ from a generation with cold caches" % sorted(f for f in set(a) | set(b) if a.get(f) != b.get(f))[:4]))
            page = (scratch / ("second%d" % seed) / "serves2" / "soup.html").read_text()
            if "250" not in page or "100" in page:
                out.append(("C17:edit-not-reflected-in-second-generation", "/serves2/soup.html still shows the amounts written before the edit"))
            (src / "soup.md").write_text(text % "100g")
        return out[:2]
    except Exception as e:  # noqa
        return out + [("C17:regeneration-after-edit-raises", "%s: %s" % (type(e).__name__, str(e)[:100]))]
    finally:
        shutil.rmtree(scratch, ignore_errors=True)


# two files that become one page (names differing only in the extension's letter case - the recorded finding of C15), with equal titles and
# different contents: which of them the page shows must not depend on the listing order either
TWIN_TREE = dict(name="root", readme=None, assets=[], subdirs=[],
                 recipes=[dict(file="soup.md", title="Soup", servings=2, links=[], raw="# Soup for 2\n\n    1 kg leeks\n"),
                          dict(file="soup.MD", title="Soup", servings=2, links=[], raw="# Soup for 2\n\n    2 kg tomatoes\n"),
                          dict(file="other.md", title="Other", servings=2, links=[])])


def oracle(run):
    rng = run.rng
    run.case(("same-seed-edit",), True, kind="same-seed-edit")
    for sig, detail in check_same_seed_edit():
        run.violate(sig, detail, {"same_seed_edit": True})
    run.case(("oracle", gen_site.tree_sexp(TWIN_TREE), 2), True, kind="site-x3")
    seen = set()
    for sig, detail in check_tree(TWIN_TREE, 2, 5):
        if sig not in seen:
            seen.add(sig)
            run.violate(sig, detail, {"site": c14.d_json(TWIN_TREE), "M": 2})
    for i in range(run.budget(14, 300)):
        d, M = gen_case(rng, force_equal=('case' if i % 7 == 0 else (i % 7 == 3)))
        run.case(("oracle", gen_site.tree_sexp(d), M), True, kind="site-x3")
        seen = set()
        for sig, detail in check_tree(d, M, rng.randint(0, 10 ** 6)):
            if sig not in seen:
                seen.add(sig)
                run.violate(sig, detail, {"site": c14.d_json(d), "M": M})
        if i % 4 == 1 and not any(r.get("raw") for _, dd in gen_site.walk(d) for r in dd["recipes"]):
            run.case(("inplace-edit", gen_site.tree_sexp(d), M), True, kind="inplace-edit")
            for sig, detail in check_inplace_edit(d, M):
                if sig not in seen:
                    seen.add(sig)
                    run.violate(sig, detail, {"site": c14.d_json(d), "M": M, "inplace": True})
    # history of the process: failed builds, repairs in place, stand-alone pages before the site
    for i in range(run.budget(2, 20)):
        d, M = gen_case(rng)
        run.case(("history", gen_site.tree_sexp(d), M), True, kind="process-history")
        seen = set()
        for sig, detail in check_history(d, M, i):
            if sig not in seen:
                seen.add(sig)
                run.violate(sig, detail, {"site": c14.d_json(d), "M": M, "history": True})
    # fresh interpreters: amounts of equal value written as a decimal in one recipe and as a fraction in another
    import copy
    for i in range(run.budget(2, 20)):
        d, M = gen_case(rng)
        d = copy.deepcopy(d)
        d["recipes"] = d["recipes"] + copy.deepcopy(TWIN_RECIPES)      # (nothing is removed: other documents may link to any recipe of the tree)
        run.case(("fresh-processes", gen_site.tree_sexp(d), M), True, kind="fresh-processes")
        seen = set()
        for sig, detail in check_fresh_processes(d, M, i):
            if sig not in seen:
                seen.add(sig)
                run.violate(sig, detail, {"site": c14.d_json(d), "M": M, "fresh": True})


def replay(run, obj):
    r = obj["replay"]
    if r.get("same_seed_edit"):
        res = check_same_seed_edit()
        for x in res:
            print(*x)
        return bool(res)
    if r.get("history"):
        res = check_history(c14.d_unjson(r["site"]), r["M"], 0)
    elif r.get("fresh"):
        res = check_fresh_processes(c14.d_unjson(r["site"]), r["M"], 0)
    elif r.get("inplace"):
        res = check_inplace_edit(c14.d_unjson(r["site"]), r["M"])
    else:
        res = check_tree(c14.d_unjson(r["site"]), r["M"], 1)
    for x in res:
        print(*x)
    return bool(res)
