"""C02 — the table is a faithful, gap-free drawing of the recipe tree."""
import collections
import itertools

from recipe_grid.recipe import Ingredient, Step, Reference, SubRecipe
from recipe_grid.scaled_value_string import ScaledValueString as SVS
from recipe_grid.renderer.recipe_to_table import recipe_tree_to_table
from recipe_grid.renderer.table import Cell, ExtendedCell

from .. import sexp, rsexp, gen_trees

PID = "C02"
TECHNIQUE = "Lean 4 theorems (structural induction over the layout combinators) + exact cell-for-cell correspondence"
LEVEL_TEXT = ("Theorems in Lean about the executable layout model (pad / stack / border combinators, recipe_tree_to_table): the cells tile the "
              "h x w rectangle exactly once for every tree, every drawn node appears exactly once with its kind, proved by induction for all "
              "trees - and every tree compile() returns is such a tree (compile_wf, compile_layout_tiles: no hypothesis left); read-back (C02.6): the visible table (positions, spans, kinds, borders) determines the drawing of the tree and conversely "
              "(table_determines_drawing, drawing_determines_table, an explicit computable readback with readback_layout), with and without labels; "
              "the model is tied to recipe_tree_to_table by cell-for-cell equality (position, spans, node, four borders) on random trees.")
LEVEL_NOTE = ("Trusted: Lean kernel; hand-written layout model as far as the correspondence exercises it (random trees up to several hundred leaves, "
              "exhaustive small shapes in the thorough tier). Step geometry, border spec and read-back are theorems and are checked again on the real tables by the "
              "implementation-level oracle on every generated tree.")
LEAN_MODULES = ["RecipeGrid.Props.C02", "RecipeGrid.Props.C02b", "RecipeGrid.Props.C02c"]
SOURCES = ["recipe_grid/renderer/recipe_to_table.py", "recipe_grid/renderer/table.py"]
RULE = ("random recipe trees (arity 1..6, depth <= 8 quick / 12 thorough, titled/untitled/nested single-output sub recipes, multi-output roots, "
        "references as leaves) plus every tree shape with <= 5 (quick) / 6 (thorough) nodes; non-trivial = more than one cell; distinct = distinct table keys")
N, E, X = "normal", "sub_recipe", "no-border"


def bname(b):
    return "no-border" if b.name == "none" else b.name


def paths(t, p=()):
    yield p, t
    if isinstance(t, Step):
        for i, x in enumerate(t.inputs):
            yield from paths(x, p + (i,))
    elif isinstance(t, SubRecipe):
        yield from paths(t.sub_tree, p + (0,))


def kind_of(v):
    if isinstance(v, Ingredient):
        return "ingredient"
    if isinstance(v, Reference):
        return "reference"
    if isinstance(v, Step):
        return "step"
    return "header" if len(v.output_names) == 1 else "outputs"


def real_table(t):
    try:
        tb = recipe_tree_to_table(t)
    except Exception as e:  # noqa  (a tree every constructor accepted must be drawable)
        return -1, -1, [(-1, -1, 0, 0, [-1], "raised:" + type(e).__name__, "", "", "", "")], False
    by_id = collections.defaultdict(list)
    for p, n in paths(t):
        by_id[id(n)].append(p)
    cells = []
    for (r, c), cell in tb.to_dict().items():
        ps = by_id.get(id(cell.value), [])
        path = ps[0] if len(ps) == 1 else (-1, len(ps))      # a cell showing a node that is not (exactly once) in this tree
        cells.append((r, c, cell.rows, cell.columns, list(path), kind_of(cell.value),
                      bname(cell.border_left), bname(cell.border_right), bname(cell.border_top), bname(cell.border_bottom)))
    # dense grid consistency (ExtendedCell back references)
    dense_ok = True
    for r, row in enumerate(tb.cells):
        if len(row) != tb.columns:
            dense_ok = False
        for c, x in enumerate(row):
            if isinstance(x, ExtendedCell):
                o = tb.cells[r - x.drow][c - x.dcolumn]
                if o is not x.cell or not isinstance(o, Cell) or not (0 <= x.drow < o.rows and 0 <= x.dcolumn < o.columns) or (x.drow, x.dcolumn) == (0, 0):
                    dense_ok = False
    return tb.rows, tb.columns, sorted(cells), dense_ok


def model_table(rep):
    # ("table", h, w, [("cell", row, col, rows, cols, [path], kind, bl, br, bt, bb), ...])
    _, h, w, cells = rep
    return h, w, sorted((c[1], c[2], c[3], c[4], list(c[5]), c[6], c[7], c[8], c[9], c[10]) for c in cells)


def gen_cases(run, n):
    rng = run.rng
    out = []
    for i in range(n):
        depth = rng.choice([0, 1, 2, 3, 4, 5, 6, 8 if run.tier == "quick" else 12])
        out.append(gen_trees.gen_root(rng, depth, [SubRecipe(Ingredient(SVS("ref")), (SVS("ref"), SVS("other")))], max_arity=rng.choice([2, 4, 6])))
    return out


def small_trees(n, root=True):
    if n == 1:
        yield Ingredient(SVS("i"))
        yield Reference(SubRecipe(Ingredient(SVS("r")), (SVS("r"),)))
        return
    for body in small_trees(n - 1, False):
        yield SubRecipe(body, (SVS("s"),), show_output_names=True)
        yield SubRecipe(body, (SVS("s"),), show_output_names=False)
        if root:
            yield SubRecipe(body, (SVS("a"), SVS("b")))
    for k in range(1, n):
        for split in compositions(n - 1, k):
            for kids in itertools.product(*[list(small_trees(m, False)) for m in split]):
                yield Step(SVS("f"), tuple(kids))


def compositions(n, k):
    if k == 1:
        yield (n,)
        return
    for first in range(1, n - k + 2):
        for rest in compositions(n - first, k - 1):
            yield (first,) + rest


def correspondence(run):
    trees = gen_cases(run, run.budget(1500, 8000))
    for n in range(1, (5 if run.tier == "quick" else 6) + 1):
        trees.extend(small_trees(n))
    rep = run.ask([sexp.tag("layout", rsexp.tree(t)) for t in trees])
    for t, m in zip(trees, rep):
        h, w, cells, dense_ok = real_table(t)
        run.case(("layout", (h, w, tuple(map(repr, cells)))), len(cells) > 1, kind="cells<=%d" % (1 if len(cells) <= 1 else 4 if len(cells) <= 4 else 16 if len(cells) <= 16 else 64 if len(cells) <= 64 else 1000),
                 sample={"tree": rsexp.tree(t)[:300], "table": "%dx%d, %d cells" % (h, w, len(cells))})
        run.groups["recipe_tree_to_table"] += 1
        if (h, w, cells) != model_table(m):
            run.disagree("layout", rsexp.tree(t), [h, w, cells], list(model_table(m)))


# ------------------------------------------------------------------ the property on the real code
def node_at(t, path):
    if any(i < 0 for i in path):
        return None
    for i in path:
        t = t.inputs[i] if isinstance(t, Step) else t.sub_tree
    return t


def drawn(t, p=()):
    """paths of nodes that get a cell"""
    if isinstance(t, (Ingredient, Reference)):
        yield p
    elif isinstance(t, Step):
        yield p
        for i, x in enumerate(t.inputs):
            yield from drawn(x, p + (i,))
    else:
        if len(t.output_names) > 1 or t.show_output_names:
            yield p
        yield from drawn(t.sub_tree, p + (0,))


def outlined(t, path=(), root=True):
    if isinstance(t, SubRecipe):
        if len(t.output_names) == 1:
            yield path
        else:
            yield path + (0,)
        yield from outlined(t.sub_tree, path + (0,), False)
    else:
        if root:
            yield path
        if isinstance(t, Step):
            for i, x in enumerate(t.inputs):
                yield from outlined(x, path + (i,), False)


def region(cells, p):
    mine = [c for c in cells if tuple(c[4][:len(p)]) == tuple(p)]
    if not mine:
        return None
    r0 = min(c[0] for c in mine)
    r1 = max(c[0] + c[2] for c in mine)
    c0 = min(c[1] for c in mine)
    c1 = max(c[1] + c[3] for c in mine)
    area = sum(c[2] * c[3] for c in mine)
    return (r0, r1, c0, c1, area == (r1 - r0) * (c1 - c0))


def check_tree(t):
    out = []
    h, w, cells, dense_ok = real_table(t)
    if h == -1:
        return [("C02:layout-raises:" + cells[0][5].split(":", 1)[1], "recipe_tree_to_table raised on a valid tree")]
    if not dense_ok:
        out.append(("C02:dense-grid-inconsistent", "extended cells do not point back at their cell"))
    # 1. tiling
    cover = collections.Counter()
    for c in cells:
        if c[2] < 1 or c[3] < 1 or c[0] + c[2] > h or c[1] + c[3] > w:
            out.append(("C02:cell-outside", repr(c)))
        for dr in range(c[2]):
            for dc in range(c[3]):
                cover[(c[0] + dr, c[1] + dc)] += 1
    if any(cover[(r, c)] != 1 for r in range(h) for c in range(w)) or len(cover) != h * w:
        out.append(("C02:not-a-tiling", "%dx%d table, slots covered != once" % (h, w)))
    # 2. nodes once, with kind
    want = sorted(drawn(t))
    got = sorted(tuple(c[4]) if isinstance(c[4], list) else c[4] for c in cells)
    if want != got:
        out.append(("C02:nodes-not-once", "drawn nodes %r, cells for %r" % (want[:6], got[:6])))
        return out
    by_path = {tuple(c[4]): c for c in cells}
    for p, c in by_path.items():
        if c[5] != kind_of(node_at(t, p)):
            out.append(("C02:wrong-kind", repr(c)))
    # 3. geometry
    for p, n in paths(t):
        reg = region(cells, p)
        if reg is None or not reg[4]:
            out.append(("C02:region-not-rectangle", "node %r" % (p,)))
            continue
        if isinstance(n, Step):
            c = by_path[p]
            row = reg[0]
            for i, x in enumerate(n.inputs):
                ri = region(cells, p + (i,))
                if ri is None or ri[0] != row or ri[2] != reg[2] or ri[3] != c[1]:
                    out.append(("C02:step-inputs-misplaced", "step %r input %d" % (p, i)))
                    break
                row = ri[1]
            else:
                if not (c[0] == reg[0] and c[0] + c[2] == reg[1] == row and c[1] + c[3] == reg[3]):
                    out.append(("C02:step-cell-misplaced", "step %r cell %r region %r" % (p, c, reg)))
        elif isinstance(n, SubRecipe):
            rb = region(cells, p + (0,))
            if len(n.output_names) == 1 and n.show_output_names:
                c = by_path[p]
                if not (c[0] == reg[0] and c[2] == 1 and c[1] == reg[2] and c[1] + c[3] == reg[3] and rb[0] == c[0] + 1 and rb[1] == reg[1] and rb[2] == reg[2] and rb[3] == reg[3]):
                    out.append(("C02:title-misplaced", "sub recipe %r" % (p,)))
            elif len(n.output_names) > 1:
                c = by_path[p]
                if not (c[0] == 0 and c[2] == h and c[1] == w - 1 and c[3] == 1 and rb[:4] == (0, h, 0, w - 1)):
                    out.append(("C02:output-list-misplaced", "sub recipe %r" % (p,)))
    # 5. borders
    regs = [(p, region(cells, p)) for p in outlined(t)]
    for c in cells:
        multi = c[5] == "outputs"
        for side, idx in (("l", 6), ("r", 7), ("t", 8), ("b", 9)):
            exp = N
            if multi and side in "trb":
                exp = X
            else:
                for p, rg in regs:
                    if rg is None or tuple(c[4][:len(p)]) != tuple(p):
                        continue
                    on = {"l": c[1] == rg[2], "r": c[1] + c[3] == rg[3], "t": c[0] == rg[0], "b": c[0] + c[2] == rg[1]}[side]
                    if on:
                        exp = E
            if c[idx] != exp:
                out.append(("C02:border-wrong", "cell %r side %s expected %s" % (c, side, exp)))
    return out


def table_key(t):
    tb = recipe_tree_to_table(t)
    out = []
    for (r, c), cell in tb.to_dict().items():
        v = cell.value
        label = str(v.description) if hasattr(v, "description") else (
            str(v.sub_recipe.output_names[v.output_index]) if isinstance(v, Reference) else ",".join(map(str, v.output_names)))
        out.append((r, c, cell.rows, cell.columns, kind_of(v), label, bname(cell.border_left), bname(cell.border_right), bname(cell.border_top), bname(cell.border_bottom)))
    return (tb.rows, tb.columns, tuple(sorted(out)))


def outline(d):
    return d if d[0] in ("outlined", "titled") else ("outlined", d)


def drawing(t, root=True):
    if isinstance(t, Ingredient):
        d = ("leaf", "i", str(t.description))
    elif isinstance(t, Reference):
        d = ("leaf", "r", str(t.sub_recipe.output_names[t.output_index]))
    elif isinstance(t, Step):
        d = ("step", str(t.description), tuple(drawing(x, False) for x in t.inputs))
    else:
        if len(t.output_names) > 1:
            return ("multi", tuple(map(str, t.output_names)), outline(drawing(t.sub_tree, False)))
        inner = drawing(t.sub_tree, False)
        return ("titled", str(t.output_names[0]), inner) if t.show_output_names else outline(inner)
    return outline(d) if root else d


def oracle(run):
    trees = []
    for g, inp in run.focus:
        pass  # disagreement inputs are S-expressions; the random budget below is escalated instead
    trees += gen_cases(run, run.budget(1200, 6000))
    small = []
    for n in range(1, (5 if run.tier == "quick" else 6) + 1):
        small.extend(small_trees(n))
    for t in trees + small:
        res = check_tree(t)
        run.case(("oracle", rsexp.tree(t)), True)
        for sig, detail in res:
            run.violate(sig, detail, {"tree": rsexp.tree(t)})
    # "is drawn as a gap-free rectangle": the grid a browser forms from the emitted rows and span attributes (C04's oracle)
    from . import c04
    for t in (trees + small)[:: max(1, len(trees + small) // run.budget(400, 4000))]:
        try:
            res = [(sg, dt) for sg, dt in c04.check_tree(t, "r-") if sg in ("C04:html-table-not-rectangular", "C04:placement-differs", "C04:bad-span-attribute")]
        except Exception:
            continue
        run.case(("drawn", rsexp.tree(t)), True, kind="html-grid")
        for sig, detail in res:
            run.violate("C02:drawn-grid-wrong:" + sig.split(":", 1)[1], detail, {"tree": rsexp.tree(t), "html": True})
    # read-back: two trees draw the same table iff they have the same drawing (exhaustive small scope)
    groups = collections.defaultdict(dict)
    inv = collections.defaultdict(dict)
    for t in small:
        try:
            k, d = table_key(t), drawing(t)
        except Exception:
            continue     # reported above as C02:layout-raises
        groups[k].setdefault(d, t)
        inv[d].setdefault(k, t)
    for k, ds in groups.items():
        if len(ds) > 1:
            a, bb = list(ds.values())[:2]
            run.violate("C02:ambiguous-table", "two different drawings give the same table", {"tree": rsexp.tree(a), "other": rsexp.tree(bb)})
    for d, ks in inv.items():
        if len(ks) > 1:
            a, bb = list(ks.values())[:2]
            run.violate("C02:drawing-not-determining-table", "same drawing, different tables", {"tree": rsexp.tree(a), "other": rsexp.tree(bb)})


def tree_of_sexp(x):
    """decode() output -> real objects (for replay)"""
    from fractions import Fraction
    from recipe_grid.recipe import Quantity, Proportion

    def n(v):
        return v[1] if v[0] != "flt" else float(v[1])

    def svs(ps):
        return SVS([p[1] if p[0] == "t" else n(p[1]) for p in ps])

    def q(v):
        return None if v is None else Quantity(n(v[1]), v[2], v[3], v[4])

    k = x[0]
    if k == "ing":
        return Ingredient(svs(x[1]), q(x[2]))
    if k == "step":
        return Step(svs(x[1]), tuple(tree_of_sexp(y) for y in x[2]))
    if k == "sub":
        return SubRecipe(tree_of_sexp(x[1]), tuple(svs(s_) for s_ in x[2]), x[3])
    if k == "ref":
        a = x[3]
        am = q(a[1]) if a[0] == "qty" else Proportion(None if a[1] is None else n(a[1]), a[2] if a[1] is not None else None, a[3], a[4])
        return Reference(tree_of_sexp(x[1]), x[2], am)
    raise ValueError(k)


def replay(run, obj):
    t = tree_of_sexp(sexp.decode(sexp.parse(obj["replay"]["tree"])))
    res = check_tree(t)
    if obj["replay"].get("html"):
        from . import c04
        res += [x for x in c04.check_tree(t, "r-") if x[0] in ("C04:html-table-not-rectangular", "C04:placement-differs", "C04:bad-span-attribute")]
    if "other" in obj["replay"]:
        u = tree_of_sexp(sexp.decode(sexp.parse(obj["replay"]["other"])))
        if (table_key(t) == table_key(u)) != (drawing(t) == drawing(u)):
            res.append(("C02:readback", "tables equal: %s, drawings equal: %s" % (table_key(t) == table_key(u), drawing(t) == drawing(u))))
    for r in res:
        print(*r)
    return bool(res)
