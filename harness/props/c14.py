"""C14 — generated site has no dead links and every page is reachable."""
import posixpath
import shutil
from urllib.parse import quote, unquote, urlsplit

from recipe_grid.static_site import href as rg_href

from .. import sexp, gen_site, htmltok

PID = "C14"
TECHNIQUE = "Lean 4 theorems on relative links (resolve(relative from to) = to) and on the page-hierarchy model + correspondence of page set and generated links + crawl oracle on generated sites"
LEVEL_TEXT = ("Lean model of href.relative / href.parent and of the page hierarchy of website.py (paths, titles, breadcrumbs, stylesheet, category and recipe "
              "lists, serving menus) over an abstract source tree; theorem: resolving relative(from, to) against from by RFC 3986 gives to for all absolute "
              "paths of file-like pages; the model's page set and every page's generated links are compared with real generated sites; every link of "
              "every page of generated sites (including authored links in every spelling) is resolved and checked by the crawl oracle. "
              "Authored links (C14c): the source -> page table of make_source_to_page_paths_lookup is modelled (sourceToPagePaths: a Python-dict model over "
              "every page's sources in iter_all_pages order) and proved complete (sources_complete: exactly one entry per directory, readme and recipe file) "
              "and sound (sources_point_at_pages); authored_link_target / authored_link_by_path: for every page p of the site and every document of the tree, "
              "the link resolve_local_links writes, percent-decoded and resolved against p, is the page of that document at the reader's serving count "
              "(or its only page), a page of the site - so no authored link to anything inside the tree is dead, for every source tree with admissible names; "
              "authored_link_home / home_condition_needed: the home-readme special case and why it is needed. The table and the rewritten links of "
              "one-link documents are compared exactly with the real code.")
LEVEL_NOTE = ("Partial: lxml's rewrite_links, Jinja2 and the file system are outside the model (symbolic links inside the source tree are outside the "
              "authored-link theorems: the table is keyed by unresolved paths, the lookup by resolved ones); liveness of authored links to local files that "
              "are not documents (assets) rests on the crawl oracle over generated trees (search). Liveness of every generated link (every_link_resolves) and reachability of every page from the home page through "
              "generated links (every_page_reachable, reachable_iff_page) are theorems about the page-hierarchy model for all source trees with "
              "admissible names. Trusted: Lean kernel, model as far as correspondence exercises it.")
LEAN_MODULES = ["RecipeGrid.Props.C14", "RecipeGrid.Props.C14b", "RecipeGrid.Props.C14c"]
SOURCES = ["recipe_grid/static_site/website.py", "recipe_grid/static_site/href.py", "recipe_grid/static_site/html_postprocessing.py"]
RULE = ("source trees of depth <= 3, fan-out <= 3, names with spaces, camel case, Unicode (correspondence) and additionally # ? % & ' \" (oracle), with and "
        "without readme files (every readme file name), scalable and unscalable recipes, authored links among recipes / directories / readmes / assets in "
        "relative, parent-relative and root-absolute form with query/fragment, M in 1..4; non-trivial = more than one directory; distinct = distinct trees")


def gen_links(rng, d):
    """add authored links with known targets to every recipe and readme of the tree"""
    dirs = list(gen_site.walk(d))
    targets = []
    for rel, dd in dirs:
        targets.append(("dir", rel))
        if dd["readme"]:
            targets.append(("readme", (rel + "/" if rel else "") + dd["readme"]["file"]))
        for r in dd["recipes"]:
            targets.append(("recipe", (rel + "/" if rel else "") + r["file"]))
        for a in dd["assets"]:
            targets.append(("asset", (rel + "/" if rel else "") + a["file"]))
    n = [0]
    for rel, dd in dirs:
        holders = list(dd["recipes"]) + ([dd["readme"]] if dd["readme"] else [])
        for h in holders:
            # now and then a document whose only local references are raw HTML with upper-case tag and attribute names
            raw_only = rng.random() < 0.25
            for i in range(rng.randint(0, 3) if not raw_only else rng.randint(1, 2)):
                kind, t = rng.choice(targets)
                form = rng.choice(["abs", "rel", "rel"])
                if form == "abs":
                    url = "/" + quote(t)
                else:
                    url = quote(posixpath.relpath(t or ".", rel or "."))
                    if rng.random() < 0.2 and not url.startswith("."):
                        url = "./" + url
                if kind == "dir" and rng.random() < 0.5 and not url.endswith("/") and url not in (".", ".."):
                    url += "/"
                url += rng.choice(["", "", "#frag", "?q=1"])
                lab = ("I%d" if kind == "asset" and rng.random() < 0.5 else "L%d") % i
                if raw_only:
                    lab = ("J%d" if lab.startswith("I") else "H%d") % i
                n[0] += 1
                h["links"].append((lab + "x" + str(n[0]), url, (kind, t)))


def correspondence(run):
    rng = run.rng
    # href functions
    segs = ["a", "b", "c", "index.html", "x.html", "a b", "é", "serves1", "..x", "a.b", "", "categories"]
    pairs = []
    for _ in range(run.budget(3000, 50000)):
        f = "/" + "/".join(rng.choice(segs) for _ in range(rng.randint(1, 5)))
        t = "/" + "/".join(rng.choice(segs) for _ in range(rng.randint(1, 5)))
        pairs.append((f, t))
    rep = run.ask([sexp.tag("hrefrel", sexp.s(f), sexp.s(t)) for f, t in pairs] + [sexp.tag("hrefparent", sexp.s(f)) for f, _ in pairs])
    for i, (f, t) in enumerate(pairs):
        run.case(("rel", f, t), True, kind="href.relative")
        run.groups["href.relative/parent"] += 1
        if rg_href.relative(f, t) != rep[i] or rg_href.parent(f) != rep[len(pairs) + i]:
            run.disagree("href", [f, t], [rg_href.relative(f, t), rg_href.parent(f)], [rep[i], rep[len(pairs) + i]])
    # page hierarchy
    for _ in range(run.budget(25, 600)):
        d = gen_site.gen_tree(rng, rng.randint(0, 3), gen_site.SAFE_NAMES)
        M = rng.randint(1, 4)
        src, out, scratch, err = gen_site.generate(d, M)
        try:
            m = run.ask([sexp.tag("site", gen_site.tree_sexp(d), sexp.s(src.name), str(M))])[0]
            run.case(("site", gen_site.tree_sexp(d), M), bool(d["subdirs"]), kind="site:" + ("ok" if err is None else type(err).__name__),
                     sample={"tree": gen_site.tree_sexp(d)[:200], "M": M})
            run.groups["generate_static_site pages+links"] += 1
            if err is not None:
                impl = type(err).__name__
                model = "MaxServingsLowerThanLargestRecipeError" if (isinstance(m, tuple) and m[0] == "max-servings-too-low") else "ok"
                if impl != model:
                    run.disagree("site", gen_site.tree_sexp(d), impl, model)
                continue
            real = {}
            for f in gen_site.output_files(out):
                if f.endswith(".html") and not f.startswith("/assets/"):
                    p = gen_site.parse_page((out / f[1:]).read_text())
                    # links inside a recipe's own tables (references to its sub recipes, '#recipe-...') are C09's subject, not the site model's
                    real[f] = (p.title, sorted(unquote(x[2]) for x in p.links if not x[2].startswith("#recipe")))
            if not (isinstance(m, tuple) and m[0] == "ok"):
                run.disagree("site", gen_site.tree_sexp(d), "ok", repr(m)[:200])
                continue
            model = {}
            site_title = None
            for (_, path, title, links) in m[1]:
                if path == "/index.html":
                    site_title = title
            for (_, path, title, links) in m[1]:
                full_title = site_title if path == "/index.html" else "%s - %s" % (title, site_title)
                prev = model.get(path)
                model[path] = (full_title, sorted(unquote(l) for l in links))
                if prev is not None and prev != model[path]:
                    run.disagree("site", gen_site.tree_sexp(d), "one page", "two different renderings of %s" % path)
            if real != model:
                only_r = sorted(set(real) - set(model))[:3]
                only_m = sorted(set(model) - set(real))[:3]
                diff = [(k, real[k], model[k]) for k in real if k in model and real[k] != model[k]][:2]
                run.disagree("site", {"tree": gen_site.tree_sexp(d), "M": M}, {"only_real": only_r, "diff": diff}, {"only_model": only_m})
        finally:
            shutil.rmtree(scratch, ignore_errors=True)
    sources_correspondence(run)


def sources_correspondence(run):
    """C14c: the source -> page table (make_source_to_page_paths_lookup) and the rewriting of authored links against the model
    (harness/sitesources_corr.py, its own process): tables compared entry by entry incl. order, one-link documents through the real
    resolve_local_links vs rewriteDecision fed with the model's entry, landing page vs the statement of authored_link_target"""
    import os
    import re
    import subprocess
    import sys
    here = os.path.dirname(os.path.dirname(os.path.abspath(__file__)))
    n = run.budget(25, 600) if not getattr(run, "escalated", False) else 200
    p = subprocess.run([sys.executable, os.path.join(here, "sitesources_corr.py"), str(20260930 + run.seed), str(n)], stdout=subprocess.PIPE, stderr=subprocess.STDOUT,
                       text=True, timeout=3000, env=dict(os.environ, PYTHONPATH=os.pathsep.join(x for x in sys.path if x)))
    m = re.search(r"disagreements \(model vs code\): (\d+)", p.stdout)
    v = re.search(r"property violations on the real code: (\d+)", p.stdout)
    if not m or not v:
        run.disagree("site-sources", "harness/sitesources_corr.py", p.stdout[-800:], "n/a")
        return
    for line in p.stdout.splitlines():
        mm = re.match(r"\s+(\S.*?)\s+(\d+)$", line)
        if mm and not line.lstrip().startswith(("DISAGREE", "VIOLATION")):
            run.dist["site-sources:" + mm.group(1)] += int(mm.group(2))
            if mm.group(1) == "table entries compared":
                run.groups["source -> page table entries vs sourceToPagePaths"] += int(mm.group(2))
            if mm.group(1).startswith("link:"):
                run.groups["authored link rewriting vs rewriteDecision + authored_link_target"] += int(mm.group(2))
                run.evaluations += int(mm.group(2))
    for line in [l for l in p.stdout.splitlines() if l.lstrip().startswith("DISAGREE")][:10]:
        run.disagree("site-sources", "seed %d" % (20260930 + run.seed), line.strip()[:1200], "model")
    for line in [l for l in p.stdout.splitlines() if l.lstrip().startswith("VIOLATION")][:5]:
        run.violate("C14:authored-link-does-not-land-on-the-linked-document", line.strip()[:1200], {"sitesources_seed": 20260930 + run.seed, "trees": n})


# ------------------------------------------------------------------ crawl oracle
def expected_target(tree, src_name, page_path, kind, t, M):
    """the page/asset an authored link must resolve to, from the property text"""
    scale = page_path.split("/")[1]                  # servesN | categories | index.html (home)
    if kind == "asset":
        return "/assets/" + t
    if kind == "recipe":
        rel_dir, fname = posixpath.split(t)
        stem = fname.rpartition(".")[0]
        r = None
        for rel, dd in gen_site.walk(tree):
            if rel == rel_dir:
                r = [x for x in dd["recipes"] if x["file"] == fname][0]
        if r["servings"] is None:
            return "/categories/" + (rel_dir + "/" if rel_dir else "") + stem + ".html"
        n = int(scale[6:]) if scale.startswith("serves") else r["servings"]
        return "/serves%d/" % n + (rel_dir + "/" if rel_dir else "") + stem + ".html"
    if kind == "readme":
        rel_dir = posixpath.dirname(t)
        if rel_dir == "":
            return "/index.html"
        kind, t = "dir", rel_dir
    root = scale if scale.startswith("serves") else "categories"
    return "/" + root + "/" + (t + "/" if t else "") + "index.html"


def crawl(tree, M, src, out):
    out_v = []
    files = set(gen_site.output_files(out))
    # (a copy of a linked local file under /assets/ is not a page, whatever its name ends in)
    pages = {f: gen_site.parse_page((out / f[1:]).read_text()) for f in files if f.endswith(".html") and not f.startswith("/assets/")}
    authored = {}
    for rel, dd in gen_site.walk(tree):
        for h in list(dd["recipes"]) + ([dd["readme"]] if dd["readme"] else []):
            for lab, url, tgt in h["links"]:
                authored[lab + "|" + (rel + "/" if rel else "") + h["file"]] = (url, tgt)
    graph = {}
    for f, p in pages.items():
        graph[f] = set()
        for tag, attr, url, text in p.links:
            if url.startswith("#"):
                continue
            target = gen_site.resolve(f, url)
            if target is None:
                sch = urlsplit(url).scheme
                if tag in ("a", "link", "img") and sch not in ("http", "https", "mailto", "data", "ftp") and not text.strip()[:1] in gen_site.AUTHORED:
                    out_v.append(("C14:generated-link-reads-as-external-url", "page %s: link %r has scheme %r" % (f, url, sch)))
                continue
            is_dir_like = target.endswith("/")
            if target not in files:
                why = "generated" if not text.strip()[:1] in gen_site.AUTHORED else "authored"
                sig = "C14:dead-link:%s" % why
                if why == "generated" and any(c in f + url for c in "#?%"):
                    sig = "C14:dead-link:generated:url-significant-character-in-name"
                if why == "authored" and target.rstrip("/").count("/") == 1 and target.startswith("/serves"):
                    sig = "C14:dead-link:authored:scaled-page-to-home-readme"
                out_v.append((sig, "page %s: link %r resolves to %s which is not a file of the site" % (f, url, target)))
                continue
            graph[f].add(target)
    # authored links point at what the author pointed at
    for f, p in pages.items():
        for tag, attr, url, text in p.links:
            lab = text.strip()
            for key, (orig, (kind, t)) in authored.items():
                if key.split("|")[0] != lab:
                    continue
                want = expected_target(tree, src.name, f, kind, t, M)
                got = gen_site.resolve(f, url)
                if got is not None and got in files and got != want and (urlsplit(orig).fragment == urlsplit(url).fragment):
                    if want == "/index.html" and f.startswith("/serves"):
                        out_v.append(("C14:dead-link:authored:scaled-page-to-home-readme", "page %s: %r (written %r) resolves to %s, intended the home page" % (f, url, orig, got)))
                        continue
                    out_v.append(("C14:link-resolves-to-wrong-target", "page %s: %r (written %r) resolves to %s, intended %s" % (f, url, orig, got, want)))
    # reachability from the home page
    seen, todo = {"/index.html"}, ["/index.html"]
    while todo:
        x = todo.pop()
        for y in graph.get(x, ()):
            if y not in seen and y in pages:
                seen.add(y)
                todo.append(y)
    unreachable = sorted(set(pages) - seen)
    if unreachable and "/index.html" in pages:
        sig = "C14:page-unreachable"
        if any(c in "".join(unreachable) for c in "#?%"):
            sig = "C14:page-unreachable:url-significant-character-in-name"
        out_v.append((sig, "not reachable from the home page: %r" % unreachable[:4]))
    return out_v


def gen_oracle_case(rng, url_names):
    d = gen_site.gen_tree(rng, rng.randint(0, 3), gen_site.SAFE_NAMES, url_names=url_names, servings_pool=(None, 1, 2))
    if url_names and rng.random() < 0.5:
        # a directory next to files whose names extend it with a URL-significant character
        d["subdirs"].append(dict(name="bread", readme=None, recipes=[dict(file="loaf.md", title="Loaf", servings=2, links=[])], subdirs=[], assets=[]))
        d["recipes"].append(dict(file="bread#2.md", title="Second bread", servings=2, links=[]))
        d["recipes"].append(dict(file="bread?x.md", title="Third bread", servings=None, links=[]))
    M = rng.randint(2, 4)
    if rng.random() < 0.15:
        # recipes written for ten or more (two-digit serving counts)
        M = rng.choice([10, 12])
        for rel, dd in gen_site.walk(d):
            for r in dd["recipes"]:
                if r["servings"] is not None and rng.random() < 0.6:
                    r["servings"] = rng.choice([10, M, 9, 2])
    gen_links(rng, d)
    # a readme whose only local reference is an image
    for rel, dd in gen_site.walk(d):
        if dd["readme"] and dd["assets"] and rng.random() < 0.5:
            dd["readme"]["links"] = [("Ionly%s" % abs(hash(rel)) , quote(dd["assets"][0]["file"]), ("asset", (rel + "/" if rel else "") + dd["assets"][0]["file"]))]
    return d, M


def check_site(d, M, mode="abs", regen=False):
    """mode: how the source directory is named (gen_site.PATH_MODES); regen: afterwards a recipe is added and linked to in the same
    source directory and the site is generated again, in this process, into a second output directory"""
    src, out, scratch, err = gen_site.generate(d, M, mode=mode)
    try:
        if err is not None:
            name = type(err).__name__
            if name == "MaxServingsLowerThanLargestRecipeError":
                return []
            # every authored link of the generated trees points at an existing recipe, directory, readme or file inside the tree
            return [("C14:generation-raises:%s" % name, str(err)[:200])]
        res = crawl(d, M, src, out)
        if regen and not res:
            import copy
            from recipe_grid.static_site.website import generate_static_site
            d2 = copy.deepcopy(d)
            holders = [(rel, dd) for rel, dd in gen_site.walk(d2) if dd["recipes"]]
            if holders:
                rel, dd = holders[len(holders) // 2]
                new = dict(file="added-later.md", title="Added later", servings=min(2, M), links=[])
                dd["recipes"][0]["links"].append(("Lnew", "added-later.md", ("recipe", (rel + "/" if rel else "") + "added-later.md")))
                dd["recipes"].append(new)
                sub = dict(name="newer-dir", readme=None, recipes=[dict(file="inside.md", title="Inside", servings=None, links=[])], subdirs=[], assets=[])
                dd["subdirs"].append(sub)
                real = src.resolve()
                gen_site.write_tree(d2, real)
                out2 = scratch / "out-second"
                try:
                    generate_static_site(src, out2, M)
                except Exception as e:  # noqa
                    return [("C14:second-generation-raises:%s" % type(e).__name__, str(e)[:200])]
                res = [(sig + ":second-generation-after-additions", det) for sig, det in crawl(d2, M, src, out2)]
                want_new = "/serves1/" + (rel + "/" if rel else "") + "added-later.html"
                if want_new not in set(gen_site.output_files(out2)):
                    res.append(("C14:page-missing:second-generation-after-additions", "%s was added to the source before the second generation and has no page" % want_new))
        return res
    finally:
        shutil.rmtree(scratch, ignore_errors=True)


def fixed_oracle_cases():
    """boundary sites: a single serving count, with and without a recipe that states its servings; an empty root; one deep chain"""
    r = lambda f, t, s_: dict(file=f, title=t, servings=s_, links=[])  # noqa
    sub = lambda n, recs, subs=(): dict(name=n, readme=None, recipes=list(recs), subdirs=list(subs), assets=[])  # noqa
    yield sub("root", [r("plain.md", "Plain", None)], [sub("mains", [r("stew.md", "Stew", None)], [sub("slow", [r("ragu.md", "Ragu", None)])]), sub("empty", [])]), 1
    yield sub("root", [r("one.md", "One", 1)], [sub("mains", [r("stew.md", "Stew", None)])]), 1
    yield sub("root", [], [sub("mains", [], [sub("slow", [r("ragu.md", "Ragu", 2)])])]), 2
    yield sub("root", []), 1
    yield sub("root", [r("plain.md", "Plain", None)]), 3
    # a recipe for very many (serving counts beyond the small integers), linked to from a plain and from a scalable recipe
    feast = r("feast.md", "Feast", 257)
    note = dict(file="note.md", title="Note", servings=None, links=[("Lfeast", "feast.md", ("recipe", "feast.md"))])
    two = dict(file="two.md", title="Two", servings=2, links=[("Lfeast2", "./feast.md#top", ("recipe", "feast.md"))])
    yield dict(name="root", readme=None, recipes=[feast, note, two], subdirs=[], assets=[]), 257
    # source directories named like the site's own hierarchies, two levels down, with links into them from scalable recipes; a recipe that shares
    # its stem with a sibling directory, both linked to (in every spelling a directory link can take)
    rd = lambda t: dict(file="README.md", title=t, links=[], body="text")  # noqa
    pasta, rice, naan = r("pasta.md", "Pasta", 2), r("rice.md", "Rice", 2), r("naan.md", "Naan", None)
    soup = dict(file="soup.md", title="Soup", servings=2, links=[("Lp", "categories/pasta.md", ("recipe", "world/categories/pasta.md")), ("Lr", "serves2/rice.md", ("recipe", "world/serves2/rice.md")),
                                                                ("Lc", "categories/", ("dir", "world/categories")), ("Ls", "serves2", ("dir", "world/serves2")),
                                                                ("La", "/world/assets/naan.md", ("recipe", "world/assets/naan.md")), ("Lcr", "categories/README.md", ("readme", "world/categories/README.md"))])
    bread = dict(file="bread.md", title="Bread", servings=2, links=[("Ld1", "bread/", ("dir", "bread")), ("Ld2", "bread", ("dir", "bread")), ("Ld3", "./bread/#x", ("dir", "bread")),
                                                                  ("Lr1", "bread/rolls.md", ("recipe", "bread/rolls.md")), ("Lself", "bread.md", ("recipe", "bread.md"))])
    rolls = dict(file="rolls.md", title="Rolls", servings=3, links=[("Lup", "../bread.md", ("recipe", "bread.md")), ("Ldir", "../bread/", ("dir", "bread")), ("Ldot", ".", ("dir", "bread"))])
    yield dict(name="root", readme=dict(file="README.md", title="Book", body="text", links=[("Lb", "bread", ("dir", "bread")), ("Lbm", "bread.md", ("recipe", "bread.md"))]),
               recipes=[bread], assets=[],
               subdirs=[dict(name="bread", readme=None, recipes=[rolls], subdirs=[], assets=[]),
                        # (a sibling whose name begins with the other's name)
                        dict(name="breads", readme=None, subdirs=[], assets=[],
                             recipes=[dict(file="loaf.md", title="Loaf", servings=2, links=[("Lx", "../bread/rolls.md", ("recipe", "bread/rolls.md")), ("Ly", "../bread", ("dir", "bread"))])]),
                        dict(name="world", readme=None, recipes=[soup], assets=[],
                             subdirs=[dict(name="categories", readme=rd("Cats"), recipes=[pasta], subdirs=[], assets=[]),
                                      dict(name="serves2", readme=None, recipes=[rice], subdirs=[], assets=[]),
                                      dict(name="assets", readme=None, recipes=[naan], subdirs=[], assets=[])])]), 3


def check_regeneration():
    """after a second generation into the same directory every link to a local file leads to the file's CURRENT bytes"""
    import re
    out = []
    scratch, same, fresh, src = gen_site.regenerate_same_directory()
    try:
        for f in gen_site.output_files(fresh):
            a, b = same / f[1:], fresh / f[1:]
            if not a.exists():
                out.append(("C14:dead-link:authored", "%s is missing after regeneration into the same directory" % f))
            elif a.read_bytes() != b.read_bytes():
                kind = "page" if f.endswith(".html") else "linked local file"
                out.append(("C14:link-resolves-to-stale-copy:second-generation-into-the-same-directory", "%s %s differs from a fresh generation of the current sources" % (kind, f)))
        page = (same / "serves2" / "mains" / "omelette.html").read_text()
        for url in re.findall(r'(?:href|src)="([^"]*(?:oven\.csv|pic\.bin))"', page):
            tgt = gen_site.resolve("/serves2/mains/omelette.html", url)
            cur = (src / "mains" / tgt.rsplit("/", 1)[-1]).read_bytes()
            if not (same / tgt[1:]).exists() or (same / tgt[1:]).read_bytes() != cur:
                out.append(("C14:link-resolves-to-stale-copy:second-generation-into-the-same-directory", "link %r leads to bytes that are not the linked file's" % url))
        return out[:3]
    finally:
        shutil.rmtree(scratch, ignore_errors=True)


def oracle(run):
    rng = run.rng
    run.case(("regeneration",), True, kind="regeneration-into-same-directory")
    for sig, detail in check_regeneration():
        run.violate(sig, detail, {"regeneration": True})
    fixed = list(fixed_oracle_cases())
    for i in range(run.budget(30, 800) + len(fixed)):
        if i < len(fixed):
            d, M = fixed[i]
        else:
            d, M = gen_oracle_case(rng, url_names=(i % 3 == 0))
        mode = gen_site.PATH_MODES[(i // 2) % 3] if i % 2 else "abs"
        regen = (i % 5 == 1)
        run.case(("oracle", gen_site.tree_sexp(d), M, repr(d)[:0]), True, kind="crawl" + ("" if mode == "abs" else "-" + mode) + ("-regen" if regen else ""))
        seen = set()
        for sig, detail in check_site(d, M, mode, regen):
            if sig not in seen:
                seen.add(sig)
                run.violate(sig, detail, {"site": d_json(d), "M": M, "mode": mode, "regen": regen})


def d_json(d):
    import base64
    return dict(name=d["name"], readme=d["readme"] and dict(d["readme"], links=[list(l[:2]) + [list(l[2])] for l in d["readme"]["links"]]),
                recipes=[dict(r, links=[list(l[:2]) + [list(l[2])] for l in r["links"]]) for r in d["recipes"]],
                assets=[dict(file=a["file"], data=base64.b64encode(a["data"]).decode()) for a in d["assets"]],
                subdirs=[d_json(s) for s in d["subdirs"]])


def d_unjson(j):
    import base64
    return dict(name=j["name"], readme=j["readme"] and dict(j["readme"], links=[(l[0], l[1], tuple(l[2])) for l in j["readme"]["links"]]),
                recipes=[dict(r, links=[(l[0], l[1], tuple(l[2])) for l in r["links"]]) for r in j["recipes"]],
                assets=[dict(file=a["file"], data=base64.b64decode(a["data"])) for a in j["assets"]],
                subdirs=[d_unjson(s) for s in j["subdirs"]])


# ------------------------------------------------------------------ C10: titles, breadcrumbs, list entries, names are inert
NASTY_TITLES = ["Tom's \"best\"", "Fish & chips", "a > b < c", "x &amp; y", "<script>alert(1)</script>", "50% #1", "naïve café",
                # plain text that looks like markup / a character reference once it has been read (Markdown source: backslash escapes, &amp;)
                "Tips \\<b\\>bold\\</b\\> & more", "Salt &amp;amp; pepper", "1 \\< 2 \\> 0", "\\<i\\>x"]


RECIPE_TITLES = [t for t in NASTY_TITLES if not t.startswith("<script")]      # raw HTML in a recipe's heading: no title, generation refuses the recipe


def plain_title(src):
    """the text of a plain Markdown heading: backslash escapes of ASCII punctuation and character references resolved"""
    import html as pyhtml
    import re as _re
    return pyhtml.unescape(_re.sub(r"\\([!-/:-@\[-`{-~])", r"\1", src))


def inert_site(rng):
    d = gen_site.gen_tree(rng, 2, ["it's", "a&b", "q\"r", "x<y>", "plain", "soup: leek", "javascript:alert(1)", "data:x", "a;b=c"], p_readme=0.5, servings_pool=(None, 1, 2))
    # names that read as a URL scheme when they start a relative link: present in every site, as a directory and as recipe files
    d["subdirs"].append(dict(name="mailto:cook", readme=None, assets=[], subdirs=[],
                             recipes=[dict(file="javascript:alert(1).md", title="Plain 1", servings=2, links=[]), dict(file="http:pie.md", title="Plain 2", servings=None, links=[])]))
    # categories whose readme is a title and nothing else (what a page then says about the category can only come from the title)
    for j, t in enumerate(["Tips \\<b\\>bold\\</b\\> & more", "\\<i\\>x & y", "Soups &lt;b&gt; &amp; stews"]):
        d["subdirs"].append(dict(name="bare %d" % j, readme=dict(file="README.md", title=t, links=[], body="", keep_title=True), assets=[], subdirs=[],
                                 recipes=[dict(file="r.md", title="Plain 3", servings=2, links=[])]))
    k = rng.randrange(len(NASTY_TITLES))
    for rel, dd in gen_site.walk(d):
        if dd["readme"] and not dd["readme"].get("keep_title"):
            k += 1
            dd["readme"]["title"] = RECIPE_TITLES[k % len(RECIPE_TITLES)]
        for r in dd["recipes"]:
            k += 1
            r["title"] = RECIPE_TITLES[k % len(RECIPE_TITLES)] + " " + str(rng.randint(0, 99))
    if d["readme"] is None:
        d["readme"] = dict(file="README.md", title=RECIPE_TITLES[(k + 7) % len(RECIPE_TITLES)], links=[])
    # every kind of title at least once per site
    extra = [t for t in RECIPE_TITLES if not any(r["title"].startswith(t) for _, dd in gen_site.walk(d) for r in dd["recipes"])]
    for i, t in enumerate(extra):
        d["recipes"].append(dict(file="extra%d.md" % i, title=t + " " + str(i), servings=rng.choice([None, 2]), links=[]))
    return d


def check_inert(d, M):
    out = []
    src, gen_out, scratch, err = gen_site.generate(d, M)
    try:
        if err is not None:
            return [("C10:site-with-odd-titles-not-generated", "%s: %s" % (type(err).__name__, str(err)[:200]))]
        import html as pyhtml
        titles = set()
        for rel, dd in gen_site.walk(d):
            # the author's title is the heading text with character references decoded (C18)
            if dd["readme"]:
                titles.add(plain_title(dd["readme"]["title"]))
            for r in dd["recipes"]:
                titles.add(plain_title(r["title"]))
        for f in gen_site.output_files(gen_out):
            if not f.endswith(".html") or f.startswith("/assets/"):
                continue
            text = (gen_out / f[1:]).read_text()
            root, problems = htmltok.tree(text)
            if problems:
                out.append(("C10:site-page-malformed", "%s: %s" % (f, problems[:2])))
                continue
            for n in root.iter():
                if n.tag in ("script", "b", "i") and n.parent is not None:
                    out.append(("C10:title-became-markup", "%s contains <%s>" % (f, n.tag)))
            # a name is only ever a path: no generated link may read as a URL with a scheme (these sites have no authored links)
            for tag, attr, url, _label in gen_site.parse_page(text).links:
                if urlsplit(url).scheme:
                    out.append(("C10:name-became-a-url-scheme", "%s: <%s %s=%r> has scheme %r" % (f, tag, attr, url, urlsplit(url).scheme)))
            # the page's <title> is "<title of the page> - <site name>", character for character (modulo HTML white space)
            from recipe_grid.static_site.recipe_directory import dirname_to_title as _d2t
            for n in root.iter():
                if n.tag == "title":
                    shown = " ".join(n.text().split())
                    cands = {" ".join(t.split()) for t in titles} | {_d2t(dd["name"]) for _, dd in gen_site.walk(d)} | {_d2t(src.name), "Categories"} | {"Recipes for %d" % i for i in range(1, M + 1)}
                    if " - " in shown and not any(shown.startswith(c + " - ") or shown.startswith(c + " for ") or shown.startswith(c + " ") for c in cands if c):
                        out.append(("C10:page-title-text-differs", "%s: <title> %r is not a title of the site" % (f, shown)))
                    # the home page's <title> is the site's name itself: the root readme's title, else the directory's
                    if f == "/index.html":
                        site_name = " ".join(plain_title(d["readme"]["title"]).split()) if d["readme"] else _d2t(src.name)
                        if shown != site_name:
                            out.append(("C10:page-title-text-differs", "/index.html: <title> %r, the site is called %r" % (shown, site_name)))
            # breadcrumb labels and list entries are titles character for character
            for n in root.iter():
                if n.tag == "a" and n.parent is not None and n.parent.tag == "li":
                    label = n.text()
                    ok_labels = titles | {"Categories"} | {"Recipes for %d" % i for i in range(1, M + 1)}
                    if label.strip() and not (label in ok_labels or label.isdigit() or any(label == gen_title for gen_title in ok_labels)):
                        from recipe_grid.static_site.recipe_directory import dirname_to_title
                        names = {dirname_to_title(dd["name"]) for _, dd in gen_site.walk(d)} | {dirname_to_title(src.name)}
                        if label not in names and not label.lstrip().lower().startswith(("for ", "serv", "to ", "makes")):
                            out.append(("C10:list-entry-text-differs", "%s: link text %r is no title of the site" % (f, label)))
        return out
    finally:
        shutil.rmtree(scratch, ignore_errors=True)


def oracle_inert(run):
    rng = run.rng
    for _ in range(run.budget(6, 100)):
        d = inert_site(rng)
        M = 2
        run.case(("inert-site", gen_site.tree_sexp(d)), True, kind="site-inert")
        seen = set()
        for sig, detail in check_inert(d, M):
            if sig not in seen:
                seen.add(sig)
                run.violate(sig, detail, {"site": d_json(d), "M": M})


def replay_inert(r):
    return check_inert(d_unjson(r["site"]), r["M"])


def replay(run, obj):
    r = obj["replay"]
    if r.get("regeneration"):
        res = check_regeneration()
        for x in res:
            print(*x)
        return bool(res)
    if "sitesources_seed" in r:
        import os
        import subprocess
        import sys
        here = os.path.dirname(os.path.dirname(os.path.abspath(__file__)))
        p = subprocess.run([sys.executable, os.path.join(here, "sitesources_corr.py"), str(r["sitesources_seed"]), str(r["trees"])], stdout=subprocess.PIPE, stderr=subprocess.STDOUT,
                           text=True, env=dict(os.environ, PYTHONPATH=os.pathsep.join(x for x in sys.path if x)))
        print(p.stdout[-1500:])
        return "property violations on the real code: 0" not in p.stdout
    res = check_site(d_unjson(r["site"]), r["M"], r.get("mode", "abs"), r.get("regen", False))
    for x in res:
        print(*x)
    return bool(res)
