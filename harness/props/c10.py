"""C10 — recipe text is inert: user strings never become markup."""
import re
from fractions import Fraction

from recipe_grid.recipe import Ingredient, Step, Reference, SubRecipe, Quantity, Proportion
from recipe_grid.scaled_value_string import ScaledValueString as SVS
from recipe_grid.renderer.html import render_recipe_tree
from recipe_grid.units import UNIT_SYSTEM
from recipe_grid import markdown as M

from .. import sexp, rsexp, gen_trees, htmltok
from . import c02, c04

PID = "C10"
TECHNIQUE = "Lean 4 theorems on escaping (decode . escape = id, no markup characters, attribute values well-formed, id alphabet) + exact correspondence of the renderer + structure-diff oracle"
LEVEL_TEXT = ("Theorems in Lean for all strings: html escaping decodes back to the original text and contains no '<', '>', quotes or stray '&'; quoteattr yields "
              "one well-formed quoted value that decodes back; anchor ids use only [A-Za-z0-9._-]; a text part renders as exactly its escaped characters. The "
              "renderer model is tied to renderer/html.py byte for byte on trees decorated with markup characters in every string position; the oracle "
              "diffs the element structure against the same tree with alphabetic strings and compares visible text character for character. "
              "Site templates (C10c): the list of every printed expression of every HTML template is regenerated from the templates with Jinja's own "
              "parser on every run; templates_escape_user_text is decided on it - auto-escaping is on and every expression is either one of the three "
              "HTML bodies marked safe or a value printed with no filter at all (a title through |safe or |striptags fails the build); "
              "jinjaUnescape_escape / jinjaEscape_no_markup: the escaped value decodes back to the author's text and contains no < > \" '; the "
              "escaping is compared with the project's template environment.")
LEVEL_NOTE = ("Partial: titles, breadcrumbs and list entries of the site go through Jinja2 autoescape and lxml (outside the model): checked per generated site "
              "by the oracle with html.parser. Trailing whitespace of a description in a cell that also holds a conversions list is dropped by t()'s rstrip "
              "(invisible in HTML; visible text is compared modulo HTML whitespace collapsing). Non-interference is a theorem against a tokenizer written in Lean (renderSvs_skeleton / renderAmount_skeleton: "
              "strings that differ only in their text give the same element structure; renderSvs_text, renderQuantity_text_full: the visible text is the "
              "text verbatim; tagBody_attr_roundtrip: an attribute value derived from user text is one well-formed attribute decoding to that value). "
              "Trusted: Lean kernel.")
LEAN_MODULES = ["RecipeGrid.Props.C10", "RecipeGrid.Props.C10b", "RecipeGrid.Props.C10c"]
SOURCES = ["recipe_grid/renderer/html.py", "recipe_grid/markdown.py", "recipe_grid/static_site/templates/__init__.py"]
RULE = ("recipe trees whose every user string (ingredient, step, output name, free-form unit, preposition, remainder wording) is drawn from strings over "
        "< > & \" ' backslash braces percent hash Unicode and spaces, with random id prefixes; Markdown titles with the same characters; non-trivial = some "
        "string contains a markup-significant character; distinct = distinct (tree, prefix)")
NASTY = ["<b>", "a&b", "&amp;", "\"q\"", "it's", "x>y", "</td>", "<script>alert(1)</script>", "50%", "#1", "{x}", "back\\slash", "é&ü", "a b", "'\"<>&",
         "&lt;", "]]>", "<!--", "a=b", "`tick`", "plain", "two words"]
KNOWN = set(UNIT_SYSTEM.iter_names())


def nasty_svs(rng):
    parts = []
    for _ in range(rng.choice([1, 1, 2, 3])):
        parts.append(rng.choice(NASTY))
        if rng.random() < 0.3:
            parts.append(rng.choice([2, 0.5]))
        parts.append(" ")
    return SVS(parts).rstrip() if rng.random() < 0.9 else SVS(parts)


def nasty_quantity(rng):
    k = rng.random()
    if k < 0.3:
        return Quantity(rng.choice([1, 2.5]), None, "", rng.choice(["", " of", " <of>"]))
    if k < 0.6:
        return Quantity(rng.choice([1, 2.5]), rng.choice(["kg", "Tsp", "cups"]), rng.choice(["", " "]), rng.choice(["", " of the"]))
    return Quantity(rng.choice([1, 2.5]), rng.choice(NASTY), rng.choice(["", " "]), rng.choice(["", " &of"]))


def nasty_tree(rng, depth, subs):
    k = rng.random()
    if depth <= 0 or k < 0.3:
        if subs and rng.random() < 0.4:
            sr = rng.choice(subs)
            amt = rng.choice([Proportion(1.0), nasty_quantity(rng), Proportion(None, None, rng.choice(NASTY), " <of>"), Proportion(0.5, False, None, " *&")])
            return Reference(sr, rng.randrange(len(sr.output_names)), amt)
        return Ingredient(nasty_svs(rng), nasty_quantity(rng) if rng.random() < 0.6 else None)
    if k < 0.45:
        return SubRecipe(nasty_tree(rng, depth - 1, subs), (nasty_svs(rng),), rng.random() < 0.7)
    return Step(nasty_svs(rng), tuple(nasty_tree(rng, depth - 1, subs) for _ in range(rng.choice([1, 2, 3]))))


def gen_cases(run, n):
    rng = run.rng
    out = []
    for _ in range(n):
        subs = [SubRecipe(Ingredient(nasty_svs(rng)), (nasty_svs(rng),)), SubRecipe(Ingredient(nasty_svs(rng)), (nasty_svs(rng), nasty_svs(rng)))]
        t = nasty_tree(rng, rng.randint(0, 4), subs)
        if rng.random() < 0.2 and not isinstance(t, SubRecipe):
            t = SubRecipe(t, (nasty_svs(rng), nasty_svs(rng)))
        out.append((t, rng.choice(["recipe-", "recipe2-", "sub-recipe-", "p\"<&>'-"])))
    from .. import gen_trees
    return gen_trees.with_twins(rng, out)


def alpha(s):
    return "".join(c if c.isalpha() or c == " " else "x" for c in s) or "x"


def alpha_svs(s):
    return SVS([alpha(p) if isinstance(p, str) else p for p in s._string])


def alpha_q(q):
    if q is None:
        return None
    unit = q.unit
    if unit is not None and unit.lower() not in KNOWN:
        unit = alpha(unit)
    return Quantity(q.value, unit, q.value_unit_spacing, alpha(q.preposition) if q.preposition else "")


def alpha_tree(t):
    if isinstance(t, Ingredient):
        return Ingredient(alpha_svs(t.description), alpha_q(t.quantity))
    if isinstance(t, Step):
        return Step(alpha_svs(t.description), tuple(alpha_tree(x) for x in t.inputs))
    if isinstance(t, SubRecipe):
        return SubRecipe(alpha_tree(t.sub_tree), tuple(alpha_svs(n) for n in t.output_names), t.show_output_names)
    a = t.amount
    if isinstance(a, Quantity):
        a = alpha_q(a)
    else:
        a = Proportion(a.value, a.percentage, alpha(a.remainder_wording) if a.remainder_wording else a.remainder_wording, alpha(a.preposition) if a.preposition else "")
    return Reference(alpha_tree(t.sub_recipe), t.output_index, a)


def skeleton(html):
    out = []
    for tok in htmltok.tokens(html):
        if tok[0] == "open":
            attrs = dict(tok[2])
            out.append(("open", tok[1], tuple(sorted(attrs)), attrs.get("class"), attrs.get("rowspan"), attrs.get("colspan")))
        elif tok[0] == "close":
            out.append(tok)
        elif tok[0] != "text":
            out.append((tok[0],))
    return out


ATTR = re.compile(r'\s([a-zA-Z-]+)=("[^"<]*"|\'[^\'<]*\')')


def check_tree(t, pre):
    out = []
    html = render_recipe_tree(t, pre)
    plain = render_recipe_tree(alpha_tree(t), alpha(pre))
    if skeleton(html) != skeleton(plain):
        out.append(("C10:element-structure-depends-on-text", "skeleton differs from the alphabetic rendering"))
    root, problems = htmltok.tree(html)
    if problems:
        out.append(("C10:malformed-html", "; ".join(problems[:2])))
    # every start tag consists of well-formed attributes only: re-scan the raw tags
    for m in re.finditer(r"<([a-z]+)((?:[^>\"']|\"[^\"]*\"|'[^']*')*)>", html):
        rest = ATTR.sub("", m.group(2)).strip()
        if rest not in ("", "/"):
            out.append(("C10:attribute-not-well-formed", "tag %r leaves %r" % (m.group(0)[:80], rest)))
            break
    for sig, detail in c04.check_tree(t, pre):
        if sig in ("C04:cell-text-wrong", "C04:output-list-text-wrong", "C04:malformed-html", "C04:not-a-single-table"):
            out.append(("C10:visible-text-differs", detail))
    # ids / hrefs: single attribute equal to prefix + safe characters
    for n in root.iter():
        for key in ("id",):
            if key in n.attrs and n.tag in ("table", "li"):
                v = n.attrs[key]
                if not v.startswith(pre) or re.search(r"[^A-Za-z0-9._-]", v[len(pre):]):
                    out.append(("C10:id-has-unsafe-characters", repr(v)))
        if n.tag == "a" and "href" in n.attrs:
            v = n.attrs["href"]
            if not v.startswith("#" + pre) or re.search(r"[^A-Za-z0-9._-]", v[1 + len(pre):]):
                out.append(("C10:href-has-unsafe-characters", repr(v)))
    return out


def check_title(title):
    out = []
    doc = "# " + title + " for 2\n\nText.\n"
    mr = M.compile_markdown(doc)
    if mr.title is None:
        return out     # headings with markup give no title (C18)
    html = mr.render(1)
    root, problems = htmltok.tree(html)
    h1 = [n for n in root.iter() if n.tag == "h1"]
    if problems or len(h1) != 1:
        out.append(("C10:title-breaks-structure", "%r -> %r" % (title, html[:200])))
    # the stand-alone page shows the title twice, in <title> and in the heading: both are the author's text, character for character
    # (modulo HTML white space), whatever it looks like (tags, character references, runs of blanks)
    import shutil
    from .. import gen_site
    from recipe_grid.static_site.standalone_page import generate_standalone_page
    scratch = gen_site.scratch_root()
    try:
        f = scratch / "page.md"
        f.write_text(doc, encoding="utf-8")
        try:
            page = generate_standalone_page(f, embed_local_links=False)
        except Exception as e:  # noqa
            return out + [("C10:text-breaks-rendering:%s" % type(e).__name__, "stand-alone page with title %r: %s" % (title, str(e)[:120]))]
        proot, pproblems = htmltok.tree(page)
        want = " ".join(mr.title.split())
        shown = [" ".join(n.text().split()) for n in proot.iter() if n.tag == "title"]
        if pproblems or shown != [want]:
            out.append(("C10:page-title-text-differs", "stand-alone page: <title> shows %r, the title is %r" % (shown, want)))
        # nothing of the title becomes an element: the page has the same elements as the page of a plain title
        plain_doc = "# Plain title for 2\n\nText.\n"
        (scratch / "plain.md").write_text(plain_doc, encoding="utf-8")
        plain_root, _ = htmltok.tree(generate_standalone_page(scratch / "plain.md", embed_local_links=False))
        if sorted(n.tag for n in proot.iter()) != sorted(n.tag for n in plain_root.iter()):
            extra = sorted(set(n.tag for n in proot.iter()) ^ set(n.tag for n in plain_root.iter()))
            out.append(("C10:element-structure-depends-on-text", "stand-alone page with title %r: elements differ from a plain title's page (%r)" % (mr.title, extra)))
        heads = [" ".join(n.text().split()) for n in proot.iter() if n.tag == "h1"]
        if len(heads) != 1 or not heads[0].startswith(want):
            out.append(("C10:page-title-text-differs", "stand-alone page: heading shows %r, the title is %r" % (heads, want)))
    finally:
        shutil.rmtree(scratch, ignore_errors=True)
    return out


def all_placeholders(mr):
    out = list(mr.scaled_value_strings) + list(mr.recipe_placeholders)
    return out + [p for p in (mr.pre_title_placeholder, mr.post_title_placeholder) if p]


def extrapolate(a, b):
    """if two successive placeholders differ only in digit runs, continue the progression (predictable generators)"""
    pa, pb = re.split(r"(\d+)", a), re.split(r"(\d+)", b)
    if len(pa) != len(pb) or pa[0::2] != pb[0::2]:
        return None
    out = []
    for i, (x, y) in enumerate(zip(pa, pb)):
        if i % 2 and x != y:
            out.append(str(int(y) + (int(y) - int(x))).zfill(len(y)))
        else:
            out.append(y)
    return "".join(out)


def check_placeholder_replay():
    """user text that spells out placeholders the tool used (or, for a predictable generator, is about to use) stays text"""
    out = []
    body = "# T for 2\n\nMix {2} eggs %s.\n\n    1 kg 'flour %s'\n    bake('flour %s', 'x %s')\n"
    plain = body % ("p", "q", "q", "r")
    m1 = M.compile_markdown(plain)
    m2 = M.compile_markdown(plain)
    guesses = all_placeholders(m1) + all_placeholders(m2)
    for a, b_ in zip(all_placeholders(m1), all_placeholders(m2)):
        for step in range(1, 4):
            g = extrapolate(a, b_)
            if g:
                guesses.append(g)
                a, b_ = b_, g
    # a generous window for counters: every placeholder-shaped string near the observed ones
    guesses = list(dict.fromkeys(guesses))[:40]
    text = " ".join(guesses)
    doc = body % (text.replace("%", "\\%") if False else text, text, text, text)
    try:
        mr = M.compile_markdown(doc)
        html = mr.render(2)
    except Exception as e:  # noqa
        return [("C10:placeholder-text-breaks-compilation", repr(e)[:200])]
    ref = M.compile_markdown(body % ("w", "w", "w", "w")).render(2)
    if skeleton(html) != skeleton(ref):
        out.append(("C10:user-text-equal-to-a-placeholder-is-substituted", "document structure changes when user text spells out placeholder strings"))
    root, problems = htmltok.tree(html)
    cells = [n.text() for n in root.iter() if n.tag == "td"]
    if not any(guesses[0] in c for c in cells):
        out.append(("C10:user-text-equal-to-a-placeholder-is-substituted", "placeholder-shaped user text is not shown verbatim"))
    return out


BACKSLASHED = ["sweet\\nsour", "mix\\\\fold", "salt\\pepper", "a\\1b", "\\g<0>x", "50% \\& more", "tab\\there"]


def check_markdown_text(name):
    """a name (written quoted, so every character is literal except the backslash escapes of the recipe syntax) shown through compile_markdown().render()"""
    out = []
    quoted = '"' + name.replace("\\", "\\\\").replace('"', '\\"') + '"'
    doc = "# T for 2\n\nProse {2 %s}.\n\n    1 kg %s\n    out = fry(%s), serve\n    eat(1/2 of out, rest of out)\n" % (
        name.replace("\\", "\\\\").replace("{", "").replace("}", ""), quoted, quoted)
    try:
        html = M.compile_markdown(doc).render(2)
    except Exception as e:  # noqa
        return [("C10:text-breaks-rendering:%s" % type(e).__name__, "%r: %s" % (name, str(e)[:120]))]
    root, problems = htmltok.tree(html)
    cells = [n.text() for n in root.iter() if n.tag == "td" and "rg-ingredient" in n.classes()]
    if not cells or name not in cells[0]:
        out.append(("C10:visible-text-differs", "ingredient %r shown as %r through the Markdown front end" % (name, cells[:1])))
    # the same document as a stand-alone page (whole-document post-processing by lxml, with and without embedding of local files)
    import shutil
    from .. import gen_site
    from recipe_grid.static_site.standalone_page import generate_standalone_page
    scratch = gen_site.scratch_root()
    try:
        f = scratch / "page.md"
        f.write_text(doc, encoding="utf-8")
        for embed in (True, False):
            try:
                page = generate_standalone_page(f, scale=2, embed_local_links=embed)
            except Exception as e:  # noqa
                out.append(("C10:text-breaks-rendering:%s" % type(e).__name__, "stand-alone page, %r: %s" % (name, str(e)[:120])))
                continue
            proot, pproblems = htmltok.tree(page)
            pcells = [n.text() for n in proot.iter() if n.tag == "td" and "rg-ingredient" in n.classes()]
            if [" ".join(c.split()) for c in pcells] != [" ".join(c.split()) for c in cells]:
                out.append(("C10:visible-text-differs", "stand-alone page (embed_local_links=%r): ingredient %r shown as %r" % (embed, name, pcells[:1])))
    finally:
        shutil.rmtree(scratch, ignore_errors=True)
    return out


def check_file_names():
    """the stand-alone page of a document (titled, untitled, with a lower-level heading first) under a file name full of markup characters, at several
    scales: the file's name never becomes mark-up - the page has the same elements as the page of the same document under a plain name"""
    import shutil
    from .. import gen_site
    from recipe_grid.static_site.standalone_page import generate_standalone_page
    out = []
    docs = {"untitled": "Some text with {2} eggs.\n\n    1 kg x\n", "titled": "# Pancakes for 2\n\nText.\n\n    1 kg x\n",
            "lower heading": "## Pancakes for 2\n\n    1 kg x\n", "markup title": "# *Fancy* pancakes\n\n    1 kg x\n"}
    names = ["pancakes <b>& more", "x &amp; y", "q\"r' s", "a <script>alert(1)<\\script> b", "t <i>", "&lt;b&gt;"]
    scratch = gen_site.scratch_root()
    try:
        for kind, doc in docs.items():
            for kw in ({}, {"scale": 2}, {"scale": Fraction(1, 2)}, {"scale": 1.5}):
                plain = scratch / "plain.md"
                plain.write_text(doc)
                ref_root, _ = htmltok.tree(generate_standalone_page(plain, embed_local_links=False, **kw))
                ref_tags = sorted(n.tag for n in ref_root.iter())
                for nm in names:
                    f = scratch / (nm + ".md")
                    f.write_text(doc)
                    try:
                        page = generate_standalone_page(f, embed_local_links=False, **kw)
                    except Exception as e:  # noqa
                        out.append(("C10:text-breaks-rendering:%s" % type(e).__name__, "stand-alone page of %r (%s, %r): %s" % (nm, kind, kw, str(e)[:100])))
                        continue
                    root, problems = htmltok.tree(page)
                    if problems or sorted(n.tag for n in root.iter()) != ref_tags:
                        out.append(("C10:element-structure-depends-on-text", "stand-alone page of the file %r (%s document, %r): elements differ from those of the same document named plain.md" % (nm + ".md", kind, kw)))
                        return out
        return out
    finally:
        shutil.rmtree(scratch, ignore_errors=True)


def check_similar_names():
    """a name that differs from the name of a sub recipe only in punctuation is a name of its own: it is shown as written, as an ingredient,
    not replaced by a link to the look-alike"""
    from recipe_grid.compiler import compile as rg_compile
    out = []
    q = lambda name: '"' + name.replace("\\", "\\\\").replace('"', '\\"') + '"'  # noqa
    pairs = [("salt & pepper", "salt # pepper"), ('50% "rye"', "50 'rye'"), ("a+b", "a b"), ("x.y", "x y"), ("it's", "it s"), ("fish & chips", "fish, chips"),
             ("A*B", "A B"), ("1/2 & 1/2", "1/2 $ 1/2"), ("bread (white)", "bread white")]
    for a, b in pairs:
        src = "%s = grind(peppercorns)\nseason(%s, %s)\n" % (q(a), q(a), q(b))
        try:
            recipes = rg_compile([src])
        except Exception as e:  # noqa
            out.append(("C10:text-breaks-rendering:%s" % type(e).__name__, "%r: %s" % (src, str(e)[:120])))
            continue
        cells = []
        for t in recipes[0].recipe_trees:
            root, _ = htmltok.tree(render_recipe_tree(t, "r-"))
            cells += [(n.classes()[0] if n.classes() else "", " ".join(n.text().split())) for n in root.iter() if n.tag == "td"]
        if ("rg-ingredient", " ".join(b.split())) not in cells:
            out.append(("C10:visible-text-differs", "the ingredient %r (next to the sub recipe %r) is shown as %r" % (b, a, [c for c in cells if c[0] != "rg-step"])))
    return out


def correspondence(run):
    cases = gen_cases(run, run.budget(1200, 20000))
    rep = run.ask([sexp.tag("html", sexp.s(pre), rsexp.tree(t)) for t, pre in cases])
    for (t, pre), m in zip(cases, rep):
        impl = render_recipe_tree(t, pre)
        run.case(("html", rsexp.tree(t), pre), True, kind="nasty-tree", sample={"html": impl[:160]})
        run.groups["render_recipe_tree (markup characters)"] += 1
        if impl != m and htmltok.gate_tokens(impl) != htmltok.gate_tokens(m):
            run.disagree("html", {"tree": rsexp.tree(t), "prefix": pre}, impl[:1500], m[:1500])
    # the escaping the site templates apply to titles, labels and hrefs (Jinja autoescape = markupsafe.escape) vs jinjaEscape (Props/C10c),
    # through the project's own template environment
    from recipe_grid.static_site.templates import env
    tmpl = env.from_string("{{ x }}")
    rng = run.rng
    texts = list(NASTY) + ["".join(rng.choice("<>&\"'ab ;#3x\u00e9\u2028") for _ in range(rng.randint(0, 12))) for _ in range(run.budget(300, 5000))]
    for t, m in zip(texts, run.ask([sexp.tag("jinja-escape", sexp.s(t)) for t in texts])):
        impl = tmpl.render(x=t)
        run.case(("jinja-escape", t), any(c in t for c in "<>&\"'"), kind="template-escape")
        run.groups["template autoescape vs jinjaEscape"] += 1
        if impl != m:
            run.disagree("jinja-escape", t, impl[:300], str(m)[:300])


def oracle(run):
    for t, pre in gen_cases(run, run.budget(1000, 20000)):
        run.case(("oracle", rsexp.tree(t), pre), True)
        for sig, detail in check_tree(t, pre):
            run.violate(sig, detail, {"tree": rsexp.tree(t), "prefix": pre})
    for name in BACKSLASHED + NASTY[:8] + ["poign\u00e9es de \u2603 na\u00efve \u65e5\u672c \U0001F372"]:
        run.case(("markdown-text", name), True, kind="markdown-text")
        for sig, detail in check_markdown_text(name):
            run.violate(sig, detail, {"markdown_text": name})
    run.case(("file-names",), True, kind="file-names")
    for sig, detail in check_file_names()[:3]:
        run.violate(sig, detail, {"file_names": True})
    run.case(("similar-names",), True, kind="similar-names")
    for sig, detail in check_similar_names()[:3]:
        run.violate(sig, detail, {"similar_names": True})
    run.case(("placeholder-replay",), True, kind="placeholder-replay")
    for sig, detail in check_placeholder_replay():
        run.violate(sig, detail, {"placeholder_replay": True})
    for title in ["Tom's \"best\" pie", "Fish & chips", "a > b", "x &amp; y", "50% rye #1", "back\\\\slash", "naïve café",
                  # plain text that looks like markup, a character reference or collapsible space once it has been read
                  "I \\<3 pie \\> cake", "R&amp;amp;D loaf", "wide   gap", "1 \\< 2 and 3 \\> 2", "\\<b\\>bold\\</b\\> bun", "&amp;lt;tag&amp;gt; tart", "Q&A;",
                  # text that would close the element it is printed in, were it printed unescaped (style sheet, script, title, comment)
                  "x \\</style\\>\\<b\\>y\\</b\\>", "\\</title\\> z", "a --\\> b", "\\</script\\>", "quote \" and \\\\ in css"]:
        run.case(("title", title), True, kind="title")
        for sig, detail in check_title(title):
            run.violate(sig, detail, {"title": title})
    try:
        from . import c14
        c14.oracle_inert(run)
    except ImportError:
        run.note("site templates not yet covered: site property module not built")


def replay(run, obj):
    if obj["replay"].get("file_names"):
        res = check_file_names()
        for x in res:
            print(*x)
        return bool(res)
    r = obj["replay"]
    if "similar_names" in r:
        res = check_similar_names()
    elif "markdown_text" in r:
        res = check_markdown_text(r["markdown_text"])
    elif "placeholder_replay" in r:
        res = check_placeholder_replay()
    elif "title" in r:
        res = check_title(r["title"])
    elif "site" in r:
        from . import c14
        res = c14.replay_inert(r)
    else:
        res = check_tree(c02.tree_of_sexp(sexp.decode(sexp.parse(r["tree"]))), r["prefix"])
    for x in res:
        print(*x)
    return bool(res)
