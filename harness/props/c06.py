"""C06 — alternative spellings of the same recipe compile identically."""
from fractions import Fraction

from recipe_grid.parser import parse as rg_parse
from peggie import ParseError

from .. import sexp, rsexp, gen_desc, parser_corr
from ..compile_common import real_outcome, brief
from . import c01

PID = "C06"
TECHNIQUE = "Lean 4 parser model (rule for rule, total) with exact AST correspondence incl. offsets and number types + print/parse round-trip and two-spellings oracle"
LEVEL_TEXT = ("The recipe grammar is modelled rule for rule as a total Lean parser producing the AST with offsets and Python number types; it is tied to "
              "parser.parse by exact AST equality on printed descriptions under random permitted spellings, mutated texts and token soups. That every "
              "permitted spelling of one abstract description parses/compiles to the same result, and that printing then compiling recovers every string, "
              "number, unit, preposition and amount verbatim, is checked on every generated description by the oracle. The grammar itself is regenerated data (C06c): tools/gen_model.py turns the compiled grammar.peg into Gen/Grammar.lean (31 rules, "
              "27 terminals) on every run, and parser_recognises_grammar proves, for every text, that the hand-written parser model accepts exactly what a "
              "generic PEG recogniser with peggie's semantics accepts on that data (rule by rule; terminals_known, rules_closed, grammar_supported by "
              "decide) - a one-token edit of grammar.peg changes the generated file and breaks the proof of the edited rule; comment-only edits do not. The "
              "generic recogniser on the generated data is also compared with the real parser on every text of the correspondence. The terminals too (C06d): the syntax tree of each of the 27 regular expressions is regenerated with CPython's own regex parser "
              "(Gen/Regexes.lean) and scanner_eq_regex_<terminal> proves every scanner of the parser model equal to the match of its expression under a "
              "backtracking engine with re's semantics (all_terminals_are_their_regexes; units_regex_is_table for the unit alternation), hence "
              "parser_is_grammar_peg: the parser model accepts exactly what the PEG of grammar.peg accepts with every terminal read as a Python regular "
              "expression. What stays trusted there: the engine = CPython's re on these patterns and the generic recogniser = peggie, both compared exactly.")
LEVEL_NOTE = ("Trusted: Lean kernel (totality of the parser model; theorems about number/token scanners); peggie's PEG semantics as exercised by correspondence. "
              "The print/parse round trip is a theorem for whole blocks of arbitrarily nested statements (recipe_roundtrip, expr_roundtrip, stmt_roundtrip: every "
              "well-formed spelling - white space chosen independently at every node, trailing commas, parenthesised shorthand, output lists, blank lines - of an "
              "abstract block parses to its AST; two_spellings_same_ast_mod_offsets; hypothesis-free for plain names, plain_recipe_roundtrip) under explicit "
              "side conditions at the leaves (a reference not followed by blanks and '('; names that do not read as amounts); compilation of the parsed AST and "
              "strings with interpolated numbers inside nested positions rest on the lemmas of C06 plus the oracle.")
LEAN_MODULES = ["RecipeGrid.Props.C06", "RecipeGrid.Props.C06b", "RecipeGrid.Props.C06c", "RecipeGrid.Props.C06d"]
SOURCES = ["recipe_grid/parser/grammar.peg", "recipe_grid/parser/ast.py", "recipe_grid/parser/__init__.py", "recipe_grid/units.py", "recipe_grid/compiler.py"]
RULE = ("abstract descriptions of C01 crossed with two independent random spellings each (quote style per string part, whitespace at each optional position, "
        "shorthand vs nested single-input steps, trailing commas, line breaks in parentheses, fraction layout, unit letter case) plus the canonical spelling; "
        "parser correspondence additionally on mutated texts and token soups; non-trivial = the two spellings differ; distinct = distinct texts")


def correspondence(run):
    rng = run.rng
    texts = list(parser_corr.EDGE_CASES) + parser_corr.neighbours()
    for d, t, _ in c01.gen_cases(run, run.budget(400, 8000)):
        texts.extend(t)
    for _ in range(run.budget(400, 8000)):
        texts.append(parser_corr.gen_soup(rng))
        texts.append(parser_corr.gen_mutated(rng))
    reals = [parser_corr.real_parse(t) for t in texts]
    keep = [i for i, r in enumerate(reals) if r not in parser_corr.SKIPPED]
    rep = run.ask([sexp.tag("parse", sexp.s(texts[i])) for i in keep])
    for i, m in zip(keep, rep):
        real = sexp.decode(sexp.parse(reals[i]))
        kind = "ok" if reals[i].startswith("(ok") else reals[i]
        run.case(("parse", texts[i]), len(texts[i]) > 3, kind=kind, sample={"source": texts[i][:120], "outcome": kind})
        run.groups["parser.parse"] += 1
        if real != m:
            run.disagree("parse", texts[i], reals[i][:1500], repr(m)[:1500])
    # the grammar as regenerated data, run by the generic PEG recogniser (Props/C06c: parser_recognises_grammar), against the real parser
    rep = run.ask([sexp.tag("peg-accepts", sexp.s(texts[i])) for i in keep])
    for i, m in zip(keep, rep):
        accepted = not reals[i].startswith("syntax")
        run.groups["generated grammar (generic PEG recogniser) accept/reject"] += 1
        if m is not accepted:        # decoded reply: True / False (None = the generic run was undefined)
            run.disagree("peg-accepts", texts[i], "accepted" if accepted else "rejected", repr(m)[:300])
    # the same with every terminal read as a Python regular expression (generated syntax trees, Props/C06d: parser_is_grammar_peg)
    sub = keep[::3]
    rep = run.ask([sexp.tag("peg-accepts-re", sexp.s(texts[i])) for i in sub])
    for i, m in zip(sub, rep):
        accepted = not reals[i].startswith("syntax")
        run.groups["generated grammar with regex terminals (regex engine) accept/reject"] += 1
        if m is not accepted:
            run.disagree("peg-accepts-re", texts[i], "accepted" if accepted else "rejected", repr(m)[:300])


def ast_no_offsets(t):
    try:
        return ("ok", rg_parse(t))     # ast dataclasses compare without offsets
    except ParseError:
        return ("syntax",)
    except Exception as e:  # noqa
        return (type(e).__name__,)


def check_case(d, spellings):
    """spellings: list of (texts, marks)"""
    out = []
    outcomes = [real_outcome(t) for t, _ in spellings]
    first = outcomes[0]
    for (t, marks), o in zip(spellings[1:], outcomes[1:]):
        if o[0] != first[0] or (o[0] == "ok" and o[1] != first[1]):
            out.append(("C06:spellings-compile-differently", "%r vs %r: %r / %r" % (spellings[0][0], t, brief(first), brief(o))))
        elif o[0] in ("redefined", "proportion"):
            # same error at the corresponding token: the mark offsets differ, the line/column must follow them
            exp = c01.expected(d, t, marks)
            exp0 = c01.expected(d, spellings[0][0], spellings[0][1])
            if exp[0] != o[0] or exp[2] != o[1] or exp0[2] != first[1]:
                out.append(("C06:error-at-different-token", "%r vs %r" % (spellings[0][0], t)))
    # verbatim recovery
    exp = c01.expected(d, *spellings[0])
    if exp[0] == "ok" and (first[0] != "ok" or first[1] != exp[1]):
        out.append(("C06:print-compile-roundtrip-fails", "%r" % (spellings[0][0],)))
    return out


def gen_case(run):
    g = gen_desc.Gen(run.rng)
    d = g.desc()
    sp = [gen_desc.print_desc(d, gen_desc.Spelling(None)), gen_desc.print_desc(d, gen_desc.Spelling(run.rng)), gen_desc.print_desc(d, gen_desc.Spelling(run.rng))]
    return d, sp


def oracle(run):
    n_corpus = len(gen_desc.CORPUS)
    for i in range(n_corpus + run.budget(350, 8000)):
        if i < n_corpus:
            # first the corpus of minimised past failures, each in its canonical and two random spellings
            d = gen_desc.CORPUS[i]
            sp = [gen_desc.print_desc(d, gen_desc.Spelling(None)), gen_desc.print_desc(d, gen_desc.Spelling(run.rng)), gen_desc.print_desc(d, gen_desc.Spelling(run.rng))]
        else:
            d, sp = gen_case(run)
        run.case(("oracle", tuple(map(tuple, (t for t, _ in sp)))), sp[1][0] != sp[2][0], kind="spellings")
        for sig, detail in check_case(d, sp):
            run.violate(sig, detail, {"desc": repr(d), "spellings": [t for t, _ in sp]})


def replay(run, obj):
    r = obj["replay"]
    outs = [real_outcome(t) for t in r["spellings"]]
    bad = any(o[0] != outs[0][0] or (o[0] == "ok" and o[1] != outs[0][1]) for o in outs[1:])
    d = eval(r["desc"], {"Fraction": Fraction})
    try:
        recipes, _ = gen_desc.meaning(d)
        if outs[0][0] != "ok" or outs[0][1] != rsexp.c_blocks(recipes):
            bad = True
    except gen_desc.Rejected:
        pass
    print([brief(o) for o in outs])
    return bad
