"""C05 — nothing written is lost, duplicated or reordered by compilation."""
import collections
from fractions import Fraction

from recipe_grid.recipe import Ingredient, Step, Reference, SubRecipe

from .. import sexp, rsexp, gen_desc
from ..compile_common import real_outcome, model_requests, same, brief
from . import c01

PID = "C05"
TECHNIQUE = "Lean 4 theorems on the compiler model (elaboration = written trees) + exact correspondence of compile() + conservation oracle (multiset and expansion)"
LEVEL_TEXT = ("Theorems in Lean about the compiler model, for every description: the ingredient and step nodes of the compiled recipe (outside embedded "
              "copies) are a permutation of those of the elaborated, unfolded description (compile_nodes_perm: nothing lost or duplicated by the inlining "
              "pass); every remaining root has the same reference-expanded step/ingredient tree as the elaborated root it descends from (compile_expand); "
              "the remaining roots of each block are an order-preserving selection of the written statements (compile_roots_order); with C01's "
              "elab_refines_spec the elaborated trees are exactly the written ones. The model is tied to compile() by exact equality of results.")
LEVEL_NOTE = ("Trusted: Lean kernel; compiler model as far as correspondence exercises it (generated multi-block descriptions incl. repeated identical "
              "references and chains of folds). The same three facts are re-checked on the real compile() by the conservation oracle.")
LEAN_MODULES = ["RecipeGrid.Props.C05"]
SOURCES = ["recipe_grid/compiler.py", "recipe_grid/recipe.py"]
RULE = c01.RULE + "; non-trivial here = at least one reference in the description"


def nodes(t, acc):
    """ingredient and step nodes outside embedded copies"""
    if isinstance(t, Ingredient):
        acc[("ing", repr(rsexp.c_svs(t.description)), repr(None if t.quantity is None else rsexp.c_qty(t.quantity)))] += 1
    elif isinstance(t, Step):
        acc[("step", repr(rsexp.c_svs(t.description)), len(t.inputs))] += 1
        for x in t.inputs:
            nodes(x, acc)
    elif isinstance(t, SubRecipe):
        nodes(t.sub_tree, acc)
    return acc


def expand(t):
    """pure step/ingredient tree obtained by following every reference"""
    if isinstance(t, Ingredient):
        return ("ing", repr(rsexp.c_svs(t.description)), repr(None if t.quantity is None else rsexp.c_qty(t.quantity)))
    if isinstance(t, Step):
        return ("step", repr(rsexp.c_svs(t.description)), tuple(expand(x) for x in t.inputs))
    if isinstance(t, Reference):
        return expand(t.sub_recipe.sub_tree)
    return expand(t.sub_tree)


def is_subsequence(small, big):
    it = iter(big)
    return all(any(x == y for y in it) for x in small)


def check_case(d, texts):
    out = []
    real = real_outcome(texts)
    try:
        unfolded, _ = gen_desc.meaning(d, fold=False)
    except gen_desc.Rejected:
        return out      # rejected descriptions are C01's business
    if real[0] == "exception":
        out.append(("C05:accepted-description-fails-in-the-inlining-pass", "%s: %s for %r" % (real[1], real[2], texts)))
        return out
    if real[0] != "ok":
        return out
    compiled = real[2]
    a, b = collections.Counter(), collections.Counter()
    for r in compiled:
        for t in r.recipe_trees:
            nodes(t, a)
    for r in unfolded:
        for t in r.recipe_trees:
            nodes(t, b)
    if a != b:
        lost = b - a
        extra = a - b
        out.append(("C05:nodes-lost-or-duplicated", "lost %r, extra %r" % (list(lost.items())[:3], list(extra.items())[:3])))
    if len(compiled) != len(unfolded):
        out.append(("C05:block-count-changed", ""))
        return out
    for bi, (rc, ru) in enumerate(zip(compiled, unfolded)):
        ec = [expand(t) for t in rc.recipe_trees]
        eu = [expand(t) for t in ru.recipe_trees]
        if not is_subsequence(ec, eu):
            out.append(("C05:expansion-differs-or-reordered", "block %d: expanded roots are not a subsequence of the written statements' expansions" % bi))
    return out


def correspondence(run):
    import os
    old = os.environ.get('VERIF_BUDGET_SCALE')
    os.environ['VERIF_BUDGET_SCALE'] = str(0.5 * float(old or 1))
    try:
        c01.correspondence(run)
    finally:
        if old is None:
            del os.environ['VERIF_BUDGET_SCALE']
        else:
            os.environ['VERIF_BUDGET_SCALE'] = old


def oracle(run):
    for d, texts, marks in c01.gen_cases(run, run.budget(400, 12000)):
        has_ref = "Reference" in repr(real_outcome(texts)[1:2]) or any(len(b) > 1 for b in d)
        run.case(("oracle", tuple(texts)), has_ref)
        for sig, detail in check_case(d, texts):
            run.violate(sig, detail, {"desc": repr(d), "sources": texts})


def replay(run, obj):
    r = obj["replay"]
    res = check_case(eval(r["desc"], {"Fraction": Fraction}), r["sources"])
    for x in res:
        print(*x)
    return bool(res)
