"""C20 — lint verdicts are exactly the documented mistakes, at any scale."""
from fractions import Fraction

from recipe_grid.compiler import compile as rg_compile
from recipe_grid.lint import check, LintKind
from recipe_grid.recipe import Ingredient, Step, Reference, SubRecipe, Quantity, Proportion
from recipe_grid.units import UNIT_SYSTEM

from .. import sexp, rsexp, gen_desc
from . import c01

PID = "C20"
TECHNIQUE = "Lean 4 theorems on the exact-rational lint decision procedure (scale invariance, decision table) + bit-exact correspondence of lint.check + decision-table and scale oracle"
LEVEL_TEXT = ("lint.py is modelled operation for operation on the binary64 layer (lintF) and as the same decision procedure over exact rationals (lintQ, the "
              "documented meaning). Theorems are about lintQ (verdict table; invariance under positive scaling) and the structure shared by both; lintF is "
              "tied to lint.check by exact equality of the verdict lists on compiled descriptions and generated split-use programs, deliberately "
              "including sums that land on the 2% thresholds.")
LEVEL_NOTE = ("Trusted: Lean kernel; model as far as correspondence exercises it; CPython float arithmetic/isclose = correctly rounded binary64 (validated per "
              "case). The refinement is a theorem away from the thresholds (lintF_eq_lintQ_off_threshold: if every group is off the 2% thresholds by "
              "(2n+15) units roundoff the binary64 verdicts equal the exact ones, for any number of uses; floatSum_err) for uses whose conversion factor is the "
              "same in both layers; elsewhere it is checked by the oracle. Known finding: exactly on a 2% threshold the "
              "binary64 verdict depends on rounding and so on the scale.")
LEAN_MODULES = ["RecipeGrid.Props.C20", "RecipeGrid.Props.C20b"]
SOURCES = ["recipe_grid/lint.py", "recipe_grid/scripts/recipe_grid_lint.py"]
RULE = ("split-use programs: a definition (ingredient with/without quantity and unit, processed ingredient, multi-ingredient step, explicit '=' / ':=' names, "
        "multi-output) followed by 1-4 uses as quantities (same, convertible, incompatible, unknown units), fractions, percentages, '*' and remainder forms in "
        "random order, in one or several statements and blocks, with sums on and around the 2% thresholds; plus the general descriptions of C01; scale "
        "factors from ints, Fractions and floats; non-trivial = at least two uses; distinct = distinct sources")
UN = [None, "g", "kg", "oz", "lb", "ml", "cup", "tsp", "clove", "sack", "Kg", "handful"]


def fmt_num(x):
    if isinstance(x, float) and "e" in repr(x):
        x = float("%.9f" % x)       # keep literals in plain decimal notation
        if "e" in repr(x):
            x = 0.5
    return gen_desc.number_spellings(x)[0]


def fmt_qty(v, u):
    if u is None:
        return fmt_num(v)
    if u.lower() in UNIT_SYSTEM:
        return "%s %s" % (fmt_num(v), u)
    return "{%s %s}" % (fmt_num(v), u)


def gen_uses(rng, has_total, tv, tot_unit):
    uses = []
    n = rng.choice([1, 2, 2, 3, 4])
    target = rng.choice([1, 1, Fraction(98, 100), Fraction(100, 98), Fraction(99, 100), Fraction(97, 100), Fraction(103, 100), Fraction(1, 2), Fraction(3, 2), 1])
    remaining = Fraction(target)
    for i in range(n):
        share = remaining if i == n - 1 else remaining * rng.choice([Fraction(1, 2), Fraction(1, 4), Fraction(1, 3), Fraction(49, 98)])
        remaining -= share
        k = rng.random()
        if k < 0.15:
            uses.append(rng.choice(["remaining", "rest of the", "left over", "leftover", "Leftover", "left\tover", "remainder of the", "REST of"]))
        elif k < 0.55 and has_total and tv != 0:
            u = tot_unit
            if tot_unit is not None and tot_unit.lower() in UNIT_SYSTEM and rng.random() < 0.4:
                cands = [x for x in ["g", "kg", "oz", "lb", "ml", "cup", "tsp", "l"]]
                u = rng.choice(cands)
            elif rng.random() < 0.1:
                u = rng.choice(UN)
            try:
                f = Fraction(1) if (u is None and tot_unit is None) else Fraction(UNIT_SYSTEM.convert_between(tot_unit.lower(), u.lower()))
            except Exception:
                f = Fraction(1)
            q = share * Fraction(tv) * f
            v = q if q.denominator in (1, 2, 4, 5, 8, 10, 20, 25, 50, 100) else float(q)
            if isinstance(v, Fraction) and v.denominator == 1:
                v = int(v)
            elif isinstance(v, Fraction) and rng.random() < 0.5:
                v = float(v)
            if isinstance(v, float) and "e" in repr(v):
                v = round(v, 6)
            uses.append(fmt_qty(v, u))
        elif k < 0.65:
            uses.append(fmt_qty(rng.choice([1, 5, 2.5]), rng.choice(UN)))
        elif k < 0.8:
            uses.append("%s of" % fmt_num(share if share.denominator < 1000 else float(share)))
        elif k < 0.9:
            p = share * 100
            uses.append("%s%%" % fmt_num(int(p) if p.denominator == 1 else float(p)))
        else:
            uses.append("%s *" % fmt_num(float(share)))
    rng.shuffle(uses)
    return uses


def gen_split(rng):
    tot_unit = rng.choice(UN)
    tv = rng.choice([1, 2, 10, 100, 250, 0.5, 1.5, 20.0, Fraction(3, 2), 500, 0, 0.0])
    kind = rng.choice(["ing", "ing", "ing", "step", "noqty", "two", "named", "named2", "multi", "titled"])
    name = "thing"
    if kind == "ing":
        lines = ["%s %s" % (fmt_qty(tv, tot_unit), name)]
    elif kind == "step":
        lines = ["%s %s, chopped, washed" % (fmt_qty(tv, tot_unit), name)]
    elif kind == "noqty":
        lines = [name]
    elif kind == "two":
        lines = ["%s = mix(%s a, 2 b)" % (name, fmt_qty(tv, tot_unit))]
    elif kind == "named":
        lines = ["%s = %s raw" % (name, fmt_qty(tv, tot_unit))]
    elif kind == "named2":
        lines = ["%s := %s raw, chopped" % (name, fmt_qty(tv, tot_unit))]
    elif kind == "titled":
        # a titled sub recipe folded into the split one: the linter looks through single-input steps only, not through a title - no known total
        lines = ["base := %s raw%s" % (fmt_qty(tv, tot_unit), rng.choice(["", ", sieved"])), "%s = %s" % (name, rng.choice(["base, boiled down", "reduce(base)", "base, boiled, cooled"]))]
    else:
        lines = ["%s, other = split(%s raw)" % (name, fmt_qty(tv, tot_unit))]
    has_total = kind in ("ing", "step", "named", "named2")
    named_uses = [(name, gen_uses(rng, has_total, tv, tot_unit))]
    if kind == "multi" and rng.random() < 0.7:
        # the other output of the same statement is used too, with verdicts of its own (in either order relative to the first output's uses)
        named_uses.append(("other", gen_uses(rng, False, tv, tot_unit)))
        if rng.random() < 0.5:
            named_uses.reverse()
    blocks = [lines]
    cur = blocks[0]
    for nm, uses in named_uses:
        i = 0
        while i < len(uses):
            m = rng.randint(1, len(uses) - i)
            stmt = "%s(%s)" % (rng.choice(["mix", "fry"]), ", ".join("%s %s" % (u, nm) for u in uses[i:i + m]) + (", salt" if rng.random() < 0.3 else ""))
            if rng.random() < 0.2:
                stmt = "part%s%d = %s" % (nm[0], i, stmt)
            if rng.random() < 0.25:
                cur = []
                blocks.append(cur)
            cur.append(stmt)
            i += m
    return ["\n".join(b) for b in blocks if b]


def real_kinds(recipes):
    try:
        return [l.kind.name for l in check(recipes)]
    except ZeroDivisionError:
        return "ZeroDivisionError"


def correspondence(run):
    rng = run.rng
    srcs = [gen_split(rng) for _ in range(run.budget(700, 15000))]
    for d, t, _ in c01.gen_cases(run, run.budget(200, 4000)):
        srcs.append(t)
    cases = []
    for t in srcs:
        try:
            rs = rg_compile(list(t))
        except Exception:
            continue
        k = rng.choice([1, 1, 2, 10, Fraction(1, 3), 0.5, 3])
        cases.append((t, [r.scale(k) for r in rs] if k != 1 else rs, k))
    rep = run.ask([sexp.tag("lint", "F", rsexp.blocks(rs)) for _, rs, _ in cases])
    for (t, rs, k), m in zip(cases, rep):
        impl = real_kinds(rs)
        model = "ZeroDivisionError" if m is None else list(m)
        run.case(("lint", tuple(t), repr(k)), sum(x.count("thing") for x in t) > 2, kind=",".join(impl) if isinstance(impl, list) else impl,
                 sample={"sources": t, "scale": repr(k), "verdicts": impl})
        run.groups["lint.check"] += 1
        if impl != model:
            run.disagree("lint", {"sources": list(t), "scale": repr(k)}, impl, model)


# ------------------------------------------------------------------ the documented meaning, exact
def exact_conv(a, b):
    f = UNIT_SYSTEM.convert_between(a, b)
    return Fraction(repr(f)) if isinstance(f, float) else Fraction(f)


def top_refs(t, acc):
    if isinstance(t, Reference):
        acc.append(t)
    elif isinstance(t, Step):
        for x in t.inputs:
            top_refs(x, acc)
    elif isinstance(t, SubRecipe):
        top_refs(t.sub_tree, acc)


def implicit_subs(t, acc):
    if isinstance(t, SubRecipe):
        if len(t.output_names) == 1 and not t.show_output_names:
            acc.append(t)
        implicit_subs(t.sub_tree, acc)
    elif isinstance(t, Step):
        for x in t.inputs:
            implicit_subs(x, acc)


def lint_exact(recipes):
    """returns (kinds, [(u, on_threshold)]) per the documentation, over exact rationals; 'crash' marks a zero total"""
    roots = [t for r in recipes for t in r.recipe_trees]
    refs, imps = [], []
    for t in roots:
        top_refs(t, refs)
        implicit_subs(t, imps)
    kinds = []
    seen = []
    zero_total = [False]
    for s_ in imps:
        key = rsexp.c_tree(s_)
        if key in seen:
            continue
        seen.append(key)
        if not any(rsexp.c_tree(r.sub_recipe) == key for r in refs):
            kinds.append("unused_ingredient")
    groups = []
    for r in refs:
        key = (rsexp.c_tree(r.sub_recipe), r.output_index)
        for g in groups:
            if g[0] == key:
                g[1].append(r)
                break
        else:
            groups.append((key, [r]))
    # dict-of-dicts order: by sub recipe first occurrence, then output index first occurrence
    order = []
    for key, rs in groups:
        if key[0] not in [o for o in order]:
            order.append(key[0])
    groups.sort(key=lambda g: order.index(g[0][0]))
    us = []
    for key, rs in groups:
        sub = rs[0].sub_recipe
        node = sub.sub_tree
        while isinstance(node, Step) and len(node.inputs) == 1:
            node = node.inputs[0]
        total = node.quantity if isinstance(node, Ingredient) and len(sub.output_names) == 1 else None
        if total is not None and total.value == 0:
            total = None       # a zero total cannot be divided up: no known total
            zero_total[0] = True
        u, problem = Fraction(0), False
        near_rem = False
        for r in rs:
            a = r.amount
            if isinstance(a, Quantity):
                if total is None:
                    problem = True
                    kinds.append("sub_recipe_quantity_unknown")
                    continue
                if (a.unit is None) != (total.unit is None):
                    problem = True
                    kinds.append("sub_recipe_reference_incompatible_units")
                    continue
                if a.unit is None:
                    c = Fraction(1)
                else:
                    try:
                        c = exact_conv(a.unit.lower(), total.unit.lower())
                    except KeyError:
                        problem = True
                        kinds.append("sub_recipe_reference_incompatible_units")
                        continue
                u += Fraction(a.value) * c / Fraction(total.value)
            elif a.value is None:
                if abs(u - 1) <= Fraction(1, 10 ** 9):
                    near_rem = True      # the "anything left?" comparison happens exactly on its threshold
                if u >= 1:
                    problem = True
                    kinds.append("sub_recipe_reference_non_positive_remainder")
                u = max(Fraction(1), u)
            else:
                u += Fraction(a.value)
        if not problem:
            if abs(u - 1) <= Fraction(2, 100) * max(u, 1):
                pass
            elif u < 1:
                kinds.append("sub_recipe_not_used_up")
            else:
                kinds.append("sub_recipe_used_too_much")
        # distance from the thresholds (0.98, 1/0.98, and 1 for the remainder test), relative
        near = near_rem or (not problem and min(abs(u - Fraction(98, 100)), abs(u - Fraction(100, 98))) <= Fraction(1, 10 ** 9))
        us.append((u, near))
    return kinds, us, zero_total[0]


def check_sources(texts, factors):
    out = []
    try:
        rs = rg_compile(list(texts))
    except Exception:
        return out
    exp = lint_exact(rs)
    got = real_kinds(rs)
    if got == "ZeroDivisionError":
        zero = exp[2]
        out.append(("C20:ZeroDivisionError:zero-total" if zero else "C20:ZeroDivisionError:other", "check() raised ZeroDivisionError on %r" % (texts,)))
        return out
    near = any(n for _, n in exp[1])
    if sorted(got) != sorted(exp[0]) or (got != exp[0] and False):
        if near:
            out.append(("C20:verdict-differs-from-documented-meaning:exactly-on-threshold", "%r: %r, documented %r" % (texts, got, exp[0])))
        else:
            out.append(("C20:verdict-differs-from-documented-meaning", "%r: reported %r, documented %r" % (texts, got, exp[0])))
    for k in factors:
        try:
            gk = real_kinds([r.scale(k) for r in rs])
        except Exception as e:  # noqa
            out.append(("C20:lint-of-scaled-recipe-raises", repr(e)))
            continue
        if gk != got:
            out.append(("C20:verdict-changes-under-scaling:" + ("exactly-on-threshold" if near else "off-threshold"),
                        "%r: %r at scale 1, %r at scale %r" % (texts, got, gk, k)))
    return out


def run_cli(argv):
    """the recipe-grid-lint entry point, in process: (exit status, stdout lines)"""
    import contextlib
    import io
    import sys
    from recipe_grid.scripts import recipe_grid_lint
    buf = io.StringIO()
    old = sys.argv
    sys.argv = ["recipe-grid-lint"] + list(argv)
    try:
        with contextlib.redirect_stdout(buf), contextlib.redirect_stderr(io.StringIO()):
            try:
                recipe_grid_lint.main()
                code = 0
            except SystemExit as e:
                code = e.code if isinstance(e.code, int) else (0 if e.code is None else 1)
    finally:
        sys.argv = old
    return code, [l for l in buf.getvalue().splitlines() if l.strip()]


def md_of(texts):
    """one Markdown document: texts is the list of blocks of one recipe, or a list of such lists = several independent recipes"""
    if texts and isinstance(texts[0], (list, tuple)):
        parts = []
        for gi, group in enumerate(texts):
            for bi, t in enumerate(group):
                parts.append("```%s\n%s\n```" % ("new-recipe" if (gi and bi == 0) else "recipe", t))
        return "# T\n\n" + "\n\ntext\n\n".join(parts) + "\n"
    return "# T\n\n" + "\n\ntext\n\n".join("\n".join("    " + l for l in t.split("\n")) for t in texts) + "\n"


def check_cli(files, ignore):
    """files: list of source lists (one Markdown file each, or the string 'BROKEN'); the command's exit status is non-zero
    exactly if some file has a finding that is not ignored (or does not compile) and every such finding is printed"""
    import tempfile
    import shutil as _sh
    import os
    from recipe_grid.markdown import compile_markdown
    out = []
    scratch = tempfile.mkdtemp(prefix="rg-c20-")
    try:
        paths, want_lines, near = [], 0, False
        for i, texts in enumerate(files):
            pth = os.path.join(scratch, "r%d.md" % i)
            doc = "# T\n\n    x = 1 egg\n    x = 2 eggs\n" if texts == "BROKEN" else md_of(texts)
            open(pth, "w").write(doc)
            paths.append(pth)
            if texts == "BROKEN":
                want_lines += 1
                continue
            try:
                # the independent recipes of the document, each compiled directly from its block texts
                groups = texts if (texts and isinstance(texts[0], (list, tuple))) else [texts]
                rs = [rg_compile(list(g)) for g in groups]
            except Exception:
                want_lines += 1
                continue
            kinds = []
            for r in rs:
                exp = lint_exact(r)
                near = near or any(n for _, n in exp[1])
                kinds += exp[0]
            want_lines += len([k for k in kinds if k not in ignore])
        argv = paths[:]
        if ignore:
            argv = ["--ignore"] + list(ignore) + ["--"] + argv
        code, lines = run_cli(argv)
        lines = [l for l in lines if any(l.startswith(pth + ": Warning: ") or l.startswith(pth + ": Error: ") for pth in paths)]
        if near:
            return out
        if (code != 0) != (want_lines > 0):
            out.append(("C20:command-exit-status-wrong", "files %r ignore %r: exit %r, %d findings expected; printed %r" % (files, ignore, code, want_lines, lines[:4])))
        elif len(lines) != want_lines:
            out.append(("C20:command-findings-not-all-printed", "files %r ignore %r: %d lines printed, %d findings expected: %r" % (files, ignore, len(lines), want_lines, lines[:4])))
        return out
    finally:
        _sh.rmtree(scratch, ignore_errors=True)


CORPUS = [["20.0 g x\nf(9.8 g x, 9.8 g x)"], ["0g flour\nmix(1/2 of flour, 1/2 of flour)"], ["0 g flour\nmix(1 g flour, 1 g flour)"],
          ["1 egg\nmeal = fry(1/2 of egg), serve\nx = boil(1/2 of egg)\neat(1/2 of meal, 1/2 of x)"], ["1 egg\nfry(eggs, oil)"],
          ["2 eggs\nfry(1/2 of the eggs)\nboil(remaining eggs)"], ["500 g flour\nmix(250 g flour)\nbake(0.25 kg flour)"],
          ["500 g flour\nmix(1 cup flour, rest of the flour)"], ["flour\nmix(100 g flour, 100 g flour)"], ["1 kg x\nf(remaining x, remaining x)"],
          ["1 kg x\nf(60% x, 60% x)"], ["1 kg sauce\ntop(1 base, 1/2 of the sauce)\ntop(1 base, 1/2 of the sauce)"],
          ["1 kg sauce\ntop(1 base, 1/2 of the sauce)\ntop(1 base, 1/2 of the sauce)\ntop(1 base, 1/2 of the sauce)"],
          ["1 kg x\nf(990 g x, remaining x)"], ["1 lb butter\ncream(450 g butter)\nmelt(rest of the butter)"], ["1 kg x\nf(99% x)\ng(rest of x)"],
          ["1 kg x\nf(970 g x, remaining x)"], ["1 kg x\nf(1000 g x, remaining x)"], ["1 L milk\nheat(500 ml milk)\nwhisk(0.5 l milk)"], ["1 kg x\nf(1/3 of x, 1/3 of x)"], ["a, b = split(1 kg x)\nf(1/2 of a, 1/2 of a)\ng(b)"]]


# documented verdicts written by hand (the exact meaning computed by lint_exact looks at the compiled recipe, so it cannot see a sub recipe that
# was wrongly folded into a use that is not the whole of it): a single use a few per cent off the whole must be reported
EXPECTED = [
    (["1kg spam\nfry(960g of spam, eggs)"], ["sub_recipe_not_used_up"]),
    (["1 pint milk\nheat(550ml of milk, sugar)"], ["sub_recipe_not_used_up"]),
    (["100 peas\nboil(97 peas, water)"], ["sub_recipe_not_used_up"]),
    (["100 peas\nboil(103 peas, water)"], ["sub_recipe_used_too_much"]),
    (["1kg spam\nfry(1000g of spam, eggs)"], []),
    (["1kg spam\nfry(995g of spam, eggs)"], []),
    (["100 peas\nboil(100 peas, water)"], []),
    (["2 onions\nfry(1 onions)\nboil(1 onions)"], []),
    (["2 onions\nfry(1 onions)"], ["sub_recipe_not_used_up"]),
    (["1 egg\nfry(eggs, oil)"], ["unused_ingredient"]),
    # chains of definitions used once by the full quantity (each link is folded into the next: nothing to report), with a titled link,
    # a free-form unit, a conversion; and the same chains used in two halves / only in part
    (["fried spam := fry(100g spam)\nmeal = boil(fried spam)\nserve(100g of meal)"], []),
    (["100g spam\nfried spam := fry(spam)\nmeal = boil(fried spam)\nserve(0.1 kg of meal, peas)"], []),
    (["{2 handfuls} rice\ncooked rice = boil(rice)\ndinner = season(cooked rice)\nserve({2 handfuls} of dinner)"], []),
    (["100g spam\nfried spam = fry(spam)\nmeal = boil(fried spam)\nserve(50g of meal)\nfreeze(50 g of meal)"], []),
    (["100g spam\nfried spam = fry(spam)\nmeal = boil(fried spam)\nserve(50g of meal)"], ["sub_recipe_not_used_up"]),
    (["100g spam\nfried spam = fry(spam)\nmeal = boil(fried spam)\nserve(60g of meal)\nfreeze(60g of meal)"], ["sub_recipe_used_too_much"]),
    # with a titled link - 'passata := ...' - the linter does not look through the title: two partial uses by quantity have no known total
    # (the compiler does look through it when it decides whether one use takes the whole)
    (["passata := 400g tomatoes, sieved\nsauce = passata, boiled down\npizza = top(base, 200g of sauce)\ndip = mix(100g of sauce, herbs)\nserve(pizza, dip)"],
     ["sub_recipe_quantity_unknown", "sub_recipe_quantity_unknown"]),
    # more than there is, written as one proportion above one (alone, or with a little more elsewhere)
    (["1 l stock\nsoup(150% of the stock, noodles)"], ["sub_recipe_used_too_much"]), (["1 l stock\nsoup(1.5 * stock, noodles)"], ["sub_recipe_used_too_much"]),
    (["1 l stock\nsoup(3/2 of the stock, noodles)"], ["sub_recipe_used_too_much"]), (["1 l stock\nsoup(120% of the stock)\nrisotto(1% of the stock, rice)"], ["sub_recipe_used_too_much"]),
    (["1 l stock\nsoup(2 of the stock, noodles)"], ["sub_recipe_used_too_much"]),
    # a sub recipe made of a share of another one has no known total of its own
    (["1kg flour\nstarter = 1/2 of the flour, fermented\nbake(1kg starter, rest of the flour)"], ["sub_recipe_quantity_unknown"]),
    # (but a sub recipe that takes ALL of another is that other one, folded in: its total is known)
    (["1kg flour\nstarter = rest of the flour, fermented\nbake(500g starter)\nfeed(500g starter)"], []),
    # every documented spelling of the remainder
    (["1 kg x\nf(1/2 of x)\ng(leftover x)"], []), (["1 kg x\nf(1/2 of x)\ng(Leftover x, salt)"], []), (["1 kg x\nf(1/2 of x)\ng(left over x)"], []),
    (["1 kg x\nf(1 kg x)\ng(leftover x)"], ["sub_recipe_reference_non_positive_remainder"]), (["1 kg x\nf(remainder of the x)\ng(rest x)"], ["sub_recipe_reference_non_positive_remainder"]),
    # several outputs of one statement, each with its own verdict, in either order
    (["veg, stock = boil(2 carrots)\nsoup(200ml of stock)\nserve(1/2 of veg)"], ["sub_recipe_quantity_unknown", "sub_recipe_not_used_up"]),
    (["veg, stock = boil(2 carrots)\nserve(1/2 of veg)\nsoup(200ml of stock)"], ["sub_recipe_quantity_unknown", "sub_recipe_not_used_up"]),
    (["veg, stock = boil(2 carrots)\nserve(1/2 of veg, 3/4 of veg)\nsoup(1/2 of stock)"], ["sub_recipe_used_too_much", "sub_recipe_not_used_up"]),
]


def check_expected():
    out = []
    for texts, want in EXPECTED:
        try:
            rs = rg_compile(list(texts))
            got = real_kinds(rs)
            scaled = [real_kinds([r.scale(k) for r in rs]) for k in (3, Fraction(1, 2))]
        except Exception as e:  # noqa
            out.append(("C20:lint-raises:%s" % type(e).__name__, "%r" % (texts,)))
            continue
        if sorted(got) != sorted(want):
            out.append(("C20:verdict-differs-from-documented-meaning", "%r: reported %r, documented %r" % (texts, got, want)))
        elif any(sorted(g) != sorted(want) for g in scaled):
            out.append(("C20:verdict-changes-under-scaling:off-threshold", "%r: %r when scaled, %r unscaled" % (texts, scaled, got)))
    return out


def oracle(run):
    rng = run.rng
    run.case(("expected",), True, kind="hand-written-verdicts")
    for sig, detail in check_expected():
        run.violate(sig, detail, {"expected": True})
    srcs = list(CORPUS) + [gen_split(rng) for _ in range(run.budget(700, 15000))]
    for d, t, _ in c01.gen_cases(run, run.budget(150, 4000)):
        srcs.append(t)
    for t in srcs:
        factors = [rng.choice([2, 3, 10]), rng.choice([Fraction(1, 3), Fraction(7, 2)]), rng.choice([0.5, 2.5, 10.0])]
        run.case(("oracle", tuple(t)), True)
        seen = set()
        for sig, detail in check_sources(t, factors):
            if sig not in seen:
                seen.add(sig)
                run.violate(sig, detail, {"sources": list(t), "factors": [repr(f) for f in factors]})
    # the command-line wrapper: exit status and printed findings over several files, with --ignore
    kinds_all = [k.name for k in LintKind]
    clean = [["1 egg\nfry(egg)"], ["2 eggs\nfry(1/2 of the eggs)\nboil(remaining eggs)"]]
    dirty = [t for t in srcs[:60]]
    for i in range(run.budget(40, 600)):
        n = rng.choice([1, 1, 2, 3])
        files = [rng.choice(dirty if rng.random() < 0.6 else clean) if rng.random() < 0.93 else "BROKEN" for _ in range(n)]
        if i % 3 == 0:
            # one document holding several independent recipes, some of them beginning with the very same block
            a, b = rng.choice(dirty + clean), rng.choice(dirty + clean)
            files[0] = rng.choice([[list(a), list(a)], [list(a), list(b)], [list(a), list(b), list(a)]])
        if i % 5 == 0 and n > 1:
            files[-1] = rng.choice(clean)            # a finding in an earlier file must not be forgotten
        ignore = rng.sample(kinds_all, rng.choice([0, 0, 1, 2, 3]))
        run.case(("cli", repr(files), tuple(ignore)), True, kind="cli")
        for sig, detail in check_cli(files, ignore):
            run.violate(sig, detail, {"cli_files": files, "ignore": ignore})


def replay(run, obj):
    r = obj["replay"]
    if r.get("expected"):
        res = check_expected()
        for x in res:
            print(*x)
        return bool(res)
    if "cli_files" in r:
        res = check_cli(r["cli_files"], r["ignore"])
        for x in res:
            print(*x)
        return bool(res)
    res = check_sources(r["sources"], [eval(f, {"Fraction": Fraction}) for f in r["factors"]])
    for x in res:
        print(*x)
    return bool(res)
