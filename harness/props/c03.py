"""C03 — scaling multiplies exactly the scalable numbers and nothing else."""
from fractions import Fraction

from recipe_grid.recipe import Ingredient, Step, Reference, SubRecipe, Quantity, Proportion, Recipe

from .. import sexp, rsexp, gen_trees

PID = "C03"
TECHNIQUE = "Lean 4 theorems by structural induction on the recipe model + exact correspondence of Recipe.scale"
LEVEL_TEXT = ("Theorems in Lean about the executable model of Recipe.scale / ScaledValueString.scale: the scalable numbers of the result are k times "
              "those of the input, the frame (structure, text, units, proportions) is unchanged, scaling by 1 is the identity and scaling composes "
              "for exact numbers, validity is preserved - for all recipes and factors; model tied to the code by exact equality of scaled recipes. "
              "Whole pages (C03e): renderDoc_template / renderDoc_canonical - MarkdownRecipe.render(k) is the document's template with every hole (prose value, "
              "recipe block, header) filled by its value at factor k, for every k (under ChainOK: no placeholder occurs in literal text or in a rendered value, "
              "decidable and checked per document); page_numbers_scaled (unconditional): the numbers shown on the page at factor k, in reading order, are the "
              "written numbers each multiplied by k - nothing added, dropped or reordered; page_frame_invariant: the literal HTML and the frames of all values "
              "and trees are the same at every factor; prose_value_rendered; mul_exact / mul_float; the shown numbers are compared with the real render(k) and "
              "the real stand-alone page.")
LEVEL_NOTE = ("Trusted: Lean kernel; the hand-written model as far as correspondence exercises it; Python arithmetic = exact rationals / correctly "
              "rounded doubles (validated bit-exactly per case). Float composition is the bounded theorem scale_twice_close_tree (two scalings vs one: within 6 units roundoff, "
              "from toDouble_err: |toDouble x - x| <= |x| / 2^53 for every rational x; binary64 overflow/subnormals are outside the model); "
              "compile/scale commutation is a theorem for exact factors and exact literals under the hypothesis that no inlining "
              "test sits on the edge of its float tolerance (compile_scale_commute; elab_scale_commute unconditionally; the unconditional statement is "
              "refuted in the kernel, compile_scale_commute_Full_false - a recorded finding; compile_scale_commute_offEdge replaces the hypothesis by a decidable "
              "condition in exact rational arithmetic: no two written quantities differ by the 1e-9 tolerance to within a relative 2^-21); Markdown prose and whole documents are checked by the oracle.")
LEAN_MODULES = ["RecipeGrid.Props.C03", "RecipeGrid.Props.C03b", "RecipeGrid.Props.C03c", "RecipeGrid.Props.C03d", "RecipeGrid.Props.C03e"]
SOURCES = ["recipe_grid/recipe.py", "recipe_grid/scaled_value_string.py", "recipe_grid/markdown.py", "recipe_grid/static_site/standalone_page.py"]
RULE = ("multi-block recipes built with the real constructors (references to earlier sub recipes incl. multi-output, nested sub recipes, every amount form, "
        "numbers int/Fraction/float in names) and compiled descriptions, times factors from positive ints, Fractions and floats; non-trivial = at least "
        "one scalable number; distinct = distinct (recipe, factor)")


def gen_factor(rng):
    k = rng.random()
    if k < 0.3:
        return rng.choice([1, 2, 3, 10, 7, rng.randint(1, 1000)])
    if k < 0.7:
        return Fraction(rng.randint(1, 40), rng.randint(1, 40))
    return rng.choice([0.5, 1.5, 2.25, 0.125, 1.0, 0.1, 3.3, rng.randint(1, 10 ** 4) / 10 ** rng.randint(1, 3)])


def scalables(t, out):
    if isinstance(t, Ingredient):
        out.extend(p for p in t.description._string if not isinstance(p, str))
        if t.quantity is not None:
            out.append(t.quantity.value)
    elif isinstance(t, Step):
        out.extend(p for p in t.description._string if not isinstance(p, str))
        for x in t.inputs:
            scalables(x, out)
    elif isinstance(t, Reference):
        scalables(t.sub_recipe, out)
        if isinstance(t.amount, Quantity):
            out.append(t.amount.value)
    elif isinstance(t, SubRecipe):
        scalables(t.sub_tree, out)
        for n in t.output_names:
            out.extend(p for p in n._string if not isinstance(p, str))
    return out


def erase(c):
    """canonical tree (rsexp.c_tree) with every scalable number replaced by 0"""
    k = c[0]
    z = ("int", 0)

    def svs(ps):
        return [p if p[0] == "t" else ("n", z) for p in ps]

    def q(v):
        return None if v is None else ("q", z) + tuple(v[2:])
    if k == "ing":
        return ("ing", svs(c[1]), q(c[2]))
    if k == "step":
        return ("step", svs(c[1]), [erase(x) for x in c[2]])
    if k == "ref":
        a = c[3]
        return ("ref", erase(c[1]), c[2], ("qty", q(a[1])) if a[0] == "qty" else a)
    return ("sub", erase(c[1]), [svs(n) for n in c[2]], c[3])


def exact(x):
    return not isinstance(x, float)


def check_case(recipes, k, k2):
    out = []
    try:
        scaled = [r.scale(k) for r in recipes]
    except Exception as e:  # noqa
        return [("C03:scale-raises", "scale(%r) raised %r" % (k, e))]
    a, b = [], []
    for r in recipes:
        for t in r.recipe_trees:
            scalables(t, a)
    for r in scaled:
        for t in r.recipe_trees:
            scalables(t, b)
    if len(a) != len(b) or any(type(x * k) is not type(y) or x * k != y for x, y in zip(a, b)):
        out.append(("C03:numbers-not-multiplied", "scalable numbers %r scaled by %r gave %r" % (a[:8], k, b[:8])))
    if [[erase(rsexp.c_tree(t)) for t in r.recipe_trees] for r in recipes] != [[erase(rsexp.c_tree(t)) for t in r.recipe_trees] for r in scaled]:
        out.append(("C03:frame-changed", "something other than a scalable number changed under scale(%r)" % (k,)))
    # follows chain is scaled consistently
    for i, r in enumerate(scaled):
        if (r.follows is None) != (i == 0) or (i > 0 and rsexp.c_blocks([r.follows]) != rsexp.c_blocks([scaled[i - 1]])):
            out.append(("C03:follows-not-scaled", "block %d" % i))
    # references point at the scaled sub recipes (validity): rebuild the chain from scratch
    try:
        prev = None
        for r in scaled:
            prev = Recipe(r.recipe_trees, prev)
    except Exception as e:  # noqa
        out.append(("C03:scaled-recipe-invalid", repr(e)))
    if rsexp.c_blocks([r.scale(1) for r in recipes]) != rsexp.c_blocks(recipes):
        out.append(("C03:scale-one-not-identity", ""))
    if exact(k) and exact(k2):
        lhs = [r.scale(k).scale(k2) for r in recipes]
        rhs = [r.scale(k * k2) for r in recipes]
        if all(exact(x) for x in a):
            if rsexp.c_blocks(lhs) != rsexp.c_blocks(rhs):
                out.append(("C03:composition-fails", "scale(%r) then scale(%r) != scale(%r)" % (k, k2, k * k2)))
        else:
            x, y = [], []
            for r in lhs:
                for t in r.recipe_trees:
                    scalables(t, x)
            for r in rhs:
                for t in r.recipe_trees:
                    scalables(t, y)
            for u, v in zip(x, y):
                if abs(Fraction(u) - Fraction(v)) > abs(Fraction(v)) * Fraction(6, 2 ** 53):
                    out.append(("C03:composition-fails-float", "%r vs %r" % (u, v)))
                    break
    return out


# ------------------------------------------------------------------ compile/scale commutation, Markdown prose, standalone page
def scale_name(name, k):
    return tuple(p if isinstance(p, str) else p * k for p in name)


def scale_amount(a, k):
    if a is not None and a[0] in ("qty", "xqty"):
        return (a[0], a[1] * k) + tuple(a[2:])
    return a


def scale_expr(e, k):
    if e[0] == "step":
        return ("step", scale_name(e[1], k), [scale_expr(x, k) for x in e[2]])
    return ("leaf", scale_amount(e[1], k), scale_name(e[2], k))


def scale_desc(d, k):
    return [[(None if outs is None else [scale_name(o, k) for o in outs], named, scale_expr(e, k)) for outs, named, e in block] for block in d]


def desc_is_exact(d):
    def nums(e):
        if e[0] == "step":
            yield from (p for p in e[1] if not isinstance(p, str))
            for x in e[2]:
                yield from nums(x)
        else:
            if e[1] is not None and e[1][0] in ("qty", "xqty", "prop", "pct", "times"):
                yield e[1][1]
            yield from (p for p in e[2] if not isinstance(p, str))
    for block in d:
        for outs, named, e in block:
            for o in outs or []:
                if any(isinstance(p, float) for p in o):
                    return False
            if any(isinstance(x, float) for x in nums(e)):
                return False
    return True


def tables_html(recipes):
    from recipe_grid.renderer.html import render_recipe_tree
    return [[render_recipe_tree(t, "r-") for t in r.recipe_trees] for r in recipes]


def check_commute(d, k):
    """scaling after compilation yields the same tables as compiling a source whose scalable numbers were multiplied beforehand"""
    from .. import gen_desc
    from recipe_grid.compiler import compile as rg_compile
    sp = gen_desc.Spelling(None)
    try:
        a = rg_compile(gen_desc.print_desc(d, sp)[0])
    except Exception:
        return []
    try:
        b = rg_compile(gen_desc.print_desc(scale_desc(d, k), sp)[0])
    except Exception as e:  # noqa
        return [("C03:premultiplied-source-does-not-compile", repr(e)[:200])]
    if tables_html([r.scale(k) for r in a]) != tables_html(b):
        sig = "C03:scale-after-compile-differs-from-compile-of-premultiplied-source"
        if at_tolerance_edge(d):
            # the inlining test (Quantity.has_equal_value_to: math.isclose on binary64, rel_tol 1e-9) is decided by rounding
            sig += ":inline-test-at-edge-of-1e-9-tolerance"
        return [(sig, "factor %r: %r" % (k, gen_desc.print_desc(d, sp)[0]))]
    return []


def quantity_values(d):
    def go(e):
        if e[0] == "step":
            for x in e[2]:
                yield from go(x)
        elif e[1] is not None and e[1][0] in ("qty", "xqty"):
            yield Fraction(e[1][1])
    for block in d:
        for outs, named, e in block:
            yield from go(e)


def at_tolerance_edge(d):
    """some two written quantities differ, in exact arithmetic, by a relative amount within 1e-9 * 2^-21 of the 1e-9 tolerance: the
    negation of the hypothesis OffEdge of the theorem RG.C03.compile_scale_commute_offEdge (here without unit conversion)"""
    vs = sorted(set(quantity_values(d)))
    tol = Fraction(1, 10 ** 9)
    for i, x in enumerate(vs):
        for y in vs[i + 1:]:
            m = max(abs(x), abs(y))
            if m and abs(abs(x - y) / m - tol) <= tol / 2 ** 21:
                return True
    return False


# recorded finding (found by the Lean proof attempt of compile_scale_commute: the unconditional statement is false): the amount of the single
# reference differs from the definition's by 1e-9 * (1 - 1e-7 or so); unscaled the binary64 test says "equal" (inlined), scaled by 3/2 it says "different"
EDGE_DESC = [[(None, False, ("leaf", ("qty", Fraction(180143984914675851, 180143985094819840), None, "", ""), ("flour",))),
              (None, False, ("step", ("fry",), [("leaf", ("qty", 1, None, "", ""), ("flour",))]))]]


def _l(name, amt=None):
    return ("leaf", amt, (name,))


# whether a definition is folded into its single use must not depend on the size of the numbers: amounts that agree only when rounded for display
COMMUTE_CORPUS = [
    [[(None, False, _l("butter", ("qty", 1, "lb", " ", ""))), (None, False, ("step", ("cream",), [_l("butter", ("qty", 454, "g", " ", "")), _l("sugar")]))]],
    [[(None, False, _l("milk", ("qty", 1, "pint", " ", ""))), (None, False, ("step", ("warm",), [_l("milk", ("qty", 568, "ml", " ", " of the"))]))]],
    [[(None, False, _l("flour", ("qty", 1, "kg", "", ""))), (None, False, ("step", ("sift",), [_l("flour", ("qty", 1000, "g", "", ""))]))]],
    [[(None, False, _l("eggs", ("qty", 3, None, "", ""))), (None, False, ("step", ("beat",), [_l("eggs", ("qty", 3, None, "", ""))])),
      (None, False, ("step", ("boil",), [_l("eggs", ("qty", 3, None, "", ""))]))]],
    # a name with a number in braces and a name with the same digits as plain text are different names at every scale, also at the scales at
    # which they read the same ({1} x 2 = 2, {6} x 1/2 = 3, {2} x 3 = 6)
    [[([("tray ", 1)], False, ("step", ("bake",), [_l("dough", ("qty", 500, "g", " ", ""))])), (None, False, ("step", ("fill",), [_l("tray 2"), _l("jam")])),
      (None, False, ("step", ("stack",), [("leaf", None, ("tray ", 1)), _l("cream")]))]],
    [[([("tin ", 6)], False, ("step", ("line",), [_l("paper")])), ([("tin 3",)], False, ("step", ("grease",), [_l("butter")])),
      (None, False, ("step", ("fill",), [("leaf", None, ("tin ", 6)), _l("tin 3"), _l("tin 12"), _l("tin 18")]))]],
    [[([("batch ", 2, " of dough")], True, ("step", ("knead",), [_l("flour", ("qty", 2, "kg", " ", ""))])),
      (None, False, ("step", ("shape",), [("leaf", ("prop", Fraction(1, 2), " of the"), ("batch ", 2, " of dough")), _l("batch 4 of dough"), _l("batch 6 of dough"), _l("batch 1 of dough")]))]],
    # a proportion above one written as a whole number with a preposition stays a proportion (it is not a count that scales)
    [[(None, False, _l("eggs", ("qty", 6, None, "", ""))), ([("egg wash",)], False, ("step", ("mix",), [("leaf", ("prop", Fraction(1, 3), " of the"), ("eggs",)), _l("milk", ("qty", 50, "ml", "", ""))])),
      ([("dough",)], False, ("step", ("knead",), [("leaf", ("rem", "remaining", ""), ("eggs",)), _l("flour", ("qty", 500, "g", "", ""))])),
      (None, False, ("step", ("brush",), [_l("dough"), ("leaf", ("prop", 2, " of the"), ("egg wash",))]))]],
    [[([("stock",)], False, ("step", ("boil",), [_l("bones", ("qty", 1, "kg", " ", ""))])), (None, False, ("step", ("soup",), [("leaf", ("prop", 3, " of"), ("stock",)), _l("salt")]))]],
]


MD_DOC = """# Pie for %(n)d

Roll {%(a)s} sheets and cut {%(b)s} rounds of 10cm.

    %(q)s g flour
    pastry = mix(flour, {%(c)s} eggs)
    bake(pastry, 2 kg apples)

Serve in {%(a)s} bowls.
"""


def svalues(html, in_blocks):
    from .. import htmltok
    root, _ = htmltok.tree(html)
    out = []
    for n in root.iter():
        if "rg-scaled-value" in n.classes():
            inside = False
            p = n.parent
            while p is not None:
                if "rg-recipe-block" in p.classes():
                    inside = True
                p = p.parent
            if inside == in_blocks and not any("rg-scaled-value" in c.classes() for c in n.iter() if c is not n):
                out.append(n.text(lambda x: x.tag == "ul").strip())
    return out


def check_markdown(rng):
    from recipe_grid.markdown import compile_markdown
    from recipe_grid.number_formatting import format_number
    from recipe_grid.static_site.standalone_page import generate_standalone_page
    from .. import gen_site
    import shutil
    out = []
    n = rng.choice([1, 2, 3, 4, 6])
    # now and then a whole number too large for a float to hold (it must still be multiplied and shown exactly)
    a, b, c, q = rng.choice([2, 3, 5, 12, 9007199254740993, 10 ** 17 + 1]), rng.choice([Fraction(1, 2), 4, Fraction(3, 4), Fraction(11, 2), Fraction(15, 4), Fraction(25, 12)]), rng.choice([1, 2, 10]), rng.choice([100, 250, 75])
    fmt = lambda x: ("%d/%d" % (x.numerator, x.denominator)) if isinstance(x, Fraction) else str(x)  # noqa
    doc = MD_DOC % dict(n=n, a=fmt(a), b=fmt(b), c=fmt(c), q=q)
    mr = compile_markdown(doc)
    k = rng.choice([2, 3, Fraction(1, 2), Fraction(3, 2), Fraction(4, 3), Fraction(2, 3)])
    html = mr.render(k)
    def shown(x):
        # what the documentation prescribes for exact numbers, computed here and not by the code under test: whole numbers in full,
        # the listed denominators as proper or mixed fractions; anything else (never produced by these factors for a and n) by the code
        x = Fraction(x)
        if x.denominator == 1:
            return str(x.numerator)
        if x.denominator in (2, 3, 4, 5, 6, 7, 8, 12, 16):
            w, r = divmod(x.numerator, x.denominator)
            return ("%d " % w if w else "") + "%d⁄%d" % (r, x.denominator)
        return format_number(x).replace("/", "⁄")
    want_prose = [shown(n * k), shown(a * k), shown(b * k), shown(a * k)]
    for one in (1, Fraction(1), Fraction(2, 2)):
        if svalues(mr.render(one), False) != [shown(n), shown(a), shown(b), shown(a)]:
            out.append(("C03:scale-one-not-identity", "render(%r): prose shows %r, written %r" % (one, svalues(mr.render(one), False), [n, a, b, a])))
    got = svalues(html, False)
    if got != want_prose:
        out.append(("C03:markdown-prose-not-scaled", "scale %r: prose shows %r, expected %r" % (k, got, want_prose)))
    # standalone page at a serving count = render at count / stated servings, exactly
    scratch = gen_site.scratch_root()
    try:
        f = scratch / "pie.md"
        f.write_text(doc)
        for m in (rng.choice([1, 2, 3, 4, 5, 7]), n):
            page = generate_standalone_page(f, servings=m, embed_local_links=False)
            if svalues(page, True) + svalues(page, False) != svalues(mr.render(Fraction(m, n)), True) + svalues(mr.render(Fraction(m, n)), False):
                out.append(("C03:standalone-page-not-scaled-by-servings-ratio", "stated %d, requested %d: shows %r" % (n, m, svalues(page, True)[:4])))
        page = generate_standalone_page(f, scale=k, embed_local_links=False)
        if svalues(page, True) != svalues(mr.render(k), True):
            out.append(("C03:standalone-page-scale-wrong", "scale %r" % (k,)))
        # the command line: --scale takes the factor as text ('3', '3.5', '1/2', '11/2', '9 3/4'), --servings a count
        import contextlib
        import io
        import sys
        from recipe_grid.scripts import recipe_grid as cli
        kk = rng.choice([Fraction(11, 2), Fraction(10, 3), Fraction(1, 2), Fraction(39, 4), Fraction(25, 12), 3, Fraction(7, 2), Fraction(12, 5)])
        spellings = [fmt(kk)] if not isinstance(kk, Fraction) else ["%d/%d" % (kk.numerator, kk.denominator), "%d / %d" % (kk.numerator, kk.denominator)]
        if isinstance(kk, Fraction) and kk > 1:
            spellings.append("%d %d/%d" % (kk.numerator // kk.denominator, kk.numerator % kk.denominator, kk.denominator))
        for text in spellings:
            o = scratch / "out.html"
            old = sys.argv
            sys.argv = ["recipe-grid", str(f), str(o), "--scale", text, "-E"]
            try:
                with contextlib.redirect_stdout(io.StringIO()), contextlib.redirect_stderr(io.StringIO()):
                    try:
                        cli.main()
                    except SystemExit as e:
                        if e.code not in (0, None):
                            out.append(("C03:command-line-scale-rejected", "--scale %r: exit %r" % (text, e.code)))
                            continue
            finally:
                sys.argv = old
            page = o.read_text()
            if svalues(page, True) + svalues(page, False) != svalues(mr.render(kk), True) + svalues(mr.render(kk), False):
                out.append(("C03:command-line-scale-wrong", "--scale %r: shows %r, expected %r" % (text, svalues(page, True)[:4], svalues(mr.render(kk), True)[:4])))
        # decimal factors on the command line, also ones that are no short fraction: every number is multiplied by exactly the factor written
        from .c11 import own_format
        g = scratch / "grains.md"
        g.write_text("# Grains for 2\n\nUse {2097152} grains and {3} cups.\n\n    2097152 g sand\n")
        for text in ("0.00000095367431640625", "0.000001", "1.0000001", "0.5", "1.25", "0.3333"):
            o = scratch / "out2.html"
            old = sys.argv
            sys.argv = ["recipe-grid", str(g), str(o), "--scale", text, "-E"]
            try:
                with contextlib.redirect_stdout(io.StringIO()), contextlib.redirect_stderr(io.StringIO()):
                    try:
                        cli.main()
                    except SystemExit as e:
                        if e.code not in (0, None):
                            out.append(("C03:command-line-scale-rejected", "--scale %r: exit %r" % (text, e.code)))
                            continue
            finally:
                sys.argv = old
            want = [own_format(2 * float(text)), own_format(2097152 * float(text)), own_format(3 * float(text))]
            got = svalues(o.read_text(), False)
            if got[:3] != want:
                out.append(("C03:command-line-scale-wrong", "--scale %s: prose shows %r, the written numbers times the factor are %r" % (text, got[:3], want)))
                break
    finally:
        shutil.rmtree(scratch, ignore_errors=True)
    return out


def check_regeneration():
    """every page of a site regenerated into the same directory shows the numbers of the CURRENT sources (scaled), exactly as a generation
    into a fresh directory does - also when an edit leaves the length of the source, and of some pages, unchanged"""
    import shutil
    from .. import gen_site
    out = []
    scratch, same, fresh, src = gen_site.regenerate_same_directory(M=8)
    try:
        for f in gen_site.output_files(fresh):
            if not f.endswith(".html"):
                continue
            a, b = (same / f[1:]), (fresh / f[1:])
            if not a.exists():
                out.append(("C03:page-shows-values-of-an-earlier-source-after-regeneration", "%s is missing after regeneration" % f))
                continue
            va, vb = svalues(a.read_text(), True) + svalues(a.read_text(), False), svalues(b.read_text(), True) + svalues(b.read_text(), False)
            if va != vb:
                out.append(("C03:page-shows-values-of-an-earlier-source-after-regeneration", "%s shows %r, the current source scaled gives %r" % (f, va[:6], vb[:6])))
        return out[:3]
    finally:
        shutil.rmtree(scratch, ignore_errors=True)


def gen_cases(run, n):
    cases = []
    for _ in range(n):
        cases.append((gen_trees.gen_blocks(run.rng), gen_factor(run.rng), gen_factor(run.rng)))
    return cases


def pagevalues_correspondence(run):
    """C03e / C15d: the numbers MarkdownRecipe.render(k) and the stand-alone page show, in reading order, against shownNums / renderDoc of the model, at
    several factors and at the page factors n / servings (harness/pagevalues_corr.py, its own process)"""
    import os
    import re
    import subprocess
    import sys
    here = os.path.dirname(os.path.dirname(os.path.abspath(__file__)))
    n = "60" if run.tier == "quick" and not getattr(run, "escalated", False) else "600"
    p = subprocess.run([sys.executable, os.path.join(here, "pagevalues_corr.py"), "--seed", str(20260930 + run.seed), "--docs", n], stdout=subprocess.PIPE,
                       stderr=subprocess.STDOUT, text=True, timeout=3000, env=dict(os.environ, PYTHONPATH=os.pathsep.join(x for x in sys.path if x)))
    m = re.search(r"^disagreements: (\d+)", p.stdout, re.M)
    m2 = re.search(r"scaled values compared\s+(\d+)", p.stdout)
    if not m or not m2:
        run.disagree("page-nums", "harness/pagevalues_corr.py", p.stdout[-800:], "n/a")
        return
    run.groups["numbers shown by render(k) / stand-alone page vs shownNums (reading order)"] += int(m2.group(1))
    run.evaluations += int(m2.group(1))
    if int(m.group(1)):
        for line in p.stdout.split("disagreements:")[1].splitlines()[1:8]:
            run.disagree("page-nums", line.strip()[:300], "real", "model")


def correspondence(run):
    pagevalues_correspondence(run)
    cases = gen_cases(run, run.budget(1500, 25000))
    rep = run.ask([sexp.tag("scale", sexp.num(k), rsexp.blocks(rs)) for rs, k, _ in cases])
    for (rs, k, _), m in zip(cases, rep):
        impl = rsexp.c_blocks([r.scale(k) for r in rs])
        nums = []
        for r in rs:
            for t in r.recipe_trees:
                scalables(t, nums)
        run.case(("scale", rsexp.blocks(rs), repr(k)), bool(nums), kind="factor-" + type(k).__name__,
                 sample={"factor": repr(k), "blocks": len(rs), "scalable_numbers": len(nums)})
        run.groups["Recipe.scale"] += 1
        if impl != rsexp.d_blocks(m):
            run.disagree("scale", {"blocks": rsexp.blocks(rs), "k": repr(k)}, "differs", "differs")


def oracle(run):
    for rs, k, k2 in gen_cases(run, run.budget(1500, 25000)):
        run.case(("oracle", rsexp.blocks(rs), repr(k), repr(k2)), True)
        for sig, detail in check_case(rs, k, k2):
            run.violate(sig, detail, {"blocks": rsexp.blocks(rs), "k": repr(k), "k2": repr(k2)})
    from .. import gen_desc
    fixed = [(EDGE_DESC, Fraction(3, 2))] + [(d, k) for d in COMMUTE_CORPUS for k in (2, 3, Fraction(1, 2))]
    fixed += [(d, k) for d in gen_desc.CORPUS for k in (2, Fraction(3, 2))]      # the corpus of minimised past failures
    for i in range(run.budget(150, 4000) + len(fixed)):
        d, k = fixed[i] if i < len(fixed) else (gen_desc.Gen(run.rng).desc(), run.rng.choice([2, 3, 10, Fraction(1, 2), Fraction(3, 2), Fraction(7, 3)]))
        if not desc_is_exact(d):
            continue
        run.case(("commute", repr(d), repr(k)), True, kind="compile-scale-commute")
        for sig, detail in check_commute(d, k):
            run.violate(sig, detail, {"desc": repr(d), "k": repr(k)})
    run.case(("regeneration",), True, kind="regeneration-into-same-directory")
    for sig, detail in check_regeneration():
        run.violate(sig, detail, {"regeneration": True})
    # a long document: every one of its (more than thirty) scaled values is multiplied, at every scale
    from . import c13
    run.case(("markdown-many",), True, kind="markdown-many-values")
    for sig, detail in c13.check_many_placeholders():
        run.violate("C03:markdown-prose-not-scaled", detail, {"markdown_many": True})
    for _ in range(run.budget(12, 200)):
        run.case(("markdown", run.evaluations), True, kind="markdown+standalone")
        seed = run.rng.randint(0, 10 ** 9)
        import random as _r
        for sig, detail in check_markdown(_r.Random(seed)):
            run.violate(sig, detail, {"markdown_seed": seed})


def replay(run, obj):
    if obj["replay"].get("regeneration"):
        res = check_regeneration()
        for x in res:
            print(*x)
        return bool(res)
    from .c02 import tree_of_sexp
    r = obj["replay"]
    if r.get("markdown_many"):
        from . import c13
        res = c13.check_many_placeholders()
        for x in res:
            print(*x)
        return bool(res)
    if "markdown_seed" in r:
        import random as _r
        res = check_markdown(_r.Random(r["markdown_seed"]))
        for x in res:
            print(*x)
        return bool(res)
    if "desc" in r:
        res = check_commute(eval(r["desc"], {"Fraction": Fraction}), eval(r["k"], {"Fraction": Fraction}))
        for x in res:
            print(*x)
        return bool(res)
    blks = sexp.decode(sexp.parse(r["blocks"]))
    prev = None
    recipes = []
    # rebuild with shared sub recipe objects irrelevant: equality is by value
    for blk in blks:
        prev = Recipe(tuple(tree_of_sexp(t) for t in blk), prev)
        recipes.append(prev)
    res = check_case(recipes, eval(r["k"], {"Fraction": Fraction}), eval(r["k2"], {"Fraction": Fraction}))
    for x in res:
        print(*x)
    return bool(res)
