"""Shared machinery of ./check: regenerate + build + audit the Lean side, run the driver,
collect correspondence disagreements and property violations, classify against the
known-findings file, write evidence."""
import fcntl
import hashlib
import json
import os
import random
import re
import subprocess
import sys
import time
from collections import Counter
from pathlib import Path

from . import sexp

VERIF = Path(__file__).resolve().parent.parent
LEAN = VERIF / "lean"
DRIVER = LEAN / ".lake" / "build" / "bin" / "driver"
REPO = Path(os.environ.get("RECIPE_GRID_REPO", "/repo"))
ALLOWED_AXIOMS = {"propext", "Classical.choice", "Quot.sound"}
FORBIDDEN = re.compile(
    r"\b(sorry|admit|native_decide|bv_decide|implemented_by|unsafe)\b|^\s*axiom\s|maxHeartbeats\s+0\b"
)
TRUSTED_BASE = [
    "Lean 4.33.0 kernel (re-checked by leanchecker in the thorough tier)",
    "axioms allowed in property theorems: propext, Classical.choice, Quot.sound; no sorry/native_decide/bv_decide/own axioms",
    "tools/gen_model.py (translator of the data-like parts of /repo into lean/RecipeGrid/Gen)",
    "harness correspondence check: hand-written Lean model vs real code on generated inputs (exact comparison)",
    "CPython float arithmetic/formatting = correctly rounded binary64 (re-validated by every float correspondence)",
]


class Lock:
    def __enter__(self):
        self.f = open(VERIF / ".lock", "w")
        fcntl.flock(self.f, fcntl.LOCK_EX)
        return self

    def __exit__(self, *a):
        fcntl.flock(self.f, fcntl.LOCK_UN)
        self.f.close()


def sh(cmd, cwd=None, timeout=None, env=None):
    p = subprocess.run(cmd, cwd=cwd, stdout=subprocess.PIPE, stderr=subprocess.STDOUT,
                       text=True, timeout=timeout, env=env)
    return p.returncode, p.stdout


def regenerate(modules=None):
    """Run the translator; returns (ok, log, changed files). With `modules` (Lean module names of a property) a table that could not be
    regenerated only counts if one of those modules - or the model behind the driver requests of that property - imports it."""
    code, out = sh([sys.executable, str(VERIF / "tools" / "gen_model.py")], cwd=str(VERIF), timeout=300)
    changed = [l.split(" ", 1)[1] for l in out.splitlines() if l.startswith("CHANGED ")]
    failed = [l.split(" ")[1] for l in out.splitlines() if l.startswith("FAILED ")]
    if code != 0 and failed and modules is not None:
        deps = gen_imports(modules)
        relevant = [f for f in failed if f in deps]
        if not relevant:
            return True, out + "\n(translator failures %r do not concern %r)" % (failed, list(modules)), changed
    return code == 0, out, changed


def gen_imports(modules):
    """names X of the RecipeGrid.Gen.X modules in the import closure of the given Lean modules"""
    seen, todo, gens = set(), list(modules), set()
    while todo:
        m = todo.pop()
        if m in seen:
            continue
        seen.add(m)
        if m.startswith("RecipeGrid.Gen."):
            gens.add(m.rsplit(".", 1)[1])
            continue
        f = LEAN / (m.replace(".", "/") + ".lean")
        if not f.exists():
            continue
        for line in f.read_text().splitlines():
            mm = re.match(r"\s*import\s+(RecipeGrid[.\w]*)", line)
            if mm:
                todo.append(mm.group(1))
            elif line.strip() and not line.startswith(("import", "--", "/-")) and not line.startswith(" "):
                break
    return gens


def lake_build(targets, timeout=3000):
    code, out = sh(["lake", "build"] + list(targets), cwd=str(LEAN), timeout=timeout)
    return code == 0, out


def failed_modules(log):
    mods = set()
    for m in re.finditer(r"^(?:✖|error:).*?(RecipeGrid(?:[./][A-Za-z0-9_]+)+)", log, re.M):
        mods.add(m.group(1).replace("/", ".").removesuffix(".lean"))
    for m in re.finditer(r"^error: (?:\./)?(RecipeGrid/[A-Za-z0-9_/]+)\.lean", log, re.M):
        mods.add(m.group(1).replace("/", "."))
    return sorted(mods)


def forbidden_hits():
    hits = []
    for p in sorted(LEAN.rglob("*.lean")):
        if ".lake" in p.parts:
            continue
        text = p.read_text()
        # drop block comments and line comments
        text = re.sub(r"/-.*?-/", lambda m: "\n" * m.group(0).count("\n"), text, flags=re.S)
        for i, line in enumerate(text.splitlines(), 1):
            line = line.split("--", 1)[0]
            if FORBIDDEN.search(line):
                hits.append("%s:%d: %s" % (p.relative_to(VERIF), i, line.strip()))
    return hits


AUDIT_TEMPLATE = """import Lean.Elab.Command
import Lean.Util.CollectAxioms
import {module}
open Lean Elab Command in
run_cmd do
  let env ← getEnv
  let mut names : Array Name := #[]
  for (n, ci) in env.constants.toList do
    if (`{ns}).isPrefixOf n && !n.isInternalDetail then
      match ci with
      | .thmInfo _ => names := names.push n
      | _ => pure ()
  for n in names.qsort (fun a b => a.toString < b.toString) do
    let axs ← Lean.collectAxioms n
    logInfo m!"AXIOMS {{n}} :: {{axs.toList}}"
"""


def audit(pid, module):
    """Returns dict theorem -> list of axioms, for every theorem in namespace RG.<pid>."""
    d = LEAN / "RecipeGrid" / "Audit"
    d.mkdir(exist_ok=True)
    f = d / ("_%s.lean" % pid)
    f.write_text(AUDIT_TEMPLATE.format(module=module, ns="RG." + pid))
    code, out = sh(["lake", "env", "lean", str(f.relative_to(LEAN))], cwd=str(LEAN), timeout=1200)
    res = {}
    for m in re.finditer(r"AXIOMS (\S+) :: \[(.*?)\]", out, re.S):
        axs = [a.strip() for a in m.group(2).replace("\n", " ").split(",") if a.strip()]
        res[m.group(1)] = axs
    return code == 0, res, out


class Run:
    def __init__(self, pid, tier, seed):
        self.pid, self.tier, self.seed = pid, tier, seed
        self.rng = random.Random((seed * 1000003) ^ int(hashlib.sha256(pid.encode()).hexdigest()[:8], 16))
        self.t0 = time.time()
        self.evaluations = 0
        self.distinct = set()
        self.samples = []
        self.dist = Counter()
        self.disagreements = []
        self.violations = []
        self.notes = []
        self.escalated = False
        self.driver_ok = True
        self.driver_calls = 0
        self.focus = []          # inputs the failing-input search should look at first
        self.groups = Counter()  # correspondence group -> cases compared

    # ---- budgets
    def budget(self, quick, thorough):
        n = thorough if self.tier == "thorough" else quick
        env = os.environ.get("VERIF_BUDGET_SCALE")
        if env:
            n = max(1, int(n * float(env)))
        if self.escalated:
            n *= 4
        return n

    # ---- driver
    def ask(self, requests):
        """Send request lines to the Lean driver, return decoded replies (same order)."""
        if not requests:
            return []
        self.driver_calls += 1
        data = "\n".join(requests) + "\n"
        p = subprocess.run([str(DRIVER)], input=data, stdout=subprocess.PIPE, stderr=subprocess.PIPE,
                           text=True, timeout=1800)
        lines = p.stdout.splitlines()
        if p.returncode != 0 or len(lines) != len(requests):
            raise RuntimeError("driver failed: rc=%s, %d replies for %d requests; stderr=%s" % (
                p.returncode, len(lines), len(requests), p.stderr[-400:]))
        return [sexp.decode(sexp.parse(l)) for l in lines]

    # ---- bookkeeping
    def case(self, key, nontrivial=True, kind=None, sample=None):
        self.evaluations += 1
        if nontrivial:
            self.distinct.add(hashlib.blake2b(repr(key).encode(), digest_size=8).digest())
        if kind is not None:
            self.dist[kind] += 1
        if sample is not None and len(self.samples) < 12 and (self.evaluations % 97 == 1 or len(self.samples) < 3):
            self.samples.append(sample)

    def disagree(self, group, inp, impl, model):
        self.disagreements.append({"group": group, "input": inp, "impl": impl, "model": model})
        self.focus.append((group, inp))

    def violate(self, signature, detail, replay):
        """A violation of the property observed on the real code."""
        self.violations.append({"signature": signature, "detail": detail, "replay": replay})

    def note(self, msg):
        self.notes.append(msg)


def jsonable(x):
    from fractions import Fraction
    if isinstance(x, (str, int, bool)) or x is None:
        return x
    if isinstance(x, float):
        return repr(x)
    if isinstance(x, Fraction):
        return "Fraction(%d, %d)" % (x.numerator, x.denominator)
    if isinstance(x, dict):
        return {str(k): jsonable(v) for k, v in x.items()}
    if isinstance(x, (list, tuple, set, frozenset)):
        return [jsonable(v) for v in x]
    return repr(x)


def load_known():
    p = VERIF / "known_findings.json"
    if not p.exists():
        return []
    return json.loads(p.read_text())["findings"]


def write_replay(pid, obj):
    d = VERIF / "replays"
    d.mkdir(exist_ok=True)
    blob = json.dumps(jsonable(obj), indent=1, sort_keys=True)
    name = "%s-%s.json" % (pid, hashlib.sha256(blob.encode()).hexdigest()[:12])
    (d / name).write_text(blob)
    return str(d / name)


def source_hashes(files):
    out = {}
    for f in files:
        p = REPO / f
        if p.exists():
            out[f] = hashlib.sha256(p.read_bytes()).hexdigest()[:16]
    return out
