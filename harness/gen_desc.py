"""Abstract recipe descriptions, a printer with every permitted spelling, and the by-name
declarative meaning of a description (written from docs/source/language_reference.rst, not
from compiler.py).  Used by C01, C05, C06, C07, C19, C20.

Abstract syntax (plain tuples):
  name   = tuple of parts, each a str (text, spaces included) or a number (int / Fraction / float)
  amount = None
         | ("qty", number, unit_text or None, spacing, prep)          # known unit, written without braces
         | ("xqty", number, unit_text or None, spacing, prep)         # explicit {..} quantity, free-form unit
         | ("rem", wording, prep) | ("prop", number, prep) | ("pct", number_times_100, prep) | ("times", number, sp)
  expr   = ("step", name, [expr, ...]) | ("leaf", amount, name)
  stmt   = (outputs or None, named, expr)          outputs = [name, ...]
  desc   = [[stmt, ...], ...]                      one list per block
"""
from fractions import Fraction

from recipe_grid.recipe import Ingredient, Step, SubRecipe, Reference, Quantity, Proportion, Recipe
from recipe_grid.scaled_value_string import ScaledValueString as SVS
from recipe_grid.units import UNIT_SYSTEM

UNITS = list(UNIT_SYSTEM.iter_names())
SPECIAL = set("\"',:=/(){}")
DANGEROUS_FIRST = {u.split()[0] for u in UNITS} | {"of", "the", "remaining", "remainder", "rest", "left", "leftover"}
ESCAPES = {"\\": "\\\\", "\n": "\\n", "\r": "\\r", "\t": "\\t", "\a": "\\a", "\b": "\\b", "\f": "\\f", "\v": "\\v"}

NAME_POOL = [
    ("spam",), ("Spam",), ("spam ",), ("eggs",), ("EGGS",), ("fried eggs",), ("sauce",), ("white sauce",), ("flour",),
    ("a b",), ("a  b",), (2, " buns"), ("buns for ", 4), ("rest area",), ("g force",), ("of mice",), ("x",), ("y",), ("z",),
    ("it's",), ('say "hi"',), ("a,b",), ("50% cream",), ("café",), ("tea spoon tin",), ("1st cut",), ("back\\slash",), ("tab\there",),
    ("gâteau",), ("lépiotes",), ("cupões",), ("kgß",), ("ofen",), ("restéd",), ("ml²",),
    # numbers of value zero, text after a number in either letter case, numbers of either type with one value
    ("mix ", 0), ("mix",), (0, " waste"), (2, " Buns"), ("Big ", 4, " Rolls"), ("big ", 4, " rolls"), ("buns for ", 4.0), ("dough ", Fraction(1, 2)), ("dough ", 0.5),
    # white space other than blank and tab inside a name (legal in the unquoted spelling too)
    ("olive\u00a0oil",), ("a\u3000b",), ("form\x0cfeed",), ("thin\u2009space",),
    # decomposed accents (letter + combining mark): not the same text as the precomposed spelling, and longer
    ("cre\u0300me bru\u0302le\u0301e",), ("cafe\u0301",), ("jalapen\u0303o",),
    # names that begin like a preposition / its second word, or like a unit; text between two numbers in either case
    ("thermidor sauce",), ("these",), ("offal",), ("theo",), ("grams of joy",),
    ("dough for ", 2, " Large and ", 3, " small loaves"), ("dough for ", 2, " large and ", 3, " small loaves"),
]
STEP_POOL = [("fry",), ("chop",), ("boil",), ("mix well",), ("bake at 180",), ("simmer ", 10, " min",), ("slice, thinly",), ("it's done",), ("2 minute rest",), ("rest ", 0, " min"), ("prove ", 0.0, " h")]


# ------------------------------------------------------------------ numbers
def number_spellings(x):
    if isinstance(x, bool):
        raise TypeError
    if isinstance(x, int):
        return [str(x), "0" + str(x)]
    if isinstance(x, Fraction):
        p, q = x.numerator, x.denominator
        out = ["%d/%d" % (p, q), "%d/ %d" % (p, q), "%d/%d" % (2 * p, 2 * q)]
        if p > q and q != 1:
            out += ["%d %d/%d" % (p // q, p % q, q), "%d  %d / %d" % (p // q, p % q, q), "%d\t%d /%d" % (p // q, p % q, q)]
        return out
    r = repr(x)
    assert "e" not in r and "inf" not in r and "nan" not in r, r
    out = [r, r + "0"]
    if r.endswith(".0"):
        out.append(r[:-1])
    return out


# ------------------------------------------------------------------ strings
def naked_ok(text):
    return bool(text) and not (set(text) & SPECIAL) and "\n" not in text and "\r" not in text \
        and not text[0].isspace() and not text[-1].isspace()


def first_word(text):
    w = ""
    for ch in text:
        if ch.isalnum() or ch == "_":
            w += ch
        else:
            break
    return w.lower()


def quote(text, q):
    out = [q]
    for ch in text:
        if ch == q:
            out.append("\\" + ch)
        elif ch in ESCAPES:
            out.append(ESCAPES[ch])
        else:
            out.append(ch)
    out.append(q)
    return "".join(out)


def brace(parts, sp):
    """a {...} string holding text and numbers"""
    out = ["{"]
    for p in parts:
        if isinstance(p, str):
            for ch in p:
                if ch in "{}":
                    out.append("\\" + ch)
                elif ch.isdigit() and ch in "0123456789":
                    out.append("\\" + ch)
                elif ch in ESCAPES:
                    out.append(ESCAPES[ch])
                else:
                    out.append(ch)
        else:
            out.append(sp.choice(number_spellings(p)))
    out.append("}")
    return "".join(out)


class Spelling:
    """source of spelling choices; `plain=True` always picks the first (canonical) option"""

    def __init__(self, rng=None):
        self.rng = rng

    def choice(self, xs):
        return xs[0] if self.rng is None else self.rng.choice(xs)

    def flip(self, p=0.5):
        return False if self.rng is None else self.rng.random() < p


def print_text(text, sp, guard_first, static=False, quoted=False):
    """one text run (no numbers) in a permitted spelling. guard_first: the first chunk must not be
    readable as a number / unit / preposition / remainder word (it follows an amount or starts a leaf)."""
    def dangerous(t):
        return t[0] in "0123456789" or first_word(t) in DANGEROUS_FIRST or t[0] in "%*"      # (digits of other scripts are letters to the grammar)
    # split at an inner [ \t]+ run into independently spelled chunks
    if sp.flip(0.3) and not quoted:
        idxs = [i for i in range(1, len(text) - 1) if text[i] in " \t" and text[i - 1] not in " \t"]
        if idxs:
            i = sp.choice(idxs)
            j = i
            while j < len(text) and text[j] in " \t":
                j += 1
            if j < len(text):
                return print_text(text[:i], sp, guard_first, static) + text[i:j] + print_text(text[j:], sp, False, static)
    # split inside a word into adjacent parts, each in its own style (spam'and'eggs): adjacent parts are concatenated
    if sp.flip(0.12) and not quoted:
        idxs = [i for i in range(1, len(text)) if not text[i - 1].isspace() and not text[i].isspace()]
        if idxs:
            i = sp.choice(idxs)
            # (the right-hand part is always quoted: two naked parts side by side are one naked string, to which the guard applies as a whole)
            return print_text(text[:i], sp, guard_first, static) + print_text(text[i:], sp, True, static, quoted=True)
    styles = []
    if naked_ok(text) and not (guard_first and dangerous(text)) and not quoted:
        styles += ["naked", "naked"]
    styles += ["s", "d"]
    if not static:
        styles.append("b")
    st = sp.choice(styles)
    if st == "naked":
        return text
    if st == "s":
        return quote(text, "'")
    if st == "d":
        return quote(text, '"')
    return brace([text], sp)


def print_name(name, sp, guard_first):
    """a name (text and numbers); adjacent parts are written back to back or, where the text has
    a space at the joint, with that space between two string parts"""
    out = []
    first = True
    i = 0
    parts = list(name)
    while i < len(parts):
        p = parts[i]
        if not isinstance(p, str):
            # a number: always inside braces, optionally swallowing neighbouring text
            out.append(brace([p], sp))
            first = False
            i += 1
            continue
        text = p
        lead = ""
        trail = ""
        if not first:
            k = 0
            while k < len(text) and text[k] in " \t":
                k += 1
            if sp.flip(0.7):
                lead, text = text[:k], text[k:]
        if i + 1 < len(parts):
            k = len(text)
            while k > 0 and text[k - 1] in " \t":
                k -= 1
            if sp.flip(0.7):
                text, trail = text[:k], text[k:]
        if text:
            out.append(lead + print_text(text, sp, guard_first and first) + trail)
        else:
            out.append(lead + trail)
        first = False
        i += 1
    return "".join(out)


def hsp(sp, optional=True):
    return sp.choice(["", " ", "  ", "\t", " \t "]) if optional else sp.choice([" ", "  ", "\t"])


def case_variant(u, sp):
    return sp.choice([u, u.upper(), u.title(), "".join(c.upper() if i % 2 else c for i, c in enumerate(u))])


def print_amount(a, sp):
    k = a[0]
    if k == "qty":
        _, v, unit, spacing, prep = a
        return sp.choice(number_spellings(v)) + ((spacing + unit) if unit is not None else "") + prep
    if k == "xqty":
        _, v, unit, spacing, prep = a
        u = ""
        if unit is not None:
            u = spacing + print_text(unit, sp, False, static=True)
        return "{" + hsp(sp) + sp.choice(number_spellings(v)) + u + hsp(sp) + "}" + prep
    if k == "rem":
        return a[1] + a[2]
    if k == "prop":
        return sp.choice(number_spellings(a[1])) + a[2]
    if k == "pct":
        return sp.choice(number_spellings(a[1])) + a[2]
    if k == "times":
        return sp.choice(number_spellings(a[1])) + a[2] + "*"
    raise ValueError(k)


class Printer:
    def __init__(self, sp):
        self.sp = sp
        self.buf = []
        self.n = 0
        self.marks = {}

    def emit(self, s):
        self.buf.append(s)
        self.n += len(s)

    def mark(self, key):
        self.marks[key] = self.n

    def expr(self, e, key, top=False, in_parens=False):
        sp = self.sp
        if e[0] == "leaf":
            _, amt, name = e
            if amt is not None:
                self.mark(("amt", key))
                self.emit(print_amount(amt, sp))
                self.emit(hsp(sp, optional=not self._needs_space(amt)))
            if not isinstance(name[0], str):
                # a name that starts with a scaled number would read as an explicit quantity: start it with an empty string part
                self.emit(sp.choice(["''", '""']))
            self.emit(print_name(name, sp, True))
            return
        _, name, inputs = e
        if len(inputs) == 1 and sp.flip(0.5):
            # shorthand:  x, chop   (inside a step's argument list it must be parenthesised)
            if in_parens:
                self.emit("(" + self.nl())
            inner = sp.flip(0.15)      # the optional parentheses around the first operand:  (x, chop), fry
            if inner:
                self.emit("(" + self.nl())
            self.expr(inputs[0], key + (0,), in_parens=False)
            if inner:
                self.emit(self.nl() + ")")
            self.emit(hsp(sp) + "," + hsp(sp))
            self.emit(print_name(name, sp, False))
            if in_parens:
                self.emit(self.nl() + ")")
            return
        self.emit(print_name(name, sp, False))
        self.emit(hsp(sp) + "(" + self.nl())
        for i, x in enumerate(inputs):
            if i:
                self.emit(self.nl() + "," + self.nl())
            self.expr(x, key + (i,), in_parens=True)
        if sp.flip(0.2):
            self.emit(self.nl() + ",")
        self.emit(self.nl() + ")")

    def _needs_space(self, amt):
        # a number, unit or word directly followed by a name needs a separating space
        if amt[0] == "xqty":
            return amt[4] != ""
        if amt[0] == "times":
            return False
        return not (amt[0] == "pct" and amt[2].rstrip(" \t").endswith("%"))

    def nl(self):
        return self.sp.choice(["", "", " ", "\n", "\n  ", " \n\t"])

    def stmt(self, s, key):
        outs, named, e = s
        sp = self.sp
        if outs:
            for i, o in enumerate(outs):
                if i:
                    self.emit(hsp(sp) + "," + hsp(sp))
                self.mark(("out", key, i))
                self.emit(print_name(o, sp, False))
            self.emit(hsp(sp) + (":=" if named else "=") + hsp(sp))
        self.expr(e, key, top=True)


def print_block(stmts, sp, block_index=0):
    """returns (text, marks) — marks: ("out", (block, stmt), i) / ("amt", (block, stmt, path...)) -> offset"""
    pr = Printer(sp)
    pr.emit(sp.choice(["", "", "\n", "  \n", "\t"]))
    for j, s in enumerate(stmts):
        if j:
            pr.emit(sp.choice(["\n", "\n", "\n\n", "  \n", "\r\n", "\n \n\t\n"]))
        pr.stmt(s, (block_index, j))
    pr.emit(sp.choice(["", "", "\n", "  ", "\n\n "]))
    return "".join(pr.buf), pr.marks


def print_desc(desc, sp):
    texts, marks = [], {}
    for b, stmts in enumerate(desc):
        t, m = print_block(stmts, sp, b)
        texts.append(t)
        marks.update(m)
    return texts, marks


# ------------------------------------------------------------------ generation
# The documented meaning must not lean on the code it is compared with: names are normalised here, not by ScaledValueString
# (a slip in its constructor / strip / lower would otherwise cancel out on both sides of the comparison).
def own_parts(parts):
    """normal form of a string with numbers: adjacent text merged, empty text dropped, every number kept (a zero too)"""
    out = []
    for p in parts:
        if isinstance(p, str) and out and isinstance(out[-1], str):
            out[-1] += p
        else:
            out.append(p)
    return tuple(p for p in out if not (isinstance(p, str) and p == ""))


def own_key(parts):
    """a name as the reference compares names: ignoring letter case and surrounding whitespace (numbers by value)"""
    ps = list(own_parts(parts))
    if ps and isinstance(ps[0], str):
        ps[0] = ps[0].lstrip()
    ps = list(own_parts(ps))
    if ps and isinstance(ps[-1], str):
        ps[-1] = ps[-1].rstrip()
    return tuple(p.lower() if isinstance(p, str) else p for p in own_parts(ps))


def raw_svs(parts):
    """a ScaledValueString holding exactly own_parts(parts), made without running its constructor"""
    s = SVS.__new__(SVS)
    s._string = own_parts(parts)
    return s


def own_factor(frm, to):
    """the documented factor between two unit names (hand-written table of the documented units with their physical reference values in
    harness/props/c12.py - NOT the code's unit system); None when the documentation gives no conversion (different kinds, unknown names)"""
    from .props import c12
    frm, to = " ".join(frm.lower().split()), " ".join(to.lower().split())
    if frm not in c12.NAME_KIND or to not in c12.NAME_KIND or c12.NAME_KIND[frm] != c12.NAME_KIND[to]:
        return None
    if c12.NAME_KIND[frm] not in ("mass", "volume") and c12.PRIMARY[frm] != c12.PRIMARY[to]:
        return None
    return c12.NAME_REF[frm] / c12.NAME_REF[to]


def own_equal_value(a, b):
    """Quantity.has_equal_value_to as documented: equal after unit conversion, to within float imprecision"""
    import math
    if a.unit is None and b.unit is None:
        f = 1
    elif a.unit is None or b.unit is None:
        return False
    else:
        # WHICH names convert into which is taken from the documentation's table (own_factor); the numeric factor itself is the code's
        # (its value is C12's subject, and the 1e-9 tolerance of the test leaves no room for a second set of constants)
        f = own_factor(b.unit, a.unit) if b.unit.lower() == " ".join(b.unit.lower().split()) and a.unit.lower() == " ".join(a.unit.lower().split()) else None
        if f is not None:
            try:
                f = UNIT_SYSTEM.convert_between(b.unit.lower(), a.unit.lower())
            except KeyError:
                return False       # documented as convertible, refused by the code: reported as a difference by the caller's comparison
        if f is None:
            if a.unit.lower() != b.unit.lower():
                return False
            f = 1
    try:
        return math.isclose(a.value, b.value * f)
    except (OverflowError, TypeError):
        return Fraction(a.value) == Fraction(b.value) * Fraction(f)


def norm_name(name):
    k = own_key(name)
    return "".join(p if isinstance(p, str) else repr(p) for p in k), tuple(type(p).__name__ if not isinstance(p, str) else None for p in k)


def svs_key(name):
    """normalised name as the reference defines it: ignore case and surrounding whitespace"""
    return own_key(name)


def gen_number(rng, small=False):
    k = rng.random()
    if k < 0.45:
        return rng.choice([1, 2, 3, 4, 10, 100, 250, 500] if small else [1, 2, 3, 5, 10, 12, 100, 250, 1000, 0, rng.randint(1, 10 ** 5)])
    if k < 0.75:
        return Fraction(rng.randint(1, 30), rng.choice([2, 3, 4, 5, 8, 16, 100]))
    return rng.choice([0.5, 1.5, 0.25, 2.5, 0.1, 1.0, 100.0, 12.75, rng.randint(1, 9999) / 100])


def gen_quantity(rng, total=None):
    """total: (value, unit) of the definition, to produce amounts equal to the whole now and then"""
    prep = rng.choice(["", "", " of", " of the", "\tOF  The"])
    if total is not None and rng.random() < 0.6:
        v, u = total
        if u is not None and u.lower() in UNITS and rng.random() < 0.5:
            others = [n for n in UNITS if n != u.lower()]
            for n in rng.sample(others, len(others)):
                try:
                    f = UNIT_SYSTEM.convert_between(u.lower(), n)
                except KeyError:
                    continue
                w = Fraction(v) * Fraction(f) if not isinstance(f, float) and not isinstance(v, float) else float(v) * float(f)
                if isinstance(w, Fraction) and w.denominator == 1:
                    w = int(w)
                if isinstance(w, float) and ("e" in repr(w)):
                    continue
                if rng.random() < 0.3:
                    # the converted amount as a cook would write it, to three significant figures: no longer the whole amount
                    w3 = float("%.3g" % float(w))
                    if w3 != w and "e" not in repr(w3) and w3 > 0:
                        w = int(w3) if w3.is_integer() else w3
                return ("qty", w, n, rng.choice(["", " "]), prep)
        if rng.random() < 0.3 and not isinstance(v, float):
            # the same unit, a little or a lot off the whole amount: not the whole, so never folded
            v = v * rng.choice([Fraction(1, 2), 2, Fraction(96, 100), Fraction(104, 100), Fraction(99, 100), Fraction(3, 4)])
            if isinstance(v, Fraction) and v.denominator == 1:
                v = int(v)
        if u is None or u.lower() in UNITS:
            return ("qty", v, u, rng.choice(["", " "]) if u else "", prep if u else "")
        return ("xqty", v, u, rng.choice(["", " "]), prep)
    k = rng.random()
    v = gen_number(rng)
    if k < 0.3:
        return ("qty", v, None, "", "")
    if k < 0.8:
        u = rng.choice(UNITS)
        if rng.random() < 0.3:
            u = rng.choice([u.upper(), u.title()])
        if " " in u and rng.random() < 0.5:
            # the words of a unit name may be separated by any white space (the unit pattern joins them with \s+); recovered verbatim
            u = u.replace(" ", rng.choice(["\t", "  ", " \t", "\u00a0", "\u2003"]))
        return ("qty", v, u, rng.choice(["", " ", "  "]), prep)
    return ("xqty", v, rng.choice([None, "handful", "big sack", "Kg", "glug's", "x y"]), rng.choice(["", " "]), prep)


def gen_ref_amount(rng, total=None):
    k = rng.random()
    if k < 0.3:
        return None
    if k < 0.5:
        return gen_quantity(rng, total)
    if k < 0.62:
        return ("rem", rng.choice(["remaining", "remainder", "rest", "left over", "Left  Over", "REST", "leftover"]), rng.choice(["", " of", " of the"]))
    if k < 0.76:
        return ("prop", rng.choice([Fraction(1, 2), Fraction(1, 3), Fraction(2, 2), 0.5, 1.0, 1, Fraction(3, 4), 0.25, 0.9999999999, 1.0000000001, 2, 3, Fraction(3, 2),
                                    Fraction(99999999999, 100000000000)]), rng.choice([" of", " of the", "  OF"]))
    if k < 0.9:
        return ("pct", rng.choice([50, 100, 25, 100.0, 12.5, Fraction(100, 3), Fraction(200, 2), 99.99999999, 100.00000001]), rng.choice(["%", " %", "% of", "% of the", " %  of"]))
    return ("times", rng.choice([0.5, 1.0, 1, Fraction(1, 2), 2, 0.9999999999]), rng.choice(["", " "]))


def _leaf(name, amt=None):
    return ("leaf", amt, (name,))


# minimised past failures (of seeded changes), as abstract descriptions; run first by every compile-based check
CORPUS = [
    # digits of other scripts are ordinary text: a name may start with them, and they are never an amount
    [[(None, False, ('leaf', None, ('\uff14 seasons mix',))), (None, False, ('step', ('sift',), [('leaf', None, ('\uff11\uff10\uff10g flour',)), ('leaf', ('qty', 2, None, '', ''), ('\u0664 spice',))]))]],
    [[([('rolls of \uff14cm',)], False, ('step', ('shape',), [('leaf', ('qty', 500, 'g', '', ''), ('dough',))])), (None, False, ('step', ('bake',), [('leaf', None, ('rolls of \uff14cm',))]))]],
    # a definition used twice by identical references, after an earlier definition was folded into it
    [[(None, False, _leaf("onion", ("qty", 1, None, "", ""))),
      ([("filling",)], False, ("step", ("mix",), [_leaf("mince", ("qty", 200, "g", "", "")), ("step", ("chop",), [_leaf("onion")])])),
      (None, False, ("step", ("pie",), [_leaf("filling"), _leaf("pastry"), _leaf("filling")]))]],
    # output names of one statement that differ only in letter case
    [[([("Stock",), ("stock",)], False, ("step", ("boil",), [_leaf("bones")]))]],
    [[([("broth",), ("Broth ",)], True, ("step", ("boil",), [_leaf("bones")])), (None, False, _leaf("salt"))]],
    # a chain of two folds with a quantity-form reference
    [[(None, False, _leaf("spam", ("qty", 100, "g", "", ""))),
      ([("fried spam",)], False, ("step", ("fry",), [_leaf("spam")])),
      (None, False, ("step", ("boil",), [_leaf("fried spam", ("qty", 100, "g", "", "")), _leaf("water")]))]],
    [[(None, False, _leaf("spam", ("qty", 1, "kg", " ", ""))),
      ([("fried spam",)], True, ("step", ("fry",), [_leaf("spam")])),
      (None, False, ("step", ("boil",), [_leaf("fried spam", ("qty", 1000, "g", "", " of")), _leaf("water")]))]],
    # a fold inside an earlier block, the result referenced from a later block
    [[(None, False, _leaf("spam", ("qty", 100, "g", "", ""))), ([("fried spam",)], False, ("step", ("fry",), [_leaf("spam")]))],
     [(None, False, ("step", ("boil",), [_leaf("fried spam"), _leaf("water")]))]],
    # used once in full in its own block and again in a later block
    [[(None, False, _leaf("lemon", ("qty", 1, None, "", ""))), ([("juice",)], False, ("step", ("squeeze",), [_leaf("lemon")]))],
     [(None, False, ("step", ("garnish",), [_leaf("cake"), ("step", ("zest",), [_leaf("lemon")])]))]],
    # a padded (quoted) spelling of an earlier name, as a statement of its own and as a step input
    [[(None, False, _leaf("spam")), (None, False, _leaf("spam ")), (None, False, ("step", ("fry",), [_leaf(" Spam")]))]],
    [[(None, False, _leaf("spam", ("qty", 100, "g", "", ""))), (None, False, ("leaf", None, ("spam  ",))), (None, False, _leaf("eggs"))]],
    # a titled (:=) definition whose only use is a statement that is just that reference
    [[([("sauce",)], True, ("step", ("boil",), [_leaf("tomato", ("qty", 400, "g", "", "")), _leaf("onion", ("qty", 1, None, "", ""))])),
      (None, False, _leaf("sauce"))]],
    [[([("stock",)], True, _leaf("bones", ("qty", 100, "g", "", ""))), (None, False, _leaf("stock", ("qty", 100, "g", " ", " of")))]],
    # a fold inside a definition that is itself used twice under different inputs of one step
    [[(None, False, _leaf("onion", ("qty", 1, None, "", ""))),
      ([("sauce",)], False, ("step", ("simmer",), [_leaf("onion"), _leaf("tomatoes", ("qty", 2, "cans", " ", ""))])),
      (None, False, ("step", ("layer",), [("step", ("mix",), [_leaf("sauce", ("prop", Fraction(1, 2), " of the")), _leaf("pasta")]),
                                           _leaf("sauce", ("rem", "remaining", "")), _leaf("cheese")]))]],
    [[(None, False, _leaf("carrots", ("qty", 3, None, "", ""))),
      ([("veg",), ("water",)], False, ("step", ("boil",), [_leaf("carrots")])),
      (None, False, ("step", ("serve",), [_leaf("veg"), ("step", ("make gravy",), [_leaf("water"), _leaf("granules")])]))]],
    # part of an amount given in a free-form unit (never the whole: not folded)
    [[(None, False, _leaf("thyme", ("xqty", 4, "sprigs", " ", ""))),
      (None, False, ("step", ("roast",), [_leaf("chicken"), _leaf("thyme", ("xqty", 2, "sprigs", " ", ""))]))]],
    [[(None, False, _leaf("thyme", ("xqty", 4, "sprigs", " ", ""))),
      (None, False, ("step", ("roast",), [_leaf("chicken"), _leaf("thyme", ("xqty", 4, "sprigs", " ", ""))]))]],
    # a use of nothing at all / of everything of nothing
    [[(None, False, _leaf("spam", ("qty", 100, "g", "", ""))), (None, False, ("step", ("fry",), [_leaf("spam", ("qty", 0, "g", "", "")), _leaf("eggs")]))]],
    [[(None, False, _leaf("spam", ("qty", 0, "g", "", ""))), (None, False, ("step", ("fry",), [_leaf("spam", ("qty", 0, "kg", " ", " of")), _leaf("eggs")]))]],
    [[(None, False, _leaf("spam", ("qty", 0, None, "", ""))), (None, False, ("step", ("fry",), [_leaf("spam", ("qty", 5, None, "", "")), _leaf("eggs")]))]],
    # a single use a few per cent off the whole amount
    [[(None, False, _leaf("spam", ("qty", 1, "kg", "", ""))), (None, False, ("step", ("fry",), [_leaf("spam", ("qty", 960, "g", "", " of")), _leaf("eggs")]))]],
    [[(None, False, _leaf("peas", ("qty", 100, None, "", ""))), (None, False, ("step", ("boil",), [_leaf("peas", ("qty", 103, None, "", "")), _leaf("water")]))]],
    # output names with text between two numbers that differs in letter case only: the same name
    [[([("dough for ", 2, " Large and ", 3, " small loaves")], False, ("step", ("knead",), [_leaf("flour")])),
      ([("dough for ", 2, " large and ", 3, " small loaves")], False, ("step", ("prove",), [_leaf("yeast")]))]],
    [[([("Big ", 4, " Rolls")], False, ("step", ("shape",), [_leaf("dough")]))], [([("big ", 4, " rolls")], True, ("step", ("bake",), [_leaf("other dough")]))]],
    # a name that begins like the second word of the preposition, used by proportion and by remainder
    [[([("thermidor",)], False, ("step", ("boil",), [_leaf("lobster", ("qty", 1, None, "", ""))])),
      (None, False, ("step", ("serve",), [_leaf("thermidor", ("prop", Fraction(1, 2), " of")), _leaf("rice")])),
      (None, False, ("step", ("freeze",), [_leaf("thermidor", ("rem", "rest", " of"))]))]],
    [[(None, False, _leaf("thermidor sauce", ("qty", 1, "can", " ", " of"))), (None, False, _leaf("offal", ("qty", 200, "g", "", "")))]],
    # an ingredient under two single-input steps defines its name
    [[(None, False, ("step", ("fried",), [("step", ("sliced",), [_leaf("spam", ("qty", 1, "can", " ", " of"))])])),
      (None, False, ("step", ("serve",), [_leaf("spam"), _leaf("eggs")]))]],
    # a name redefined in a later block
    [[([("batter",)], False, ("step", ("whisk",), [_leaf("eggs", ("qty", 2, None, "", "")), _leaf("flour", ("qty", 100, "g", "", ""))]))],
     [(None, False, _leaf("milk")), ([("batter",)], True, _leaf("egg", ("qty", 1, None, "", "")))]],
    # a statement with several outputs over a single quantified ingredient, one output used once by exactly that quantity (never folded)
    [[([("rashers",), ("fat",)], False, ("step", ("fry",), [_leaf("bacon", ("qty", 200, "g", "", ""))])),
      (None, False, ("step", ("serve",), [_leaf("rashers", ("qty", 200, "g", "", "")), _leaf("fat")]))]],
    [[([("rashers",), ("fat",)], True, ("step", ("fry",), [_leaf("bacon", ("qty", 200, "g", "", ""))])),
      (None, False, ("step", ("serve",), [_leaf("rashers", ("qty", 0.2, "kg", " ", " of the")), _leaf("eggs")]))]],
    [[([("whey",), ("curd",)], False, _leaf("milk", ("qty", 1, "l", " ", ""))), (None, False, ("step", ("press",), [_leaf("curd", ("qty", 1, "l", " ", ""))]))]],
    # an earlier definition folded into a statement with several outputs; a later use of an output that is not the first
    [[(None, False, _leaf("eggs", ("qty", 2, None, "", ""))), ([("white",), ("yolk",)], False, ("step", ("separate",), [_leaf("eggs")])),
      ([("custard",)], False, ("step", ("heat",), [_leaf("yolk", ("prop", Fraction(1, 2), " of the")), _leaf("milk")])),
      (None, False, ("step", ("whisk",), [_leaf("white"), _leaf("yolk", ("rem", "rest", " of the")), _leaf("custard")]))]],
    [[(None, False, _leaf("cane", ("qty", 1, "kg", " ", ""))), ([("juice",), ("syrup",), ("crystals",)], True, ("step", ("refine",), [_leaf("cane")]))],
     [(None, False, ("step", ("dust",), [_leaf("cake"), _leaf("crystals")]))]],
    # a fold in an earlier block; a later block defines something from its result which is then itself folded
    [[(None, False, _leaf("spam", ("qty", 100, "g", "", ""))), ([("meat",)], False, ("step", ("fry",), [_leaf("spam"), _leaf("oil")]))],
     [([("sandwich",)], False, ("step", ("assemble",), [_leaf("bread"), _leaf("meat")])), (None, False, ("step", ("serve",), [_leaf("sandwich"), _leaf("salad")]))]],
    # a chain whose lower link keeps its title (':='), resp. is measured in a free-form unit; the top is used once by the full quantity
    [[([("fried spam",)], True, ("step", ("fry",), [_leaf("spam", ("qty", 100, "g", "", ""))])), ([("meal",)], False, ("step", ("boil",), [_leaf("fried spam")])),
      (None, False, ("step", ("serve",), [_leaf("meal", ("qty", 100, "g", "", " of"))]))]],
    [[(None, False, _leaf("rice", ("xqty", 2, "handfuls", " ", ""))), ([("cooked rice",)], False, ("step", ("boil",), [_leaf("rice")])),
      ([("dinner",)], False, ("step", ("season",), [_leaf("cooked rice")])), (None, False, ("step", ("serve",), [_leaf("dinner", ("xqty", 2, "handfuls", " ", " of"))]))]],
    # an escaped zero and other escaped digits in a name (kept as text, never scaled); the same name written with the digits unescaped
    [[([("10 minute rice",)], False, ("step", ("boil",), [_leaf("rice", ("qty", 100, "g", "", ""))])),
      (None, False, ("step", ("rest 10 minutes then mix",), [_leaf("10 minute rice"), _leaf("peas")]))]],
    # a name with a number in braces next to the name with the same digits as text: two different names
    [[([("sauce for ", 2)], False, ("step", ("boil",), [_leaf("tomatoes", ("qty", 400, "g", "", "")), _leaf("water")])),
      (None, False, ("step", ("top with",), [_leaf("pasta"), ("leaf", None, ("sauce for ", 2)), _leaf("sauce for 2")]))]],
    [[([("dough ", Fraction(1, 2))], False, ("step", ("knead",), [_leaf("flour")])), ([("dough ", 0.5)], False, ("step", ("prove",), [_leaf("yeast")]))]],
    # the whole amount in another unit of the same kind, one or both unit names not in lower case
    [[([("meat",)], False, ("step", ("slice",), [_leaf("spam", ("qty", 1, "kg", " ", ""))])), (None, False, ("step", ("fry",), [_leaf("meat", ("qty", 1000, "G", " ", "")), _leaf("eggs")]))]],
    [[(None, False, _leaf("milk", ("qty", 2, "Pints", " ", " of"))), (None, False, ("step", ("warm",), [_leaf("milk", ("qty", 2, "PINT", "", "")), _leaf("sugar")]))]],
    [[(None, False, _leaf("butter", ("qty", 1, "LB", "", ""))), (None, False, ("step", ("cream",), [_leaf("butter", ("qty", 16, "Oz", " ", " of the")), _leaf("sugar")]))]],
    # a definition built on a reference (to something of an earlier block / used twice) has no quantity of its own: a use by quantity is never the whole
    [[(None, False, _leaf("spam", ("qty", 100, "g", "", "")))],
     [([("fried",)], False, ("step", ("fry",), [_leaf("spam")])), (None, False, ("step", ("boil",), [_leaf("fried", ("qty", 100, "g", "", "")), _leaf("water")]))]],
    [[(None, False, _leaf("spam", ("qty", 100, "g", "", ""))), ([("fried",)], False, ("step", ("fry",), [_leaf("spam", ("prop", Fraction(1, 2), " of the"))])),
      (None, False, ("step", ("boil",), [_leaf("fried", ("qty", 100, "g", "", "")), _leaf("spam", ("rem", "rest", " of the"))]))]],
    # the same number in a unit of another kind (single-unit kinds: bulbs / cloves, packet / sachet, cans / jars) is not the whole amount
    [[(None, False, _leaf("garlic", ("qty", 2, "bulbs", " ", ""))), (None, False, ("step", ("roast",), [_leaf("garlic", ("qty", 2, "cloves", " ", "")), _leaf("oil")]))]],
    [[(None, False, _leaf("yeast", ("qty", 1, "packet", " ", ""))), (None, False, ("step", ("bloom",), [_leaf("yeast", ("qty", 1, "sachet", " ", " of")), _leaf("water")]))]],
    [[(None, False, _leaf("garlic", ("qty", 2, "cloves", " ", ""))), (None, False, ("step", ("crush",), [_leaf("garlic", ("qty", 2, "g", "", ""))]))]],
    [[(None, False, _leaf("tomatoes", ("qty", 2, "cans", " ", ""))), (None, False, ("step", ("simmer",), [_leaf("tomatoes", ("xqty", 2, "jars", " ", "")), _leaf("basil")]))]],
    # a known unit on the definition, an unknown / oddly spaced one on the single use
    [[(None, False, _leaf("flour", ("qty", 200, "g", "", ""))), (None, False, ("step", ("knead",), [_leaf("flour", ("xqty", 2, "handfuls", " ", "")), _leaf("water")]))]],
    [[(None, False, _leaf("salt", ("qty", 1, "tsp", " ", ""))), (None, False, ("step", ("mix",), [_leaf("salt", ("qty", 1, "tea  spoon", " ", ""))]))]],
    # names that differ only under full Unicode case folding are different names
    [[([("So\u00dfe",)], False, ("step", ("einkochen",), [_leaf("Tomaten", ("qty", 400, "g", "", ""))])),
      (None, False, ("step", ("anrichten",), [_leaf("Nudeln", ("qty", 200, "g", "", "")), _leaf("Sosse")]))]],
    [[([("\ufb01let",)], False, ("step", ("trim",), [_leaf("beef", ("qty", 1, "kg", " ", ""))])), (None, False, ("step", ("sear",), [_leaf("filet"), _leaf("\ufb01let")]))]],
    # a titled link inside a chain used once by the full quantity (folded through the title)
    [[([("filling",)], True, ("step", ("slice",), [_leaf("spam", ("qty", 100, "g", "", ""))])), ([("meat",)], False, ("step", ("fry",), [_leaf("filling")])),
      (None, False, ("step", ("boil",), [_leaf("meat", ("qty", 100, "g", "", "")), _leaf("water")]))]],
    # proportions above one written with a preposition ('2 of the egg wash'): proportions, not quantities - never scaled
    [[([("egg wash",)], False, ("step", ("beat",), [_leaf("egg", ("qty", 1, None, "", "")), _leaf("milk")])),
      (None, False, ("step", ("brush",), [_leaf("egg wash", ("prop", 2, " of the")), _leaf("pastry")])),
      (None, False, ("step", ("glaze",), [_leaf("egg wash", ("prop", 3, " of")), _leaf("buns")]))]],
    # whole numbers beyond 2^53 as a quantity and inside a description: read exactly
    [[(None, False, _leaf("rice grains", ("qty", 9007199254740993, None, "", ""))),
      (None, False, ("step", ("count ", 10000000000000001, " times"), [_leaf("rice grains"), _leaf("flour", ("qty", 18014398509481985, "g", " ", ""))]))]],
    # used whole once in its own block and mentioned again, by another amount, in a later block (never folded); the titled variant
    [[([("sauce",)], False, ("step", ("boil",), [_leaf("tomatoes", ("qty", 400, "g", "", ""))])), (None, False, ("step", ("pour",), [_leaf("sauce"), _leaf("pasta")]))],
     [(None, False, ("step", ("dip",), [_leaf("sauce", ("qty", 2, "tbsp", " ", " of")), _leaf("bread")]))]],
    [[([("sauce",)], True, ("step", ("boil",), [_leaf("tomatoes", ("qty", 400, "g", "", ""))])), (None, False, ("step", ("pour",), [_leaf("sauce"), _leaf("pasta")]))],
     [(None, False, ("step", ("dip",), [_leaf("sauce"), _leaf("bread")]))]],
    # names that differ only in punctuation are different names
    [[([("salt & pepper",)], False, ("step", ("grind",), [_leaf("peppercorns")])), (None, False, ("step", ("season",), [_leaf("salt & pepper"), _leaf("salt # pepper"), _leaf("salt pepper")]))]],
    [[([("50% \"rye\"",)], False, ("step", ("mix",), [_leaf("rye flour")])), (None, False, ("step", ("shape",), [_leaf("50% \"rye\""), _leaf("50 'rye'"), _leaf("50-rye")]))]],
    # adjacent literals separated by several blanks / a tab are part of the name as written
    [[([("white  sauce",)], False, ("step", ("whisk",), [_leaf("milk")])), (None, False, ("step", ("pour",), [_leaf("white sauce"), _leaf("white  sauce")]))]],
    # output names of one statement equal up to letter case / padding (a redefinition)
    [[([("Stock",), ("stock ",)], False, ("step", ("boil",), [_leaf("bones")])), (None, False, ("step", ("sip",), [_leaf("stock")]))]],
    [[([("a",), ("B",), ("A",)], True, ("step", ("split",), [_leaf("x")]))]],
    # a step with the same input written several times, after a fold elsewhere in the description
    [[(None, False, _leaf("onion", ("qty", 1, None, "", ""))), ([("sauce",)], False, ("step", ("fry",), [("step", ("chop",), [_leaf("onion")]), _leaf("tomatoes", ("qty", 400, "g", "", ""))])),
      (None, False, ("step", ("layer",), [_leaf("pasta sheets", ("qty", 3, None, "", "")), _leaf("sauce", ("prop", Fraction(1, 3), " of the")), _leaf("pasta sheets", ("qty", 3, None, "", "")),
                                           _leaf("sauce", ("prop", Fraction(1, 3), " of the")), _leaf("pasta sheets", ("qty", 3, None, "", "")), _leaf("sauce", ("prop", Fraction(1, 3), " of the"))]))]],
]


class Gen:
    def __init__(self, rng, names=None, steps=None):
        self.rng = rng
        self.names = names or NAME_POOL
        self.steps = steps or STEP_POOL
        self.defined = {}     # normalised key (SVS) -> total (value, unit) or None

    def expr(self, depth):
        rng = self.rng
        if depth <= 0 or rng.random() < 0.45:
            nm = rng.choice(self.names)
            key = svs_key(nm)
            if key in self.defined or rng.random() < 0.03:
                return ("leaf", gen_ref_amount(rng, self.defined.get(key)), nm)
            return ("leaf", gen_quantity(rng) if rng.random() < 0.6 else None, nm)
        inputs = [self.expr(depth - 1) for _ in range(rng.choice([1, 1, 2, 3]))]
        if len(inputs) > 1 and rng.random() < 0.12:
            # the same input written twice (identical references / ingredients in one step)
            inputs.insert(rng.randrange(len(inputs) + 1), rng.choice(inputs))
        return ("step", rng.choice(self.steps), inputs)

    def stmt(self, depth=None):
        rng = self.rng
        outs, named = None, False
        if rng.random() < 0.35:
            outs = [rng.choice(self.names) for _ in range(rng.choice([1, 1, 1, 2]))]
            if len(outs) == 2 and rng.random() < 0.15 and isinstance(outs[0][0], str):
                # a second name that differs from the first only in letter case / surrounding space
                outs[1] = (rng.choice([outs[0][0].upper(), outs[0][0].title(), outs[0][0] + " "]),) + tuple(outs[0][1:])
            named = rng.random() < 0.4
        e = self.expr(rng.randint(0, 3) if depth is None else depth)
        t = e
        while t[0] == "step" and len(t[2]) == 1:
            t = t[2][0]
        total = None
        if t[0] == "leaf" and t[1] is not None and t[1][0] in ("qty", "xqty"):
            total = (t[1][1], t[1][2])
        elif t[0] == "leaf" and t[1] is None and svs_key(t[2]) in self.defined:
            # a chain over a whole reference: once that definition is folded in, its total becomes this one's
            total = self.defined[svs_key(t[2])]
        if outs:
            for o in outs:
                self.defined.setdefault(svs_key(o), total if len(outs) == 1 else None)
        elif t[0] == "leaf":
            self.defined.setdefault(svs_key(t[2]), total)
        return (outs, named, e)

    def chain(self, n):
        """a quantified ingredient, a named definition built on a whole reference to it, and a use of that definition
        stating the whole amount as a quantity (possibly in another unit): two dependent folds"""
        rng = self.rng
        a, b = ("chain base %d" % n,), ("chain made %d" % n,)
        q = gen_quantity(rng)
        while q[0] != "qty":
            q = gen_quantity(rng)
        s1 = (None, False, ("leaf", q, a) if rng.random() < 0.7 else ("step", rng.choice(self.steps), [("leaf", q, a)]))
        s2 = ([b], rng.random() < 0.3, ("step", rng.choice(self.steps), [("leaf", rng.choice([None, None, ("rem", "rest", " of the")]), a)]))
        use = gen_quantity(rng, (q[1], q[2])) if rng.random() < 0.8 else gen_ref_amount(rng, (q[1], q[2]))
        s3 = (None, False, ("step", rng.choice(self.steps), [("leaf", use, b), ("leaf", None, rng.choice(self.names))]))
        self.defined.setdefault(svs_key(a), (q[1], q[2]))
        self.defined.setdefault(svs_key(b), (q[1], q[2]))
        return [s1, s2, s3]

    def desc(self, nblocks=None, nstmts=None):
        rng = self.rng
        self.defined = {}
        blocks = [[self.stmt() for _ in range(nstmts or rng.randint(1, 5))] for _ in range(nblocks or rng.choice([1, 1, 2, 3]))]
        if rng.random() < 0.2:
            ch = self.chain(rng.randint(0, 9))
            bi = rng.randrange(len(blocks))
            if rng.random() < 0.8:
                blocks[bi].extend(ch)                      # all in one block: both folds happen
            else:
                blocks[bi].extend(ch[:2])                  # the use in a later block: the second fold must not happen
                blocks.append(ch[2:])
        return blocks


# ------------------------------------------------------------------ the documented meaning (by name)
class Rejected(Exception):
    def __init__(self, kind, where):
        self.kind, self.where = kind, where


def to_quantity(a):
    _, v, unit, spacing, prep = a
    return Quantity(v, unit, spacing if unit is not None else "", prep)


def to_amount(a):
    if a is None:
        return Proportion(1.0)
    k = a[0]
    if k in ("qty", "xqty"):
        return to_quantity(a)
    if k == "rem":
        return Proportion(None, None, a[1], a[2])
    if k == "prop":
        return Proportion(a[1], False, None, a[2])
    if k == "pct":
        return Proportion(a[1] / 100, True, None, a[2])
    if k == "times":
        return Proportion(a[1], False, None, a[2] + "*")
    raise ValueError(k)


def meaning(desc, fold=True):
    """list of Recipe objects prescribed by the language reference, or raise Rejected"""
    defined = {}          # normalised name -> (stmt id, output index)
    stmts = []

    def el(e, key):
        if e[0] == "step":
            return ("step", raw_svs(e[1]), tuple(el(x, key + (i,)) for i, x in enumerate(e[2])))
        _, amt, name = e
        nm = raw_svs(name)
        nn = own_key(name)
        if nn in defined:
            sid, idx = defined[nn]
            return ("ref", sid, idx, to_amount(amt))
        if amt is not None and amt[0] not in ("qty", "xqty"):
            raise Rejected("proportion", ("amt", key))
        return ("ing", nm, to_quantity(amt) if amt is not None else None)

    def single_ing(t):
        if t[0] == "ing":
            return t
        if t[0] == "step" and len(t[2]) == 1:
            return single_ing(t[2][0])
        return None

    for b, block in enumerate(desc):
        for j, (outs, named, e) in enumerate(block):
            tree = el(e, (b, j))
            names, show = None, True
            if outs:
                names = tuple(raw_svs(o) for o in outs)
            else:
                si = single_ing(tree)
                if si is not None:
                    names, show = (si[1],), False
            sid = len(stmts)
            if names:
                for idx, nm in enumerate(names):
                    nn = own_key(nm._string)
                    if nn in defined:
                        raise Rejected("redefined", ("out", (b, j), idx))
                    defined[nn] = (sid, idx)
            stmts.append(dict(block=b, tree=tree, names=names, show=show, named=named, folded=False))

    def refs(t, acc):
        if t[0] == "ref":
            acc.append(t)
        elif t[0] == "step":
            for x in t[2]:
                refs(x, acc)
        elif t[0] == "sub":
            refs(t[1], acc)

    def where_refs(sid):
        out = []
        for s in stmts:
            if s["folded"]:
                continue
            acc = []
            refs(s["tree"], acc)
            out += [(r, s["block"]) for r in acc if r[1] == sid]
        return out

    def inferred_qty(t):
        if t[0] == "ing":
            return t[2]
        if t[0] == "step" and len(t[2]) == 1:
            return inferred_qty(t[2][0])
        if t[0] == "sub" and len(t[2]) == 1:
            return inferred_qty(t[1])
        return None

    def subst(t, sid, new):
        if t[0] == "ref" and t[1] == sid:
            return new
        if t[0] == "step":
            return ("step", t[1], tuple(subst(x, sid, new) for x in t[2]))
        if t[0] == "sub":
            return ("sub", subst(t[1], sid, new), t[2], t[3])
        return t

    folds = 0
    if fold:
        for sid, s in enumerate(stmts):
            if not s["names"] or len(s["names"]) != 1:
                continue
            rs = where_refs(sid)
            if len(rs) != 1 or rs[0][1] != s["block"]:
                continue
            amt = rs[0][0][3]
            iq = inferred_qty(s["tree"])
            full = (isinstance(amt, Proportion) and (amt.value is None or amt.value == 1.0)) or \
                   (isinstance(amt, Quantity) and iq is not None and own_equal_value(amt, iq))
            if not full:
                continue
            body = s["tree"] if not s["named"] else ("sub", s["tree"], s["names"], s["show"])
            s["folded"] = True
            folds += 1
            for s2 in stmts:
                if not s2["folded"]:
                    s2["tree"] = subst(s2["tree"], sid, body)

    built = {}

    def build(t):
        if t[0] == "ing":
            return Ingredient(t[1], t[2])
        if t[0] == "step":
            return Step(t[1], tuple(build(x) for x in t[2]))
        if t[0] == "sub":
            return SubRecipe(build(t[1]), t[2], t[3])
        return Reference(built[t[1]], t[2], t[3])

    out = [[] for _ in desc]
    for sid, s in enumerate(stmts):
        if s["folded"]:
            continue
        tr = build(s["tree"])
        if s["names"]:
            tr = SubRecipe(tr, s["names"], s["show"])
            built[sid] = tr
        out[s["block"]].append(tr)
    recipes, prev = [], None
    for trees in out:
        prev = Recipe(tuple(trees), prev)
        recipes.append(prev)
    return recipes, folds


def desc_repr(desc):
    return repr(desc)


# ------------------------------------------------------------------ the string-with-numbers type itself, against its documented normal form
def check_svs_algebra(rng, n):
    """ScaledValueString against own_parts / own_key on generated part lists (empty text, zeros of every type, blank-only text, text after
    numbers in either case): construction, strip, lower, concatenation, scaling, rendering, equality and hashing"""
    from recipe_grid.number_formatting import format_number
    out = []
    pool = ["", " ", "  ", "a", "B c", " Lead", "trail ", "\tTab", "ß", "Éclair", 0, 0.0, Fraction(0), 1, 2, 2.0, Fraction(1, 2), 0.5, 10, Fraction(7, 3)]
    for _ in range(n):
        parts = [rng.choice(pool) for _ in range(rng.randint(0, 5))]
        other = [rng.choice(pool) for _ in range(rng.randint(0, 3))]
        k = rng.choice([1, 2, 3, Fraction(1, 2), Fraction(3, 2)])

        def typed(ps):
            return tuple((type(p).__name__, p) for p in ps)
        try:
            s = SVS(list(parts))
            checks = [
                ("construct", typed(s._string), typed(own_parts(parts))),
                ("strip+lower", typed(s.strip().lower()._string), typed(own_key(parts))),
                ("lower", typed(s.lower()._string), typed(tuple(p.lower() if isinstance(p, str) else p for p in own_parts(parts)))),
                ("upper", typed(s.upper()._string), typed(tuple(p.upper() if isinstance(p, str) else p for p in own_parts(parts)))),
                ("concatenate", typed((s + SVS(list(other)))._string), typed(own_parts(list(parts) + list(other)))),
                ("scale", typed(s.scale(k)._string), typed(tuple(p if isinstance(p, str) else p * k for p in own_parts(parts)))),
                ("render", s.render(), "".join(p if isinstance(p, str) else format_number(p) for p in own_parts(parts))),
                ("equality", s == SVS(list(own_parts(parts))), True),
                ("hash", hash(s) == hash(SVS(list(own_parts(parts)))), True),
                ("equality-of-different", s == SVS(list(parts) + ["x"]), False),
            ]
        except Exception as e:  # noqa
            out.append(("string-with-numbers-raises:%s" % type(e).__name__, "parts %r" % (parts,)))
            continue
        for what, got, want in checks:
            if got != want:
                out.append(("string-with-numbers-%s-wrong" % what, "parts %r (+ %r, x %r): %r, expected %r" % (parts, other, k, got, want)))
                break
    return out
