#!/venv/bin/python
"""Correspondence for task L6: the source -> page table of HomePage.make_source_to_page_paths_lookup() against the Lean model
`sourceToPagePathsWith` (Model/SiteSources.lean), and resolve_local_links on one-link documents against `rewriteDecision` fed with the
MODEL's table entry.  Also checks, on the real code, the property proved in Props/C14c.lean (the rewritten link, resolved against the
referring page, is the page of the linked source at the reader's serving count).

usage: /venv/bin/python corr_L6.py [seed] [number of trees]          exit status 1 on any disagreement / violation"""
import os
import posixpath
import random
import shutil
import sys
from collections import Counter
from pathlib import Path
from urllib.parse import quote, unquote, urlsplit

HERE = Path(__file__).resolve().parent.parent
sys.path.insert(0, str(HERE))

from harness import sexp, gen_site                      # noqa: E402
from harness.core import Run                            # noqa: E402
from harness.props.c16 import run_resolve               # noqa: E402
from recipe_grid.static_site.website import HomePage, RecipePage, CategoryPage          # noqa: E402
from recipe_grid.static_site.exceptions import MaxServingsLowerThanLargestRecipeError   # noqa: E402

SEED = int(sys.argv[1]) if len(sys.argv) > 1 else 20260930
NTREES = int(sys.argv[2]) if len(sys.argv) > 2 else 400

dist = Counter()
disagreements = []
violations = []


def readme_names_sexp(d):
    out = []
    for rel, dd in gen_site.walk(d):
        if dd["readme"] is not None:
            out.append(sexp.tag("rd", sexp.lst(sexp.s, rel.split("/") if rel else []), sexp.s(dd["readme"]["file"])))
    return "(l" + "".join(" " + x for x in out) + ")"


def hand_trees():
    """corner cases: empty tree, readme only at the root, deep chain, the same recipe file name in several directories, titles that tie
    (order decided by the file / directory name), native count = M, unscalable recipes only, a directory called `serves1` / `categories`"""
    def rec(file, title, servings):
        return dict(file=file, title=title, servings=servings, links=[])

    def dr(name, readme=None, recipes=(), subdirs=()):
        return dict(name=name, readme=None if readme is None else dict(file=readme[0], title=readme[1], links=[]),
                    recipes=list(recipes), subdirs=list(subdirs), assets=[])
    yield dr("empty"), 1
    yield dr("empty"), 0
    yield dr("only readme", ("README.md", "Welcome")), 2
    yield dr("r", ("index.md", "Home"), [rec("a.md", "A", 2), rec("b.md", "B", None)],
             [dr("soups", ("ReadMe.MD", "Soups"), [rec("a.md", "A", 1), rec("leek.md", "Leek", None)]),
              dr("cakes", None, [rec("a.md", "Same", 2), rec("b.md", "Same", 2)], [dr("deep", ("INDEX.md", "Deep"), [rec("z.md", "Z", 3)])])]), 3
    yield dr("ties", None, [rec("b.md", "Same", None), rec("a.md", "Same", None), rec("c.md", "Same", 1)],
             [dr("b", ("README.md", "T")), dr("a", ("README.md", "T")), dr("T")]), 1
    yield dr("scale names", None, [rec("index.md2.md", "I", 1)],
             [dr("serves1", None, [rec("x.md", "X", 1)]), dr("categories", ("readme.md", "Cats"), [rec("index.x.md", "Y", None)]),
              dr("css"), dr("assets", None, [rec("style.md", "S", 2)])]), 2
    yield dr("too many", None, [rec("x.md", "X", 3)], [dr("s", None, [rec("y.md", "Y", 4)])]), 3
    yield dr("chain", None, [], [dr("a", None, [], [dr("b", None, [], [dr("c", ("index.md", "C"), [rec("r.md", "R", 1), rec("u.md", "U", None)])])])]), 4
    yield dr("unscalable only", ("README.md", "U"), [rec("u.md", "U", None)], [dr("d", None, [rec("u.md", "V", None)])]), 2
    yield dr("é ü", ("README.md", "Ünï"), [rec("a b.md", "R & b", 2), rec("日本.MD", "R a", None)],
             [dr("ça va", ("index.md", "A & B"), [rec("x y.md", "Ünï R", 1)]), dr("my Dir", None, [rec("q.md", "same", 2)])]), 2


def gen_cases(rng):
    for d, M in hand_trees():
        yield d, M, "hand"
    for i in range(NTREES):
        url_names = rng.random() < 0.25
        d = gen_site.gen_tree(rng, rng.randint(0, 3), gen_site.SAFE_NAMES, url_names=url_names, p_readme=rng.choice([0.2, 0.5, 0.9]),
                              servings_pool=rng.choice([(None, 1, 2, 3), (None, 1, 2), (None, None, 1), (1, 2, 3, 4), (None,)]))
        yield d, rng.randint(1, 4), "random" + ("+urlnames" if url_names else "")


def expected_target(kind, dirs, r, from_path):
    """the page an authored link must lead to, written from the property text (independent of both code and model)"""
    scale = from_path.split("/")[1]
    under = scale.startswith("serves") and from_path.count("/") > 1
    rel = "".join(x + "/" for x in dirs)
    if kind == "recipe":
        stem = r["file"].rpartition(".")[0]
        if r["servings"] is None:
            return "/categories/" + rel + stem + ".html"
        return "/" + (scale if under else "serves%d" % r["servings"]) + "/" + rel + stem + ".html"
    if kind == "readme" and not dirs:
        return "/index.html"
    return "/" + (scale if under else "categories") + "/" + rel + "index.html"


def main():
    rng = random.Random(SEED)
    run = Run("L6", "quick", SEED)
    ntrees = 0
    for d, M, origin in gen_cases(rng):
        ntrees += 1
        scratch = gen_site.scratch_root()
        try:
            root_name = rng.choice(["my site", "book", "Küche 2", "recipes_v2"])
            src = scratch / root_name
            gen_site.write_tree(d, src)
            gen_site.listing_order(d, src)
            rootres = src.resolve()
            req = sexp.tag("site-sources", gen_site.tree_sexp(d), sexp.s(root_name), str(M), readme_names_sexp(d))
            try:
                # exactly what generate_static_site does before rendering
                home = HomePage.from_root_directory(root_directory=rootres, max_servings=M)
                lookup = home.make_source_to_page_paths_lookup()
                err = None
            except MaxServingsLowerThanLargestRecipeError as e:
                err = e
            m = run.ask([req])[0]
            if err is not None:
                dist["tree:%s:MaxServingsLowerThanLargestRecipeError" % origin] += 1
                if not (isinstance(m, tuple) and m[0] == "max-servings-too-low"):
                    disagreements.append(("table", gen_site.tree_sexp(d), M, "MaxServingsLowerThanLargestRecipeError", repr(m)[:300]))
                continue
            dist["tree:%s:ok" % origin] += 1
            real = [(list(k.relative_to(rootres).parts), v[0], v[1]) for k, v in lookup.items()]
            if not (isinstance(m, tuple) and m[0] == "ok"):
                disagreements.append(("table", gen_site.tree_sexp(d), M, real[:5], repr(m)[:300]))
                continue
            model = [(list(e[1]), e[2], e[3]) for e in m[1]]
            dist["table entries compared"] += len(real)
            if real != model:
                if sorted(real) == sorted(model):
                    disagreements.append(("table-order", gen_site.tree_sexp(d), M, real, model))
                else:
                    disagreements.append(("table", gen_site.tree_sexp(d), M, [x for x in real if x not in model], [x for x in model if x not in real]))
                continue
            model_tab = {tuple(k): (w, sc) for k, w, sc in model}

            # ---- what kind of source each key is (from the abstract tree): every source must have exactly one entry
            sources = []
            for rel, dd in gen_site.walk(d):
                dirs = rel.split("/") if rel else []
                sources.append(("dir", dirs, tuple(dirs), None))
                if dd["readme"] is not None:
                    sources.append(("readme", dirs, tuple(dirs + [dd["readme"]["file"]]), None))
                for r in dd["recipes"]:
                    sources.append(("recipe", dirs, tuple(dirs + [r["file"]]), r))
            keys = [k for _, _, k, _ in sources]
            if sorted(keys) != sorted(model_tab) or len(set(keys)) != len(keys):
                violations.append(("sources_complete", gen_site.tree_sexp(d), M, sorted(set(keys) ^ set(model_tab))))
            for kind, dirs, key, r in sources:
                w, sc = model_tab.get(key, (None, None))
                dist["entry:%s%s" % (kind, "" if kind != "recipe" else (":scalable" if r["servings"] else ":unscalable"))] += 1
                if sc != (not (kind == "recipe" and r["servings"] is None)):
                    violations.append(("scalable flag", gen_site.tree_sexp(d), M, key, sc))

            # ---- pages of the real site and the sources of the documents they render
            pages = []
            for p in home.iter_all_pages():
                if isinstance(p, RecipePage):
                    doc = p.recipe_source
                elif isinstance(p, CategoryPage):
                    doc = p.description_source if p.description_source is not None else p.source_directory / "README.md"
                else:
                    doc = p.welcome_message_source if p.welcome_message_source is not None else rootres / "README.md"
                pages.append((p.path, doc))
            page_paths = {p for p, _ in pages}
            for w, sc in model_tab.values():
                if w not in page_paths:
                    violations.append(("sources_point_at_pages", gen_site.tree_sexp(d), M, w))

            # ---- one-link documents: (fromPage, source) pairs
            npairs = 40 if len(pages) * len(sources) > 40 else len(pages) * len(sources)
            allpairs = [(p, s) for p in pages for s in sources]
            chosen = allpairs if len(allpairs) <= npairs else rng.sample(allpairs, npairs)
            reqs, meta = [], []
            for (from_path, doc), (kind, dirs, key, r) in chosen:
                t = "/".join(key)
                docdir = posixpath.relpath(str(doc.parent), str(rootres))
                form = rng.choice(["abs", "rel", "rel", "dot", "enc"])
                if form == "abs":
                    url = "/" + quote(t)
                else:
                    url = quote(posixpath.relpath(t or ".", docdir))
                    if form == "dot" and not url.startswith("."):
                        url = "./" + url
                    if form == "enc":
                        # percent-encode also characters that need not be encoded
                        url = "".join(c if c == "/" else ("".join("%%%02X" % b for b in c.encode()) if rng.random() < 0.3 else quote(c))
                                      for c in posixpath.relpath(t or ".", docdir))
                if kind == "dir" and rng.random() < 0.5 and not url.endswith("/") and url not in (".", ".."):
                    url += "/"
                url += rng.choice(["", "", "#frag", "?q=1"])
                parts = urlsplit(url)
                if parts.path == "":
                    continue
                real_out, assets = run_resolve(rootres, doc, from_path, url, lookup)
                # the resolved file system path, as the code computes it
                path = unquote(parts.path)
                fs = (rootres / Path(*path.split("/")[1:])) if path.startswith("/") else (doc.parent / Path(*path.split("/")))
                fs = fs.resolve()
                try:
                    relkey = tuple(fs.relative_to(rootres).parts)
                except ValueError:
                    relkey = None
                if relkey != key:
                    violations.append(("harness: url does not name the source", url, str(doc), key, relkey))
                    continue
                entry = model_tab.get(relkey)
                reqs.append(sexp.tag("rewrite", sexp.s(parts.scheme), sexp.s(parts.netloc), sexp.s(parts.path), sexp.lst(sexp.s, fs.parts[1:]),
                                     sexp.lst(sexp.s, rootres.parts[1:]), sexp.b(fs.is_file()),
                                     sexp.opt(lambda x: sexp.tag("lk", sexp.s(x[0]), sexp.b(x[1])), entry), sexp.s(from_path), sexp.s("/assets")))
                meta.append((url, parts, from_path, kind, dirs, key, r, real_out, assets))
            rep = run.ask(reqs)
            # the model's RFC 3986 resolution (the one the theorems speak about) of the href the real code wrote
            res_reqs = [sexp.tag("resolve", sexp.s(x[2]), sexp.s(unquote(urlsplit(x[7][1]).path))) if x[7][0] == "href" and x[7][1] is not None
                        else sexp.tag("resolve", sexp.s("/"), sexp.s("")) for x in meta]
            res_rep = run.ask(res_reqs)
            for (url, parts, from_path, kind, dirs, key, r, real_out, assets), mm, mres in zip(meta, rep, res_rep):
                scale = from_path.split("/")[1]
                where = "home" if from_path == "/index.html" else ("serves" if scale.startswith("serves") else "categories")
                dist["link:%s->%s%s" % (where, kind, "" if kind != "recipe" else (":scalable" if r["servings"] else ":unscalable"))] += 1
                if isinstance(mm, tuple) and mm[0] == "page":
                    model_out = ("href", parts._replace(path=mm[1]).geturl())
                else:
                    model_out = mm
                if real_out != model_out:
                    disagreements.append(("rewrite", gen_site.tree_sexp(d), M, url, from_path, real_out, model_out))
                    continue
                if assets:
                    violations.append(("page link logged as asset", url, from_path, assets))
                # the property on the real code
                if real_out[0] != "href":
                    violations.append(("authored link refused", gen_site.tree_sexp(d), M, url, from_path, real_out))
                    continue
                landed = gen_site.resolve(from_path, real_out[1])
                want = expected_target(kind, dirs, r, from_path)
                if mres != landed:
                    disagreements.append(("resolveRef", from_path, real_out[1], landed, mres))
                if landed != want or landed not in page_paths:
                    violations.append(("authored_link_target", gen_site.tree_sexp(d), M, {"from": from_path, "url": url, "written": real_out[1],
                                                                                           "lands": landed, "expected": want, "is page": landed in page_paths}))
                if urlsplit(real_out[1]).fragment != parts.fragment or urlsplit(real_out[1]).query != parts.query:
                    violations.append(("query/fragment lost", url, real_out[1]))
        finally:
            shutil.rmtree(scratch, ignore_errors=True)

    # ---- malformed requests: the driver must answer every line, with a bad-request
    bad = ["(site-sources)", "(site-sources (dir) (s) 1)", "(site-sources (dir (s 97) none (l) (l)) (s 97) x)",
           "(site-sources (dir (s 97) none (l) (l)) (s 97) 1 (l (rd (s 97) (s 97))))", "(site-sources (dir (s 97) none (l (rf (s 97))) (l)) (s 97) 1)",
           "(site-sources (dir (s 97) none (l) (l)) (s 97) 1 (l) (l))"]
    for b, m in zip(bad, run.ask(bad)):
        dist["malformed request"] += 1
        if not (isinstance(m, tuple) and m[0] == "bad-request"):
            disagreements.append(("malformed", b, "bad-request", repr(m)[:200]))

    print("corr_L6: seed %d, %d trees" % (SEED, ntrees))
    for k in sorted(dist):
        print("  %-50s %d" % (k, dist[k]))
    print("disagreements (model vs code): %d" % len(disagreements))
    for x in disagreements[:20]:
        print("  DISAGREE", repr(x)[:1500])
    print("property violations on the real code: %d" % len(violations))
    for x in violations[:20]:
        print("  VIOLATION", repr(x)[:1500])
    sys.exit(1 if disagreements or violations else 0)


if __name__ == "__main__":
    main()
