"""Canonical outcome of the real `compile` and of the Lean model's `compile`."""
from peggie import ParseError
from recipe_grid.compiler import compile as rg_compile, NameRedefinedError, ProportionGivenForIngredientError, RecipeCompileError
from recipe_grid.parser import parse as rg_parse

from . import sexp, rsexp


def real_outcome(texts):
    """("ok", canonical blocks, recipes) | ("syntax", block, err) | ("redefined"/"proportion", off, line, col, snippet, err)
       | ("exception", class name, message)"""
    try:
        recipes = rg_compile(list(texts))
        try:
            canon = rsexp.c_blocks(recipes)
        except (OverflowError, ValueError):
            # a decimal literal beyond the binary64 range reads as float('inf'): outside the model's numbers (exact rationals)
            canon = "non-finite-float"
        return ("ok", canon, recipes)
    except ParseError as e:
        b = None
        for i, t in enumerate(texts):
            try:
                rg_parse(t)
            except ParseError:
                b = i
                break
            except Exception:
                break
        return ("syntax", b, e)
    except NameRedefinedError as e:
        return ("redefined", e.second_output_name_definition.offset, e.line, e.column, e.snippet, e)
    except ProportionGivenForIngredientError as e:
        return ("proportion", e.ast_reference.offset, e.line, e.column, e.snippet, e)
    except RecursionError as e:
        return ("exception", "RecursionError", "")
    except Exception as e:  # noqa
        return ("exception", type(e).__name__, str(e)[:120])


def model_requests(texts_list):
    return [sexp.tag("compile", sexp.lst(sexp.s, t)) for t in texts_list]


def same(real, model):
    """compare a real outcome with the decoded model reply"""
    k = real[0]
    if k == "ok" and real[1] == "non-finite-float":
        return True
    if k == "ok":
        return isinstance(model, tuple) and model[0] == "ok" and rsexp.d_blocks(model[1]) == real[1]
    if k == "syntax":
        return isinstance(model, tuple) and model[0] == "syntax" and model[1] == real[1]
    if k in ("redefined", "proportion"):
        return isinstance(model, tuple) and model[0] == k and tuple(model[2:6]) == (real[1], real[2], real[3], real[4])
    if k == "exception":
        if real[1] == "ZeroDivisionError":
            return isinstance(model, tuple) and model[0] == "zerodiv"
        if real[1] in ("RecursionError", "OverflowError"):
            return True   # outside what a total model over unbounded numbers can exhibit; covered by the C07 oracle
        return isinstance(model, tuple) and model[0] == "internal" and model[1] == real[1]
    return False


def brief(real):
    return real[:2] if real[0] != "ok" else ("ok",)
