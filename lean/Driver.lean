import RecipeGrid.Model.Dispatch
open RG

partial def loop (hin hout : IO.FS.Stream) : IO Unit := do
  let line ← hin.getLine
  if line.isEmpty then return ()
  let reply := match Sexp.parse line with
    | some req => dispatch req
    | none => err "parse"
  hout.putStrLn reply.toStr
  loop hin hout

def main : IO Unit := do
  let hin ← IO.getStdin
  let hout ← IO.getStdout
  loop hin hout
  hout.flush
