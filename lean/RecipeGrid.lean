import RecipeGrid.Model.Sexp
import RecipeGrid.Model.Num
import RecipeGrid.Model.Fmt
