import RecipeGrid.Model.Parser
import RecipeGrid.Model.Text
/-! Where a syntax error is reported: `recipe_grid.parser.parse` → peggie `Parser.parse` → `_get_parse_error`.

    peggie appends every failed expression to `_parse_failures` and reports `max(failure.offset)`.  As checked
    against `peggie/parser.py` (and exactly, on generated inputs, by `corr_L1.py`):

    * a `RegexExpr` (a quoted literal is one, too) that does not match fails at the offset where it was tried —
      whatever the regex did internally; a regex that matches records nothing;
    * `Alt`, `Concat`, `Rule`, `Plus` fail at the offset where they started (a failed expression always leaves the
      offset where it started), and only after one of their parts has failed at an offset that is at least that:
      they never change the maximum;
    * `x?` is `x / <empty>` and `x*` stops at the first failure of `x`: the failures of `x` stay recorded although the
      enclosing expression succeeds; nothing is ever removed on backtracking;
    * the negative lookahead `eof <- !.` fails at the current offset and the failures noted inside it (the `.` at the
      end of the text) are erased: `eof` behaves as one terminal that records nothing when it succeeds;
    * the packrat cache replays a cached failure (same offset) and skips the failures inside a cached success, which
      were recorded when it was first computed: the set of recorded offsets is that of the parser without a cache.

    So the reported offset is the largest offset at which a *terminal* of the grammar was tried and did not match.
    This file is a copy of `Model/Parser.lean` in a monad that also collects that maximum: the result of a run is the
    result of the plain parser together with `far`, the largest offset at which a terminal failed during the run
    (`none`: no terminal failed).  The terminals are the scanners of `Model/Parser.lean`, run atomically (`term`).

    Everything is total; `Lemmas/ParserErr.lean` proves that forgetting `far` gives back `Model/Parser.lean`. -/
namespace RG

inductive ParseResultE where
  | ok (stmts : List AStmt)
  /-- the text is rejected; `offset` is the furthest failure -/
  | syntaxError (offset : Nat)
deriving Inhabited

/-- forget the position of the error -/
def ParseResultE.erase : ParseResultE → ParseResult
  | .ok stmts => .ok stmts
  | .syntaxError _ => .syntaxError

namespace ParserE
open Parser (P PState spanEnd sat anyChar unescape natOfDigits BracketedItem BracketedAcc)

/-- the furthest failure: `none` when no terminal has failed -/
abbrev Far := Option Nat

def fmax : Far → Far → Far
  | none, b => b
  | some a, none => some a
  | some a, some b => some (max a b)

/-- a parser that also reports the furthest offset at which one of its terminals failed -/
def PE (α : Type) : Type := Array Char → PState → Option (α × PState) × Far

instance : Monad PE where
  pure a := fun _ s => (some (a, s), none)
  bind m f := fun t s =>
    match (m t s).1 with
    | none => (none, (m t s).2)
    | some (a, s') => ((f a t s').1, fmax (m t s).2 (f a t s').2)

/-- ordered choice; the failures of an abandoned alternative stay recorded -/
def orElse {α} (p : PE α) (q : Unit → PE α) : PE α := fun t s =>
  match (p t s).1 with
  | some r => (some r, (p t s).2)
  | none => ((q () t s).1, fmax (p t s).2 (q () t s).2)

instance {α} : OrElse (PE α) := ⟨orElse⟩

/-- a terminal of the grammar (one regex, or `eof`): the scanner `p` of `Model/Parser.lean` run as a whole; when it
    does not match, that is a failure at the offset where it was tried -/
def term {α} (p : P α) : PE α := fun t s =>
  match p t s with
  | some r => (some r, none)
  | none => (none, some s.pos)

/-- something that is not an expression of the grammar (reading the position, …): nothing to record -/
def lift {α} (p : P α) : PE α := fun t s => (p t s, none)

/-- `p?` -/
def opt {α} (p : PE α) : PE (Option α) := (some <$> p) <|> pure none

def getPos : PE Nat := lift Parser.getPos
def remaining : PE Nat := lift Parser.remaining

def manyF {α} (p : PE α) : Nat → PE (List α)
  | 0 => pure []
  | fuel + 1 => (do let a ← p; let rest ← manyF p fuel; pure (a :: rest)) <|> pure []

/-- `p*` -/
def many {α} (p : PE α) : PE (List α) := do manyF p (← remaining)

def withText {α} (p : PE α) : PE (α × Str) := fun t s =>
  match (p t s).1 with
  | none => (none, (p t s).2)
  | some (a, s') => (some ((a, (t.extract s.pos s'.pos).toList), s'), (p t s).2)

def textOf (p : PE Unit) : PE Str := do let (_, text) ← withText p; pure text

/-- a rule that cannot be reached (exhausted fuel), and the missing alternative of `static_string`: fails where a
    terminal has just failed at the same offset, or not at all -/
def fail {α} : PE α := term Parser.fail

/-! ## terminals -/

/-- a quoted literal -/
def lit (c : Char) : PE Unit := term (Parser.lit c)

/-- `x?` for the rule `x <- r"[p]+"`: when nothing matches, the regex has failed here -/
def skipManyOpt (p : Char → Bool) : PE Unit := fun t s =>
  (some ((), { s with pos := spanEnd p t s.pos }), if spanEnd p t s.pos = s.pos then some s.pos else none)

/-- `hsp` -/
def hsp : PE Unit := term Parser.hsp
/-- `hsp?` -/
def ohsp : PE Unit := skipManyOpt isHsp
/-- `sp?` -/
def osp : PE Unit := skipManyOpt isReSpace
/-- `eof <- !.` -/
def eof : PE Unit := term Parser.eof

/-- `r"[0-9]+"` -/
def digits : PE Str := term Parser.digits

/-- `decimal <- r"[0-9]+(\.[0-9]*)?"`: one regex -/
def decimal : PE (Nat × Num) := term Parser.decimal

/-- `r"0*[1-9][0-9]*"`: a run of digits that are not all zero -/
def denominator : P Str := do
  let ds ← Parser.digits
  if natOfDigits ds = 0 then Parser.fail else pure ds

/-- `fraction <- (r"[0-9]+" hsp)? r"[0-9]+" hsp? "/" hsp? r"0*[1-9][0-9]*"` -/
def fraction : PE (Nat × Num) := do
  let start ← getPos
  let integer ← opt (do let ds ← digits; hsp; pure ds)
  let numerStart ← getPos
  let numer ← digits
  ohsp; lit '/'; ohsp
  let denom ← term denominator
  let off := if integer.isSome then start else numerStart
  let d := natOfDigits denom
  let i : Nat := natOfDigits (integer.getD [])
  let n : Nat := natOfDigits numer
  pure (off, ⟨(i : Rat) + mkRat n d, .frac⟩)

/-- `number <- fraction / decimal` -/
def number : PE (Nat × Num) := fraction <|> decimal

/-! ## strings -/

/-- `naked_string`: one regex -/
def nakedString : PE AString := term Parser.nakedString

/-- `"\\" .`: two terminals -/
def escaped : PE Char := do lit '\\'; let c ← term anyChar; pure (unescape c)

def quotedString (q : Char) : PE AString := do
  let off ← getPos
  lit q
  let body ← many (escaped <|> term (sat fun c => c != q && !isNewline c))
  lit q
  pure [.sub off body]

def bracketedItem : PE BracketedItem :=
  (do let (off, n) ← number; pure (.num off n))
  <|> (do let off ← getPos; let c ← escaped; pure (.chr off c))
  <|> (do let off ← getPos
          let c ← term (sat fun c => !isDigit c && c != '{' && c != '}' && !isNewline c)
          pure (.chr off c))

def bracketedString : PE AString := do
  let off ← getPos
  lit '{'
  let body ← many bracketedItem
  lit '}'
  pure (body.foldl BracketedAcc.push ⟨[], [], some off⟩).finish

def stringF (static : Bool) : Nat → PE AString
  | 0 => fail
  | fuel + 1 => do
    let first ← nakedString <|> quotedString '\'' <|> quotedString '"'
                <|> (if static then fail else bracketedString)
    let rest ← opt (do
      let off ← getPos
      let space ← textOf ohsp
      let more ← stringF static fuel
      pure (if space.isEmpty then more else .sub off space :: more))
    pure (first ++ rest.getD [])

def string (static : Bool := false) : PE AString := do stringF static ((← remaining) + 1)

/-! ## amounts -/

/-- `preposition`: one regex -/
def preposition : PE Unit := term Parser.preposition

/-- `(hsp preposition)?` as text -/
def hspPreposition : PE Str := textOf (do hsp; preposition) <|> pure []

/-- `remainder`: one regex -/
def remainder : PE Unit := term Parser.remainder

/-- `known_unit`: one regex -/
def knownUnit : PE Unit := term Parser.knownUnit

def proportion : PE AAmount :=
  (do let off ← getPos
      let wording ← textOf remainder
      let prep ← hspPreposition
      pure (.prop off none false (some wording) prep))
  <|>
  (do let (off, v) ← number
      (do let prep ← textOf (do hsp; preposition)
          pure (.prop off (some v) false none prep))
      <|> (do let prep ← textOf (do ohsp; lit '%'; let _ ← hspPreposition)
              pure (.prop off (v.div (Num.ofNat 100)) true none prep))
      <|> (do let prep ← textOf (do ohsp; lit '*')
              pure (.prop off (some v) false none prep)))

def explicitQuantity : PE AAmount := do
  let off ← getPos
  lit '{'; ohsp
  let (_, v) ← number
  let unit ← opt (do let spacing ← textOf ohsp; let u ← string (static := true); pure (spacing, u))
  ohsp; lit '}'
  let prep ← hspPreposition
  pure (.qty off v (unit.map (·.2)) ((unit.map (·.1)).getD []) prep)

def implicitQuantity : PE AAmount := do
  let (off, v) ← number
  let unit ← opt (do
    let spacing ← textOf ohsp
    let unitOff ← getPos
    let name ← textOf knownUnit
    let prep ← hspPreposition
    pure (spacing, [SubStr.sub unitOff name], prep))
  match unit with
  | some (spacing, u, prep) => pure (.qty off v (some u) spacing prep)
  | none => pure (.qty off v none [] [])

/-! ## expressions -/

def reference : PE AExpr := do
  let amount ← opt (do
    let a ← proportion <|> explicitQuantity <|> implicitQuantity
    ohsp
    pure a)
  let name ← string
  pure (.ref name amount)

def step (expr : PE AExpr) : PE AExpr := do
  let name ← string
  ohsp; lit '('; osp
  let first ← expr
  let rest ← many (do osp; lit ','; osp; expr)
  let _ ← opt (do osp; lit ',')
  osp; lit ')'
  pure (.step name (first :: rest))

def ltrShorthand (expr : PE AExpr) : PE AExpr := do
  let first ← expr
  let actions ← many (do ohsp; lit ','; ohsp; string)
  pure (actions.foldl (fun e action => .step action [e]) first)

def expr : Nat → PE AExpr
  | 0 => fail
  | fuel + 1 =>
    step (expr fuel)
    <|> reference
    <|> (do lit '('; osp; let e ← ltrShorthand (expr fuel); osp; lit ')'; pure e)

/-! ## statements -/

/-- `r"[ \t]*[\r\n]\s*"`: the first regex of `eol` -/
def eolBreak : P Unit := do Parser.ohsp; let _ ← sat isNewline; Parser.osp

/-- `eol <- r"[ \t]*[\r\n]\s*" / r"[ \t]*" eof`: the regex `[ \t]*` always matches -/
def eol : PE Unit := term eolBreak <|> (do lift Parser.ohsp; eof)

def outputList : PE (List AString) := do
  let first ← string
  let rest ← many (do ohsp; lit ','; ohsp; string)
  pure (first :: rest)

/-- `r":?="`: one regex -/
def assign : PE Bool := term Parser.assign

def stmt : PE AStmt := do
  let target ← opt (do
    let outputs ← outputList
    ohsp
    let named ← assign
    ohsp
    pure (outputs, named))
  let e ← ltrShorthand (expr ((← remaining) + 1))
  eol
  pure { expr := e, outputs := target.map (·.1), named := (target.map (·.2)).getD false }

/-- `recipe <- sp? stmt+ eof` -/
def recipe : PE (List AStmt) := do
  osp
  let first ← stmt
  let rest ← many stmt
  eof
  pure (first :: rest)

end ParserE

/-- `recipe_grid.parser.parse`, with the offset that peggie's `ParseError` is built from -/
def parseE (src : Str) : ParseResultE :=
  match ParserE.recipe src.toArray ⟨0, false⟩ with
  | (some (stmts, _), _) => .ok stmts
  | (none, far) => .syntaxError (far.getD 0)

/-- `ParseError.line`, `ParseError.column` -/
def syntaxErrorLineCol (src : Str) (offset : Nat) : Nat × Nat := offsetToLineCol src offset

/-- `ParseError.snippet`; `none` would be an `IndexError` -/
def syntaxErrorSnippet (src : Str) (offset : Nat) : Option Str := extractLine src (offsetToLineCol src offset).1

def ParseResultE.toSexp (src : Str) : ParseResultE → Sexp
  | .ok _ => Sexp.tag "ok" []
  | .syntaxError off =>
    let lc := syntaxErrorLineCol src off
    Sexp.tag "syntax" [Sexp.ofNat off, Sexp.ofNat lc.1, Sexp.ofNat lc.2, Sexp.ofOpt Sexp.ofStr (syntaxErrorSnippet src off)]

end RG
