import RecipeGrid.Model.Recipe
/-! `peggie.error_message_generation`: offsets to line/column, line extraction (`str.splitlines`). -/
namespace RG

def isLineBreak (c : Char) : Bool := inRanges Gen.lineBreakRanges c

/-- `str.splitlines(keepends=True)`; `cur` is the current line reversed -/
def splitLinesKeepAux (cur : Str) : Str → List Str
  | [] => if cur.isEmpty then [] else [cur.reverse]
  | '\r' :: '\n' :: rest => ('\n' :: '\r' :: cur).reverse :: splitLinesKeepAux [] rest
  | c :: rest => if isLineBreak c then (c :: cur).reverse :: splitLinesKeepAux [] rest else splitLinesKeepAux (c :: cur) rest

def splitLinesKeep (s : Str) : List Str := splitLinesKeepAux [] s

/-- a line without its terminator (at most one terminator, possibly `\r\n`, at the end) -/
def dropTerminator (l : Str) : Str :=
  match l.reverse with
  | '\n' :: '\r' :: r => r.reverse
  | c :: r => if isLineBreak c then r.reverse else l
  | [] => l

/-- `str.splitlines()` -/
def splitLines (s : Str) : List Str := (splitLinesKeep s).map dropTerminator

/-- `offset_to_line_and_column` over the lines (with terminators) still to come;
    `lineno` and `lastLen` describe the line consumed last -/
def offsetToLineColAux : List Str → Nat → Nat → Nat → Nat × Nat
  | [], _, lineno, lastLen => (lineno, lastLen + 1)
  | l :: ls, remaining, lineno, _ =>
    if remaining < l.length then (lineno + 1, remaining + 1)
    else offsetToLineColAux ls (remaining - l.length) (lineno + 1) l.length

/-- `offset_to_line_and_column(string, offset)`: 1-based line and column -/
def offsetToLineCol (s : Str) (offset : Nat) : Nat × Nat :=
  match splitLinesKeep s with
  | [] => (1, 1)
  | ls => offsetToLineColAux ls offset 0 0

/-- `extract_line(string, line)`; `none` is `IndexError` -/
def extractLine (s : Str) (line : Nat) : Option Str :=
  if s.isEmpty then some [] else if line = 0 then (splitLines s).getLast? else (splitLines s)[line - 1]?

end RG
