import RecipeGrid.Model.Site
import RecipeGrid.Model.Links
import RecipeGrid.Model.Sexp
/-! Line-protocol requests served by the site model. -/
namespace RG

partial def dirOfSexp? : Sexp → Option Dir
  | .list [.atom "dir", name, readme, recipes, subdirs] => do
    let name ← name.asStr?
    let readme ← Sexp.asOpt? Sexp.asStr? readme
    let recipes ← Sexp.asList? (fun x => match x with
      | .list [.atom "rf", f, t, sv] => do pure (RecipeFile.mk (← f.asStr?) (← t.asStr?) (← Sexp.asOpt? Sexp.asNat? sv))
      | _ => none) recipes
    let subdirs ← Sexp.asList? dirOfSexp? subdirs
    pure (.mk name readme recipes subdirs)
  | _ => none

def Page.toSexp (p : Page) : Sexp := Sexp.tag "page" [Sexp.ofStr p.path, Sexp.ofStr p.title, Sexp.ofList Sexp.ofStr p.links]

def dispatchSite : Sexp → Option Sexp
  | .list [.atom "site", d, rootName, m] =>
    match dirOfSexp? d, rootName.asStr?, m.asNat? with
    | some d, some rn, some m => some (match sitePages d rn m with
        | .ok ps => Sexp.tag "ok" [Sexp.ofList Page.toSexp ps]
        | .error (.maxServingsTooLow n) => Sexp.tag "max-servings-too-low" [Sexp.ofNat n])
    | _, _, _ => some (Sexp.tag "bad-request" [Sexp.atom "args"])
  | .list [.atom "hrefrel", a, b] =>
    match a.asStr?, b.asStr? with
    | some a, some b => some (Sexp.ofStr (hrefRelative a b))
    | _, _ => some (Sexp.tag "bad-request" [Sexp.atom "args"])
  | .list [.atom "hrefparent", a] => (a.asStr?).map fun a => Sexp.ofStr (hrefParent a)
  | .list [.atom "resolve", a, b] =>
    match a.asStr?, b.asStr? with
    | some a, some b => some (Sexp.ofStr (resolveRef a b))
    | _, _ => some (Sexp.tag "bad-request" [Sexp.atom "args"])
  | .list [.atom "rewrite", scheme, netloc, path, canon, root, isFile, lookup, fromPath, assets] =>
    match scheme.asStr?, netloc.asStr?, path.asStr?, Sexp.asList? Sexp.asStr? canon, Sexp.asList? Sexp.asStr? root, isFile.asBool?,
          Sexp.asOpt? (fun x => match x with | .list [.atom "lk", p, sc] => do pure ((← p.asStr?), (← sc.asBool?)) | _ => none) lookup,
          fromPath.asStr?, assets.asStr? with
    | some sch, some nl, some pa, some ca, some ro, some f, some lk, some fp, some ad =>
      some (rewriteDecision sch nl pa ca ro f lk fp ad).toSexp
    | _, _, _, _, _, _, _, _, _ => some (Sexp.tag "bad-request" [Sexp.atom "args"])
  | .list [.atom "embed", scheme, netloc, path, canon, root, isFile] =>
    match scheme.asStr?, netloc.asStr?, path.asStr?, Sexp.asList? Sexp.asStr? canon, Sexp.asList? Sexp.asStr? root, isFile.asBool? with
    | some sch, some nl, some pa, some ca, some ro, some f => some (embedDecision sch nl pa ca ro f).toSexp
    | _, _, _, _, _, _ => some (Sexp.tag "bad-request" [Sexp.atom "args"])
  | .list [.atom "pagescale", sv, nat] =>
    match Sexp.asOpt? Sexp.asNat? sv, Sexp.asOpt? Sexp.asNat? nat with
    | some sv, some nat => some (Sexp.ofOpt Num.toSexp (pageScale sv nat))
    | _, _ => some (Sexp.tag "bad-request" [Sexp.atom "args"])
  | .list [.atom "dirtitle", a] => (a.asStr?).map fun a => Sexp.ofStr (dirnameToTitle a)
  | _ => none

end RG
