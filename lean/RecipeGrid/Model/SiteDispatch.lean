import RecipeGrid.Model.Site
import RecipeGrid.Model.Sexp
/-! Line-protocol requests served by the site model. -/
namespace RG

partial def dirOfSexp? : Sexp → Option Dir
  | .list [.atom "dir", name, readme, recipes, subdirs] => do
    let name ← name.asStr?
    let readme ← Sexp.asOpt? Sexp.asStr? readme
    let recipes ← Sexp.asList? (fun x => match x with
      | .list [.atom "rf", f, t, sv] => do pure (RecipeFile.mk (← f.asStr?) (← t.asStr?) (← Sexp.asOpt? Sexp.asNat? sv))
      | _ => none) recipes
    let subdirs ← Sexp.asList? dirOfSexp? subdirs
    pure (.mk name readme recipes subdirs)
  | _ => none

def Page.toSexp (p : Page) : Sexp := Sexp.tag "page" [Sexp.ofStr p.path, Sexp.ofStr p.title, Sexp.ofList Sexp.ofStr p.links]

def dispatchSite : Sexp → Option Sexp
  | .list [.atom "site", d, rootName, m] =>
    match dirOfSexp? d, rootName.asStr?, m.asNat? with
    | some d, some rn, some m => some (match sitePages d rn m with
        | .ok ps => Sexp.tag "ok" [Sexp.ofList Page.toSexp ps]
        | .error (.maxServingsTooLow n) => Sexp.tag "max-servings-too-low" [Sexp.ofNat n])
    | _, _, _ => some (Sexp.tag "bad-request" [Sexp.atom "args"])
  | .list [.atom "hrefrel", a, b] =>
    match a.asStr?, b.asStr? with
    | some a, some b => some (Sexp.ofStr (hrefRelative a b))
    | _, _ => some (Sexp.tag "bad-request" [Sexp.atom "args"])
  | .list [.atom "hrefparent", a] => (a.asStr?).map fun a => Sexp.ofStr (hrefParent a)
  | .list [.atom "resolve", a, b] =>
    match a.asStr?, b.asStr? with
    | some a, some b => some (Sexp.ofStr (resolveRef a b))
    | _, _ => some (Sexp.tag "bad-request" [Sexp.atom "args"])
  | .list [.atom "dirtitle", a] => (a.asStr?).map fun a => Sexp.ofStr (dirnameToTitle a)
  | _ => none

end RG
