import RecipeGrid.Model.Cache
/-! Line-protocol request served by the cache model: `(lru <cap> (l <key> ...) (l <failing key> ...))` - the calls, in order, of a function
    that raises on the failing keys; reply: per call `(<hit T/F> <entries after>)`. -/
namespace RG

def lruTrace (cap : Nat) (bad : List Nat) : Lru Nat Nat → List Nat → List (Bool × Nat)
  | _, [] => []
  | c, k :: ks =>
    let r := Lru.call (fun k => if bad.contains k then (Except.error () : Except Unit Nat) else .ok k) c k
    (r.2.1, r.2.2.entries.length) :: lruTrace cap bad r.2.2 ks

def dispatchCache : Sexp → Option Sexp
  | .list [.atom "lru", cap, keys, bad] =>
    match cap.asNat?, Sexp.asList? Sexp.asNat? keys, Sexp.asList? Sexp.asNat? bad with
    | some cap, some keys, some bad =>
      some (Sexp.ofList (fun (x : Bool × Nat) => Sexp.list [Sexp.ofBool x.1, Sexp.ofNat x.2]) (lruTrace cap bad (Lru.empty cap) keys))
    | _, _, _ => some (Sexp.tag "bad-request" [Sexp.atom "args"])
  | _ => none

end RG
