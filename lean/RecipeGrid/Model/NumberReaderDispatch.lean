import RecipeGrid.Model.NumberReader
import RecipeGrid.Model.Parser
/-! Line-protocol requests served by the model of `number_parser.number`:
    `(read-number <text>)` ↦ `(value <num>)` | `ValueError` | `ZeroDivisionError` | `outside`;
    `(grammar-number <text>)` ↦ the grammar rule `number` applied at offset 0 of the bare text:
    `none` | `(some (<num> <end offset>))`. -/
namespace RG

def dispatchNumberReader : Sexp → Option Sexp
  | .list [.atom "read-number", txt] =>
    match txt.asStr? with
    | some txt => some (numberReader txt).toSexp
    | none => some (Sexp.tag "bad-request" [Sexp.atom "args"])
  | .list [.atom "grammar-number", txt] =>
    match txt.asStr? with
    | some txt =>
      some (match Parser.number txt.toArray ⟨0, false⟩ with
        | some ((_, v), s) => Sexp.list [.atom "some", Sexp.list [v.toSexp, Sexp.ofNat s.pos]]
        | none => .atom "none")
    | none => some (Sexp.tag "bad-request" [Sexp.atom "args"])
  | _ => none

end RG
