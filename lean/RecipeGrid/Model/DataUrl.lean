/-! Data URLs of embedded local files: the end of `embed_local_links_as_data_urls.rewrite_link`
    (`recipe_grid/static_site/html_postprocessing.py`):

    ```
    mimetype, encoding = mimetypes.guess_type(fspath)
    if mimetype is None or encoding is not None: mimetype = "application/octet-stream"     (commit cc91d96)
    base64_data = b64encode(fspath.open("rb").read()).decode("ascii")
    return f"data:{mimetype};base64,{base64_data}"
    ```

    Import-free. Bytes are `List Nat` (as the file contents of `Model/Fs.lean`), meaningful when every element is
    below 256 (`isBytes`); strings are lists of characters.

    * `b64encode`  -- CPython's `base64.b64encode` (`binascii.b2a_base64(s, newline=False)`): standard alphabet,
      `=` padding, no line breaks.
    * `b64decode`  -- CPython 3.12's `base64.b64decode(s, validate=True)`, i.e. `binascii.a2b_base64(s,
      strict_mode=True)`, transcribed from the state machine of `Modules/binascii.c` character by character. It is NOT
      the canonical RFC 4648 decoder: it ignores the bits of the last digit that do not belong to a byte (`QR==`
      decodes like `QQ==`), and after a complete group of four it accepts any number of `=` (`QUJD=`, `QUJD====`
      decode like `QUJD`). Any exception (`binascii.Error`, or `ValueError` for a non-ASCII string) is `none`.
    * `b64decodeCanon` -- the canonical RFC 4648 section 4 decoder (length a multiple of four, alphabet only, padding
      only in the last group, unused bits zero), written independently, group by group.
    * `dataUrl`, `parseDataUrlWith` (`parseDataUrl`, `parseDataUrlCanon`) -- the f-string above and the RFC 2397
      reading of it, over a base64 decoder.
    * `attrVerbatim` -- the characters that lxml's HTML serialiser writes into a `src` / `href` attribute unchanged.
    * `splitExt`, `finalExtEnc`, `guessPairWith` -- `mimetypes.guess_type` (type, encoding) from the file name, over
      given tables (the tables are CPython's and the machine's); `guessTypeWith` -- the project's choice of media
      type on that pair (code now); `guessTypeOldWith` -- the choice before commit cc91d96 (encoding ignored). -/
namespace RG

/-! ## base64 -/

/-- every element is a byte -/
def isBytes (bs : List Nat) : Bool := bs.all (· < 256)

/-- the digit of the standard alphabet with value `n` (`n < 64`) -/
def b64char (n : Nat) : Char :=
  if n < 26 then Char.ofNat (65 + n)        -- A-Z
  else if n < 52 then Char.ofNat (71 + n)   -- a-z
  else if n < 62 then Char.ofNat (n - 4)    -- 0-9
  else if n = 62 then '+'
  else '/'

/-- the value of a digit of the standard alphabet (`table_a2b_base64`), `none` for any other character -/
def b64val (c : Char) : Option Nat :=
  let n := c.toNat
  if 65 ≤ n ∧ n ≤ 90 then some (n - 65)
  else if 97 ≤ n ∧ n ≤ 122 then some (n - 71)
  else if 48 ≤ n ∧ n ≤ 57 then some (n + 4)
  else if n = 43 then some 62
  else if n = 47 then some 63
  else none

/-- `base64.b64encode` -/
def b64encode : List Nat → List Char
  | a :: b :: c :: rest =>
    b64char (a / 4) :: b64char (a % 4 * 16 + b / 16) :: b64char (b % 16 * 4 + c / 64) :: b64char (c % 64)
      :: b64encode rest
  | [a, b] => [b64char (a / 4), b64char (a % 4 * 16 + b / 16), b64char (b % 16 * 4), '=']
  | [a] => [b64char (a / 4), b64char (a % 4 * 16), '=', '=']
  | [] => []

/-- The loop of `binascii.a2b_base64` in strict mode, from a position that is not the first: `q` is `quad_pos`, `l`
    is `leftchar`. At a `=`:
    * `quad_pos = 0` (a group has just been completed): `padding_started` is set and the loop goes on; every later
      character must be `=` too (a digit is "Discontinuous padding", anything else "Only base64 data is allowed"), and
      the end is reached with `quad_pos = 0`: accepted;
    * `quad_pos = 1`: the same, but the end is reached with `quad_pos = 1`: rejected, whatever follows;
    * `quad_pos = 2`: `pads = 1`, one more `=` is needed and it must be the last character ("Excess data after
      padding" otherwise; "Incorrect padding" at the end of the input; a digit is "Discontinuous padding");
    * `quad_pos = 3`: the `=` must be the last character. -/
def b64decodeGo : Nat → Nat → List Char → Option (List Nat)
  | q, _, [] => if q = 0 then some [] else none
  | q, l, c :: rest =>
    if c = '=' then
      match q with
      | 0 => if rest.all (· == '=') then some [] else none
      | 1 => none
      | 2 => if rest = ['='] then some [] else none
      | _ => if rest = [] then some [] else none
    else
      match b64val c with
      | none => none
      | some v =>
        match q with
        | 0 => b64decodeGo 1 v rest
        | 1 => (b64decodeGo 2 (v % 16) rest).map ((l * 4 + v / 16) :: ·)
        | 2 => (b64decodeGo 3 (v % 4) rest).map ((l * 16 + v / 4) :: ·)
        | _ => (b64decodeGo 0 0 rest).map ((l * 64 + v) :: ·)

/-- `base64.b64decode(s, validate=True)` of CPython 3.12 ("Leading padding not allowed", then the loop) -/
def b64decode (s : List Char) : Option (List Nat) :=
  if s.head? = some '=' then none else b64decodeGo 0 0 s

/-- the canonical decoder of RFC 4648: groups of four digits; the last group may end in `=` or `==`, and then the
    bits of its last digit that belong to no byte must be zero -/
def b64decodeCanon : List Char → Option (List Nat)
  | [] => some []
  | c0 :: c1 :: c2 :: c3 :: rest =>
    match b64val c0, b64val c1 with
    | some v0, some v1 =>
      if c2 = '=' then
        if c3 = '=' ∧ rest = [] ∧ v1 % 16 = 0 then some [v0 * 4 + v1 / 16] else none
      else
        match b64val c2 with
        | none => none
        | some v2 =>
          if c3 = '=' then
            if rest = [] ∧ v2 % 4 = 0 then some [v0 * 4 + v1 / 16, v1 % 16 * 16 + v2 / 4] else none
          else
            match b64val c3 with
            | none => none
            | some v3 =>
              (b64decodeCanon rest).map fun bs =>
                (v0 * 4 + v1 / 16) :: (v1 % 16 * 16 + v2 / 4) :: (v2 % 4 * 64 + v3) :: bs
    | _, _ => none
  | _ => none

/-! ## the data URL -/

/-- `f"data:{mimetype};base64,{base64_data}"` -/
def dataUrl (mimetype : List Char) (bs : List Nat) : List Char :=
  ['d', 'a', 't', 'a', ':'] ++ mimetype ++ [';', 'b', 'a', 's', 'e', '6', '4', ','] ++ b64encode bs

/-- `s.partition(",")`: the text before the first comma and the text after it; `none` when there is no comma -/
def splitComma : List Char → Option (List Char × List Char)
  | [] => none
  | c :: rest =>
    if c = ',' then some ([], rest)
    else (splitComma rest).map fun (a, b) => (c :: a, b)

/-- `s` without the prefix `p`, `none` when `s` does not start with `p` -/
def stripPrefix? : List Char → List Char → Option (List Char)
  | [], s => some s
  | _ :: _, [] => none
  | a :: p, b :: s => if a = b then stripPrefix? p s else none

/-- `s` without the suffix `suf` -/
def stripSuffix? (suf s : List Char) : Option (List Char) :=
  (stripPrefix? suf.reverse s.reverse).map List.reverse

/-- RFC 2397, the base64 form: `data:<mediatype>;base64,<data>`. The header is what stands before the FIRST comma
    and must end in `;base64`; the data is decoded by `dec`. -/
def parseDataUrlWith (dec : List Char → Option (List Nat)) (u : List Char) : Option (List Char × List Nat) :=
  match stripPrefix? ['d', 'a', 't', 'a', ':'] u with
  | none => none
  | some rest =>
    match splitComma rest with
    | none => none
    | some (header, payload) =>
      match stripSuffix? [';', 'b', 'a', 's', 'e', '6', '4'] header with
      | none => none
      | some mediatype => (dec payload).map fun bs => (mediatype, bs)

/-- ... with the data decoded as `base64.b64decode(data, validate=True)` does (the harness's reading) -/
def parseDataUrl (u : List Char) : Option (List Char × List Nat) := parseDataUrlWith b64decode u

/-- ... with the canonical decoder -/
def parseDataUrlCanon (u : List Char) : Option (List Char × List Nat) := parseDataUrlWith b64decodeCanon u

/-! ## what the HTML serialiser does to the attribute

    `rewrite_link`'s result becomes the value of a `src` / `href` attribute of the lxml tree, and
    `lxml.html.tostring` (libxml2 `htmlAttrDumpOutput`) writes such an attribute after `xmlURIEscapeStr` (characters
    outside a safe set become `%XX` of their UTF-8 bytes) and the escaping of `&`, `<`, `>`. The characters below are
    the ones written exactly as they are (measured on lxml 4.9.4 / libxml2 2.10.3 for every code point up to U+017F,
    see the correspondence). -/
def attrVerbatim (c : Char) : Bool :=
  let n := c.toNat
  (48 ≤ n && n ≤ 57) || (65 ≤ n && n ≤ 90) || (97 ≤ n && n ≤ 122) ||
    ['!', '#', '%', '\'', '(', ')', '*', '+', ',', '-', '.', '/', ':', ';', '=', '?', '@', '_', '~'].contains c

/-! ## the media type: the rule of `mimetypes.guess_type`, over a given table

    `guess_type(url)` (CPython 3.12, `MimeTypes.guess_type`, `strict=True`) for a file-system path: the path is split
    with `posixpath.splitext`; while the extension (lower-cased) is in `suffix_map` it is replaced
    (`.tgz -> .tar.gz`) and split again; an extension in `encodings_map` (`.gz`, `.bz2`, ...) is taken off and the
    rest split again; then the extension, lower-cased, is looked up in `types_map`. Only the LAST
    dot-suffix of the file name takes part (after the encoding has been taken off), the directory never does. The
    tables are CPython's built-in ones merged with the machine's `mime.types` files, so they are parameters here. -/

/-- ASCII lower case of a character (the tables have ASCII keys only; `str.lower` agrees on ASCII) -/
def asciiLower (c : Char) : Char :=
  if 65 ≤ c.toNat ∧ c.toNat ≤ 90 then Char.ofNat (c.toNat + 32) else c

/-- `posixpath.splitext` on a file NAME (no slash): the extension starts at the last dot, unless that dot is one of
    the leading dots of the name (`.bashrc`, `...x` have no extension); returns (root, ext), `ext` with its dot -/
def splitExt (name : List Char) : List Char × List Char :=
  let lead := name.takeWhile (· == '.')
  let body := name.drop lead.length
  -- the last dot of the body
  let rev := body.reverse
  let extRev := rev.takeWhile (· != '.')
  if extRev.length = rev.length then (name, [])        -- no dot in the body
  else
    let ext := '.' :: extRev.reverse
    (lead ++ (rev.drop (extRev.length + 1)).reverse, ext)

/-- association list look-up -/
def lookupStr (tbl : List (List Char × List Char)) (k : List Char) : Option (List Char) :=
  (tbl.find? (·.1 = k)).map (·.2)

def octetStream : List Char :=
  ['a', 'p', 'p', 'l', 'i', 'c', 'a', 't', 'i', 'o', 'n', '/', 'o', 'c', 't', 'e', 't', '-', 's', 't', 'r', 'e', 'a', 'm']

/-- `while (ext_lower := ext.lower()) in suffix_map: base, ext = splitext(base + suffix_map[ext_lower])`; `fuel`
    bounds the loop (with CPython's table one step is enough; a table that maps an extension to itself would make
    CPython loop for ever) -/
def applySuffixMap (suffixMap : List (List Char × List Char)) : Nat → List Char → List Char → List Char × List Char
  | 0, base, ext => (base, ext)
  | fuel + 1, base, ext =>
    match lookupStr suffixMap (ext.map asciiLower) with
    | some rep => let r := splitExt (base ++ rep); applySuffixMap suffixMap fuel r.1 r.2
    | none => (base, ext)

/-- the extension that decides the media type and the encoding: after `suffix_map`, an extension that is a
    (case-sensitive) key of `encodings_map` is taken off and names the encoding; what is left is lower-cased -/
def finalExtEnc (suffixMap encodingsMap : List (List Char × List Char)) (name : List Char) :
    List Char × Option (List Char) :=
  let r0 := splitExt name
  let r1 := applySuffixMap suffixMap 8 r0.1 r0.2
  match lookupStr encodingsMap r1.2 with
  | some enc => ((splitExt r1.1).2.map asciiLower, some enc)
  | none => (r1.2.map asciiLower, none)

/-- the extension looked up in `types_map` -/
def finalExt (suffixMap encodingsMap : List (List Char × List Char)) (name : List Char) : List Char :=
  (finalExtEnc suffixMap encodingsMap name).1

/-- `guess_type(name)[1]`: the encoding (`gzip`, `compress`, `bzip2`, `xz`, `br`), if the name says there is one -/
def encodingOf (suffixMap encodingsMap : List (List Char × List Char)) (name : List Char) : Option (List Char) :=
  (finalExtEnc suffixMap encodingsMap name).2

/-- `mimetypes.guess_type(name)` (strict): the pair (type, encoding), each `None` when unknown -/
def guessPairWith (suffixMap encodingsMap typesMap : List (List Char × List Char)) (name : List Char) :
    Option (List Char) × Option (List Char) :=
  (lookupStr typesMap (finalExt suffixMap encodingsMap name), encodingOf suffixMap encodingsMap name)

/-- The media type that `rewrite_link` writes (the code now, commit cc91d96):
    ```
    mimetype, encoding = mimetypes.guess_type(fspath)
    if mimetype is None or encoding is not None: mimetype = "application/octet-stream"
    ```
    a compressed file (`*.txt.gz`, `*.svgz`) is NOT labelled with the type of its uncompressed content. -/
def guessTypeWith (suffixMap encodingsMap typesMap : List (List Char × List Char)) (name : List Char) : List Char :=
  match guessPairWith suffixMap encodingsMap typesMap name with
  | (some t, none) => t
  | _ => octetStream

/-- the rule before commit cc91d96: `mimetype, _ = guess_type(fspath)`, default `application/octet-stream`; the
    encoding is thrown away (see `old_rule_mislabels_witness` in Props/C16c) -/
def guessTypeOldWith (suffixMap encodingsMap typesMap : List (List Char × List Char)) (name : List Char) : List Char :=
  match (guessPairWith suffixMap encodingsMap typesMap name).1 with
  | some t => t
  | none => octetStream

end RG
