import RecipeGrid.Model.MdBlocks
import RecipeGrid.Model.MarkdownDispatch
/-! Line-protocol requests served by the block scanner model. -/
namespace RG

def CodeBlockKind.toSexp : CodeBlockKind → Sexp
  | .indented => Sexp.atom "indented"
  | .fenced l => Sexp.tag "fenced" [Sexp.ofStr l]

def LineTag.name : LineTag → String
  | .blank => "blank"
  | .heading => "heading"
  | .para true => "para1"
  | .para false => "para"
  | .lazy => "lazy"
  | .fenceOpen _ => "fence-open"
  | .fenceBody _ => "fence-body"
  | .fenceClose => "fence-close"
  | .codeStart => "code-start"
  | .codeCont => "code-cont"
  | .codeBlank => "code-blank"

def dispatchMdBlocks : Sexp → Option Sexp
  | .list [.atom "md-blocks", d] =>
    match d.asStr? with
    | some d => some (Sexp.ofList (fun (b : MdBlock) =>
        Sexp.list [b.kind.toSexp, Sexp.ofNat b.pos, Sexp.ofNat b.startLine, Sexp.ofStr b.source,
          Sexp.ofStr (paddedSource d b.pos b.kind.isFenced b.source)]) (scanBlocks d))
    | none => some (Sexp.tag "bad-request" [Sexp.atom "args"])
  | .list [.atom "md-indoc", d] =>
    match d.asStr? with
    | some d => some (Sexp.ofBool (inDoc d))
    | none => some (Sexp.tag "bad-request" [Sexp.atom "args"])
  | .list [.atom "md-tags", d] =>
    match d.asStr? with
    | some d => some (Sexp.ofList (fun (t : TLine) => Sexp.list [Sexp.atom t.tag.name, Sexp.ofBool t.ok]) (tagDoc d))
    | none => some (Sexp.tag "bad-request" [Sexp.atom "args"])
  | _ => none

end RG
