import RecipeGrid.Model.PageValues
import RecipeGrid.Model.MarkdownDispatch
/-! Line-protocol request `(page-nums doc k)`: the scaled values of the page `render(k)` according to the template model. -/
namespace RG

def Shown.toSexp (x : Shown) : Sexp := Sexp.tag "sh" [x.1.toSexp, Sexp.ofStr x.2]

def dispatchPageValues : Sexp → Option Sexp
  | .list [.atom "page-nums", d, k] =>
    match mdDocOfSexp? d, Num.ofSexp? k with
    | some d, some k =>
      let t := docTemplate d
      some (Sexp.tag "page" [
        -- the hypotheses of `RG.C03.renderDoc_template`, decided on this document and factor
        Sexp.ofBool (chainOKb (docPh d) (docVals d k) t),
        Sexp.ofBool (holesBelowB (docVals d k).length t),
        Sexp.ofBool (pflatten (docPh d) t == d.html),
        -- its conclusion
        Sexp.ofBool (pflatten (docVal d k) t == renderDoc d k),
        Sexp.ofNat (holesOf t).length,
        Sexp.ofList Shown.toSexp (shownNums d k t),
        Sexp.ofList Shown.toSexp (writtenNums d t)])
    | _, _ => some (Sexp.tag "bad-request" [Sexp.atom "args"])
  | _ => none

end RG
