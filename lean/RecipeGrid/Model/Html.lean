import RecipeGrid.Model.Table
import RecipeGrid.Model.Units
import RecipeGrid.Model.Text
/-! `renderer/html.py` at the level of the output string. -/
namespace RG

def S (s : String) : Str := s.toList

/-- `html.escape(s)` (quote=True) -/
def escapeChar : Char → Str
  | '&' => S "&amp;"
  | '<' => S "&lt;"
  | '>' => S "&gt;"
  | '"' => S "&quot;"
  | '\'' => S "&#x27;"
  | c => [c]
def htmlEscape (s : Str) : Str := s.flatMap escapeChar

/-- `xml.sax.saxutils.quoteattr` -/
def quoteattrChar : Char → Str
  | '&' => S "&amp;"
  | '>' => S "&gt;"
  | '<' => S "&lt;"
  | '\n' => S "&#10;"
  | '\r' => S "&#13;"
  | '\t' => S "&#9;"
  | c => [c]
def quoteattr (s : Str) : Str :=
  let d := s.flatMap quoteattrChar
  if d.contains '"' then
    if d.contains '\'' then '"' :: (d.flatMap fun c => if c == '"' then S "&quot;" else [c]) ++ ['"']
    else '\'' :: d ++ ['\'']
  else '"' :: d ++ ['"']

/-- `textwrap.indent(text, "  ")`: lines consisting solely of whitespace are left alone -/
def indent2 (s : Str) : Str :=
  (splitLinesKeep s).flatMap fun line => if line.all isStripSpace then line else ' ' :: ' ' :: line

/-- `t(tag, body, **attrs)` with a body -/
def tagBody (tag : String) (attrs : List (String × Str)) (body : Str) : Str :=
  let attrsStr : Str := (S " ").intercalate (attrs.map fun (n, v) => S n ++ '=' :: quoteattr v)
  let body := if body.contains '\n' then '\n' :: rstripStr (indent2 body) ++ ['\n'] else body
  '<' :: S tag ++ rstripStr (' ' :: attrsStr) ++ '>' :: body ++ S "</" ++ S tag ++ S ">"

def joinNl (xs : List Str) : Str := (S "\n").intercalate xs

def renderQuantity (q : Quantity) : Str :=
  match q.unit with
  | none =>
    tagBody "span" [("class", S "rg-quantity-unitless rg-scaled-value")] (renderNumber q.value) ++ htmlEscape q.prep
  | some unit =>
    let forms : List (Num × Str) :=
      match altUnits (lowerStr unit) with
      | some ((_, _) :: rest) => (q.value, unit) :: rest.map fun (sc, n) => (q.value.mul sc, n)
      | _ => [(q.value, unit)]
    let all := forms.map fun (v, u) => renderNumber v ++ htmlEscape q.spacing ++ htmlEscape u
    match all with
    | [one] => tagBody "span" [("class", S "rg-quantity-without-conversions rg-scaled-value")] one ++ htmlEscape q.prep
    | first :: rest =>
      tagBody "span" [("class", S "rg-quantity-with-conversions rg-scaled-value"), ("tabindex", S "0")]
        (first ++ tagBody "ul" [("class", S "rg-quantity-conversions")] (joinNl (rest.map (tagBody "li" [])))) ++ htmlEscape q.prep
    | [] => []

def renderProportion (value : Option Num) (percentage : Bool) (wording : Option Str) (prep : Str) : Str :=
  match value with
  | none => tagBody "span" [("class", S "rg-proportion-remainder")] (htmlEscape (wording.getD (S "remaining") ++ prep))
  | some v =>
    let shown := if percentage then v.mul ⟨100, .int⟩ else v
    tagBody "span" [("class", S "rg-proportion")]
      (renderNumber shown ++ (htmlEscape prep).flatMap fun c => if c == '*' then S "&times;" else [c])

def renderSvs (s : SVS) : Str :=
  s.flatMap fun p => match p with
    | .text t => htmlEscape t
    | .num n => tagBody "span" [("class", S "rg-scaled-value")] (renderNumber n)

def isIdChar (c : Char) : Bool :=
  ('a' ≤ c && c ≤ 'z') || ('A' ≤ c && c ≤ 'Z') || ('0' ≤ c && c ≤ '9') || c == '.' || c == '_' || c == '-'
def stripDashes (s : Str) : Str := ((s.dropWhile (· == '-')).reverse.dropWhile (· == '-')).reverse
/-- `generate_subrecipe_output_id` on the rendered output name -/
def anchorId (pre : Str) (name : SVS) : Str :=
  pre ++ stripDashes ((Svs.render name).map fun c => if isIdChar c then c else '-')

def subNames : Tree → List SVS
  | .sub _ ns _ => ns
  | _ => []

def renderAmount : Amount → Str
  | .quantity q => renderQuantity q ++ [' ']
  | .proportion v p w s =>
    if (match v with | some n => n.val == 1 | none => false) then [] else renderProportion v p w s ++ [' ']

def renderCellBody (pre : Str) : Tree → Str
  | .ingredient d q => (match q with | some q => renderQuantity q ++ [' '] | none => []) ++ renderSvs d
  | .reference sub idx amount =>
    let name := (subNames sub)[idx]?.getD []
    tagBody "a" [("href", '#' :: anchorId pre name)] (renderAmount amount ++ renderSvs name)
  | .step d _ => renderSvs d
  | .sub _ names _ =>
    if names.length = 1 then renderSvs (names.headD [])
    else tagBody "ul" [("class", S "rg-sub-recipe-output-list")]
      (joinNl (names.map fun n => tagBody "li" [("id", anchorId pre n)] (renderSvs n)))

def Border.cls : Border → String
  | .none => "none" | .normal => "normal" | .subRecipe => "sub-recipe"
def CellKind.cls : CellKind → String
  | .ingredient => "rg-ingredient" | .reference => "rg-reference" | .step => "rg-step"
  | .header => "rg-sub-recipe-header" | .outputs => "rg-sub-recipe-outputs"

def cellClasses (c : PCell) : List String :=
  c.kind.cls :: ([("left", c.bl), ("right", c.br), ("top", c.bt), ("bottom", c.bb)].filterMap fun (e, b) =>
    if b = .normal then none else some ("rg-border-" ++ e ++ "-" ++ b.cls))

def cellAttrs (c : PCell) : List (String × Str) :=
  [("class", S (" ".intercalate (cellClasses c)))] ++
  (if c.cols ≠ 1 then [("colspan", natDigits c.cols)] else []) ++
  (if c.rows ≠ 1 then [("rowspan", natDigits c.rows)] else [])

def renderCell (pre : Str) (tree : Tree) (c : PCell) : Str :=
  tagBody "td" (cellAttrs c) (renderCellBody pre ((tree.at? c.path).getD tree))

/-- the rows of the table: per row the cells whose top-left corner lies in it, by column -/
def emitRows (t : Tbl) : List (List PCell) :=
  (List.range t.h).map fun r => (rasterSort t.cells).filter (·.row == r)

def renderTable (pre : Str) (tree : Tree) (t : Tbl) (id : Option Str) : Str :=
  tagBody "table" ([("class", S "rg-table")] ++ (match id with | some i => [("id", i)] | none => []))
    (joinNl ((emitRows t).map fun row => tagBody "tr" [] (joinNl (row.map (renderCell pre tree)))))

/-- `render_recipe_tree(tree, id_prefix)` -/
def renderRecipeTree (pre : Str) (tree : Tree) : Str :=
  let id := match tree with
    | .sub _ [n] _ => some (anchorId pre n)
    | _ => none
  renderTable pre tree (layout tree) id

end RG
