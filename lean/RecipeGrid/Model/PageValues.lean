import RecipeGrid.Model.Markdown
/-! What a rendered page *shows*: the document of `MarkdownRecipe.render` seen as a template (literal text and holes, one hole
    per placeholder), the (placeholder, value) pairs `render(scale)` substitutes one after the other, and the list of numbers
    (with the unit written behind them, for quantities) that the values put on the page, before formatting.
    Executable helper definitions only; the statements are in `Props/C03e.lean` and `Props/C15d.lean`. -/
namespace RG

-- ---------------------------------------------------------------- numbers shown by values and tables
/-- a number put on the page inside an element of class `rg-scaled-value`, and the text that follows it inside that element
    (spacing and unit of a quantity; empty for a number of a name or of prose) -/
abbrev Shown := Num × Str

def scaleShown (k : Num) (x : Shown) : Shown := (x.1.mul k, x.2)

/-- the numbers of a scaled value string, in reading order -/
def Svs.nums (s : SVS) : List Num := s.filterMap fun p => match p with | .num n => some n | _ => none

def Svs.shown (s : SVS) : List Shown := (Svs.nums s).map fun n => (n, [])

/-- `render_quantity`: one `rg-scaled-value` element, holding the value, the spacing and the unit as written (the conversions to
    other units sit in a nested list inside that element) -/
def Quantity.shown (q : Quantity) : List Shown :=
  [(q.value, match q.unit with | some u => q.spacing ++ u | none => [])]

/-- `render_amount`: proportions are not scaled values -/
def Amount.shown : Amount → List Shown
  | .quantity q => q.shown
  | _ => []

/-- the scaled values of one table cell, in the order `renderCellBody` writes them -/
def cellShown : Tree → List Shown
  | .ingredient d q => (match q with | some q => q.shown | none => []) ++ Svs.shown d
  | .reference sub idx a => a.shown ++ Svs.shown ((subNames sub)[idx]?.getD [])
  | .step d _ => Svs.shown d
  | .sub _ names _ => names.flatMap Svs.shown

/-- the scaled values of the table of one recipe tree, in document order (rows top to bottom, cells left to right) -/
def tableShown (tree : Tree) : List Shown :=
  (emitRows (layout tree)).flatMap fun row => row.flatMap fun c => cellShown ((tree.at? c.path).getD tree)

-- ---------------------------------------------------------------- the document as a template
inductive PTok where
  | lit (s : Str)
  | hole (i : Nat)
deriving Repr, Inhabited

/-- index and length of the first non-empty placeholder of the list that is a prefix of `s` -/
def matchPh : List Str → Nat → Str → Option (Nat × Nat)
  | [], _, _ => none
  | p :: ps, i, s => if !p.isEmpty && isPrefixOfStr p s then some (i, p.length) else matchPh ps (i + 1) s

/-- cut a text at the occurrences (leftmost, non-overlapping) of the placeholders; `acc` is the literal read so far, reversed -/
def tokeniseAux (phs : List Str) : Nat → Str → Str → List PTok
  | 0, acc, s => [.lit (acc.reverse ++ s)]
  | _, acc, [] => [.lit acc.reverse]
  | fuel + 1, acc, c :: rest =>
    match matchPh phs 0 (c :: rest) with
    | some (i, len) => .lit acc.reverse :: .hole i :: tokeniseAux phs fuel [] ((c :: rest).drop len)
    | none => tokeniseAux phs fuel (c :: acc) rest
def tokenise (phs : List Str) (s : Str) : List PTok := tokeniseAux phs (s.length + 1) [] s

def pflatten (f : Nat → Str) : List PTok → Str
  | [] => []
  | .lit s :: t => s ++ pflatten f t
  | .hole i :: t => f i ++ pflatten f t

-- ---------------------------------------------------------------- the substitutions of `render(scale)`
/-- the `<div class="rg-recipe-block">` written for one recipe block of the `i`-th independent recipe -/
def blockHtml (k : Num) (i : Nat) (trees : Block) : Str :=
  tagBody "div" [("class", "rg-recipe-block".toList)] (joinNl ((Tree.scaleList k trees).map (renderRecipeTree (idPrefix i))))

/-- index of the independent recipe of every block (`id_prefix_index` when the block is reached) -/
def recipeIdx : Nat → List (Str × Bool × Block) → List Nat
  | _, [] => []
  | i, (_, isNew, _) :: rest =>
    let i := if isNew then i + 1 else i
    i :: recipeIdx i rest

/-- the (placeholder, value) pairs of the recipe loop -/
def recipePairs (k : Num) : Nat → List (Str × Bool × Block) → List (Str × Str)
  | _, [] => []
  | i, (ph, isNew, trees) :: rest =>
    let i := if isNew then i + 1 else i
    (ph, blockHtml k i trees) :: recipePairs k i rest

/-- the note put after the title -/
def postTitleText (d : MdDoc) (k : Num) : Str :=
  if k.val == 1 then []
  else match d.servings with
    | some n =>
      let orig := tagBody "span" [("class", "rg-original-servings".toList)]
        (natDigits n ++ " serving".toList ++ (if n != 1 then ['s'] else []))
      tagBody "p" [] ("Rescaled from ".toList ++ orig ++ ['.'])
    | none =>
      tagBody "p" [] ("Scaled ".toList ++ tagBody "span" [("class", "rg-scaling-factor".toList)] (renderNumber k ++ "&times;".toList))

def headerPairs (d : MdDoc) (k : Num) : List (Str × Str) :=
  match d.hasTitle, d.prePost with
  | true, some (pre, post) => [(pre, "<header>".toList), (post, postTitleText d k ++ "</header>".toList)]
  | _, _ => []

/-- every replacement `render(scale)` performs, in order: prose values, recipe blocks, the two title marks -/
def docPairs (d : MdDoc) (k : Num) : List (Str × Str) :=
  d.svs.map (fun phs => (phs.1, renderSvs (Svs.scale k phs.2))) ++ recipePairs k 0 d.recipes ++ headerPairs d k

/-- the placeholders of a document: hole `i` of its template is the `i`-th of these -/
def docPhs (d : MdDoc) : List Str :=
  d.svs.map (·.1) ++ d.recipes.map (·.1) ++
    (match d.hasTitle, d.prePost with
     | true, some (pre, post) => [pre, post]
     | _, _ => [])
def docPh (d : MdDoc) (i : Nat) : Str := (docPhs d).getD i []
def docVals (d : MdDoc) (k : Num) : List Str := (docPairs d k).map (·.2)
/-- what hole `i` is filled with at factor `k` -/
def docVal (d : MdDoc) (k : Num) (i : Nat) : Str := (docVals d k).getD i []

/-- the canonical template of a document: its HTML cut at its placeholders -/
def docTemplate (d : MdDoc) : List PTok := tokenise (docPhs d) d.html

-- ---------------------------------------------------------------- the numbers a page shows
/-- the scaled values hole `i` puts on the page at factor `k` -/
def holeShown (d : MdDoc) (k : Num) (i : Nat) : List Shown :=
  match d.svs[i]? with
  | some (_, s) => Svs.shown (Svs.scale k s)
  | none =>
    match d.recipes[i - d.svs.length]? with
    | some (_, _, trees) => (Tree.scaleList k trees).flatMap tableShown
    | none => []

/-- the scaled values hole `i` holds as written (nothing multiplied) -/
def holeWritten (d : MdDoc) (i : Nat) : List Shown :=
  match d.svs[i]? with
  | some (_, s) => Svs.shown s
  | none =>
    match d.recipes[i - d.svs.length]? with
    | some (_, _, trees) => trees.flatMap tableShown
    | none => []

def holesOf : List PTok → List Nat
  | [] => []
  | .lit _ :: t => holesOf t
  | .hole i :: t => i :: holesOf t

/-- every scaled value of the page `render(k)`, in document order -/
def shownNums (d : MdDoc) (k : Num) (t : List PTok) : List Shown := (holesOf t).flatMap (holeShown d k)
/-- every scaled value as written in the document, in document order -/
def writtenNums (d : MdDoc) (t : List PTok) : List Shown := (holesOf t).flatMap (holeWritten d)

-- ---------------------------------------------------------------- the side condition, executable
/-- all start offsets (counted from `k`) at which `p` occurs in `s`, in one pass -/
def occFast (p : Str) : Nat → Str → List Nat
  | k, [] => if isPrefixOfStr p [] then [k] else []
  | k, c :: rest => (if isPrefixOfStr p (c :: rest) then [k] else []) ++ occFast p (k + 1) rest
def occurrencesB (p s : Str) : List Nat := occFast p 0 s

def holeOffsetsB (i : Nat) (f : Nat → Str) : List PTok → List Nat
  | [] => []
  | .lit s :: t => (holeOffsetsB i f t).map (· + s.length)
  | .hole j :: t => (if j = i then [0] else []) ++ (holeOffsetsB i f t).map (· + (f j).length)

def filledB (ph : Nat → Str) (vals : List Str) (n : Nat) : Nat → Str :=
  fun j => if j < n then vals.getD j [] else ph j

/-- before each replacement, the placeholder occurs in the current text exactly at its own holes -/
def chainOKb (ph : Nat → Str) (vals : List Str) (t : List PTok) : Bool :=
  (List.range vals.length).all fun n =>
    !(ph n).isEmpty && occurrencesB (ph n) (pflatten (filledB ph vals n) t) == holeOffsetsB n (filledB ph vals n) t

def holesBelowB (n : Nat) (t : List PTok) : Bool := (holesOf t).all (· < n)

end RG
