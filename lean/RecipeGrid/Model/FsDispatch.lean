import RecipeGrid.Model.Fs
import RecipeGrid.Model.Sexp
/-! Line-protocol requests served by the file-system model (`Model/Fs.lean`).

    ## Encoding (everything is an S-expression as in `Model/Sexp.lean`; a string is `(s cp cp ...)`, the list of its
    code points; a list is `(l x x ...)`)

    ```
    <path>   ::= (l <string>*)            the components below "/", i.e.  Path(p).parts[1:]  of an ABSOLUTE path;
                                          "/" itself is (l). Components may be "..", "." or "" (they are interpreted).
    <node>   ::= (dir)
               | (file (l <byte>*))       the content, one number 0..255 per byte
               | (symlink <string>)       the target string exactly as os.readlink() returns it (relative or absolute,
                                          with whatever "..", "." and repeated "/" it contains)
    <entry>  ::= (n <path> <node>)        one entry per directory, regular file and symbolic link that exists; the
                                          path is the entry's own absolute path, NOT resolved (a link is listed where
                                          it stands). "/" need not be listed. Every ancestor directory of an entry
                                          must be listed as (dir) (e.g. by os.walk(top, followlinks=False) from a
                                          scratch directory, plus the chain of directories from "/" down to it).
    <fs>     ::= (l <entry>*)
    <url>    ::= <string>                 the URL exactly as handed to rewrite_link (before urlsplit / unquote)
    ```

    Requests and replies:

    ```
    (the decision is that of the code as it is now, commit f55deed: fspath.resolve(), RuntimeError if a component
     of the result is a symbolic link; root.resolve())
    (fslink  <fs> <root> <sourceDir> <url>)            resolve_local_links, page keys = directories and *.md files
                                                       below the resolved root
    (fslinkp (l <path>*) <fs> <root> <sourceDir> <url>)   the same with the keys of source_to_page_paths given
    (fsembed <fs> <root> <sourceDir> <url>)            embed_local_links_as_data_urls (no page lookup)
        <root>, <sourceDir> ::= <path>     root: the `root` argument; sourceDir: `source.parent`; both absolute
      replies:
        (untouched)                        the URL is returned as it is (scheme, network location or empty path)
        (external)                         LinkToExternalFileError
        (missing)                          LinkToNonExistentFileError
        (page <string>)                    the key of source_to_page_paths that was hit: str(fspath), "/"-joined with
                                           a leading "/"
        (asset (l <string>*) (l <byte>*))  the key added to filename_to_asset_paths is resolved-root + these
                                           components; its website path is assets_dir + "/" + "/".join(components);
                                           the bytes are the content of the file
        (loop)                             RuntimeError("Symlink loop ...") from Path.resolve or from the check that
                                           no component of the resolved path is a symbolic link
        (fuel)                             the model gave up: more than 4096 link expansions without a loop
        (bad-request fs)                   the file system is not well formed (`Fs.wf`)
        (bad-request args)                 anything else
    (fslink1 / fslinkp1 / fsembed1 ...)    the same three for the code before commit 5662881 (a single resolve())
    (fslink2 / fslinkp2 / fsembed2 ...)    the same three for commit 5662881 (resolve().resolve())
    (fsresolve <fs> <path>)                Path.resolve(): (some <path>) | none (RuntimeError) | (fuel)
    (fsresolve2 <fs> <path>)               Path.resolve().resolve(): the same replies
    (fsunquote <string>)                   urllib.parse.unquote: <string>
    (fsurlsplit <string>)                  urlsplit: (l <scheme> <netloc> <path>)
    ```
-/
namespace RG

def nodeOfSexp? : Sexp → Option Node
  | .list [.atom "dir"] => some .dir
  | .list [.atom "file", bytes] => (Sexp.asList? Sexp.asNat? bytes).map .file
  | .list [.atom "symlink", t] => (t.asStr?).map fun t => .symlink (splitSlash t) (t.head? == some '/')
  | _ => none

def pathOfSexp? (x : Sexp) : Option Path := Sexp.asList? Sexp.asStr? x

def fsOfSexp? (x : Sexp) : Option Fs :=
  (Sexp.asList? (fun e => match e with
    | .list [.atom "n", p, n] => do pure ((← pathOfSexp? p), (← nodeOfSexp? n))
    | _ => none) x).map Fs.mk

def pathToStr (p : Path) : Str := '/' :: joinSlash p

def Outcome.toSexp : Outcome → Sexp
  | .untouched => Sexp.tag "untouched" []
  | .external => Sexp.tag "external" []
  | .missing => Sexp.tag "missing" []
  | .page k => Sexp.tag "page" [Sexp.ofStr (pathToStr k)]
  | .asset rel content => Sexp.tag "asset" [Sexp.ofList Sexp.ofStr rel, Sexp.ofList Sexp.ofNat content]
  | .loop => Sexp.tag "loop" []
  | .gaveUp => Sexp.tag "fuel" []

def fsBad (what : String) : Sexp := Sexp.tag "bad-request" [Sexp.atom what]

def resolvedToSexp : Resolved → Sexp
  | .ok q => Sexp.ofOpt (Sexp.ofList Sexp.ofStr) (some q)
  | .eloop => Sexp.ofOpt (Sexp.ofList Sexp.ofStr) none
  | .outOfFuel => Sexp.tag "fuel" []

/-- the three decisions for a given way of resolving -/
def fsDecide (decide : (Path → Bool) → Fs → Path → Path → Str → Outcome) (kind : String) (args : List Sexp) : Option Sexp :=
  match kind, args with
  | "link", [fs, root, sourceDir, url] =>
    match fsOfSexp? fs, pathOfSexp? root, pathOfSexp? sourceDir, url.asStr? with
    | some fs, some root, some sd, some url =>
      some (if fs.wf then (decide (isPageSource fs root) fs root sd url).toSexp else fsBad "fs")
    | _, _, _, _ => some (fsBad "args")
  | "linkp", [pages, fs, root, sourceDir, url] =>
    match Sexp.asList? pathOfSexp? pages, fsOfSexp? fs, pathOfSexp? root, pathOfSexp? sourceDir, url.asStr? with
    | some pages, some fs, some root, some sd, some url =>
      some (if fs.wf then (decide (fun q => pages.contains q) fs root sd url).toSexp else fsBad "fs")
    | _, _, _, _, _ => some (fsBad "args")
  | "embed", [fs, root, sourceDir, url] =>
    match fsOfSexp? fs, pathOfSexp? root, pathOfSexp? sourceDir, url.asStr? with
    | some fs, some root, some sd, some url =>
      some (if fs.wf then (decide (fun _ => false) fs root sd url).toSexp else fsBad "fs")
    | _, _, _, _ => some (fsBad "args")
  | _, _ => some (fsBad "args")

def fsDispatch : Sexp → Option Sexp
  | .list (.atom "fslink" :: args) => fsDecide decideLinkP "link" args
  | .list (.atom "fslinkp" :: args) => fsDecide decideLinkP "linkp" args
  | .list (.atom "fsembed" :: args) => fsDecide decideLinkP "embed" args
  | .list (.atom "fslink2" :: args) => fsDecide decideLinkP2 "link" args
  | .list (.atom "fslinkp2" :: args) => fsDecide decideLinkP2 "linkp" args
  | .list (.atom "fsembed2" :: args) => fsDecide decideLinkP2 "embed" args
  | .list (.atom "fslink1" :: args) => fsDecide decideLinkP1 "link" args
  | .list (.atom "fslinkp1" :: args) => fsDecide decideLinkP1 "linkp" args
  | .list (.atom "fsembed1" :: args) => fsDecide decideLinkP1 "embed" args
  | .list [.atom "fsresolve", fs, p] =>
    match fsOfSexp? fs, pathOfSexp? p with
    | some fs, some p => some (if fs.wf then resolvedToSexp (resolvePy fs p) else fsBad "fs")
    | _, _ => some (fsBad "args")
  | .list [.atom "fsresolve2", fs, p] =>
    match fsOfSexp? fs, pathOfSexp? p with
    | some fs, some p => some (if fs.wf then resolvedToSexp (resolvePy2 fs p) else fsBad "fs")
    | _, _ => some (fsBad "args")
  | .list [.atom "fsunquote", s] =>
    match s.asStr? with
    | some s => some (Sexp.ofStr (unquote s))
    | none => some (fsBad "args")
  | .list [.atom "fsurlsplit", s] =>
    match s.asStr? with
    | some s => let (a, b, c) := urlSplit s; some (Sexp.ofList Sexp.ofStr [a, b, c])
    | none => some (fsBad "args")
  | _ => none

end RG
