import RecipeGrid.Model.BraceExpr
import RecipeGrid.Model.BracePrint
/-! Line-protocol requests served by the `{…}` expression model. -/
namespace RG

def dispatchBrace : Sexp → Option Sexp
  | .list [.atom "brace-match", text] =>
    match text.asStr? with
    | some text =>
      some (Sexp.ofOpt (fun (r : Str × Str) => Sexp.list [Sexp.ofStr r.1, Sexp.ofNat (text.length - r.2.length)])
        (braceMatch text))
    | none => some (Sexp.tag "bad-request" [Sexp.atom "args"])
  | .list [.atom "brace-parse", src] =>
    match src.asStr? with
    | some src =>
      some (match braceExpr src with
        | .ok s => Sexp.tag "ok" [Svs.toSexp s, Sexp.ofStr (braceChildren src)]
        | .error .valueError => Sexp.atom "ValueError"
        | .error .overflowError => Sexp.atom "OverflowError"
        | .error .infiniteFloat => Sexp.atom "infinite-float")
    | none => some (Sexp.tag "bad-request" [Sexp.atom "args"])
  | .list [.atom "brace-tokens", src] =>
    match src.asStr? with
    | some src => some (Svs.toSexp (braceTokens src))
    | none => some (Sexp.tag "bad-request" [Sexp.atom "args"])
  | .list [.atom "brace-print", x] =>
    match Svs.ofSexp? x with
    | some x => some (Sexp.list [Sexp.ofStr (Brace.printBrace x), Sexp.ofBool (Brace.sepOK x)])
    | none => some (Sexp.tag "bad-request" [Sexp.atom "args"])
  | _ => none

end RG
