import RecipeGrid.Model.Recipe
/-! `recipe_directory.enumerate_recipe_directory`: which entries of a directory listing are sub directories, the readme, recipes,
    or ignored.  The listing itself (`Path.iterdir`, `Path.is_dir`) is an input: `(name, isDir)` pairs in listing order. -/
namespace RG

structure DirEntry where
  name : Str
  /-- `path.is_dir()` (follows symbolic links) -/
  isDir : Bool
deriving Repr, Inhabited, DecidableEq

structure Listing where
  /-- `description_source`: the readme file, if any -/
  readme : Option Str
  subdirs : List Str
  recipes : List Str
deriving Repr, Inhabited, DecidableEq

inductive EnumResult where
  | ok (l : Listing)
  /-- `MultipleReadmeError` naming the first and the second readme file met -/
  | multipleReadme (first second : Str)
deriving Repr, Inhabited, DecidableEq

/-- `path.name.lower() in ("readme.md", "index.md")` -/
def isReadmeName (name : Str) : Bool :=
  lowerStr name == "readme.md".toList || lowerStr name == "index.md".toList

/-- index of the last `.` of `s`, if any -/
def lastDot (s : Str) : Option Nat :=
  let n := (s.reverse.takeWhile (· != '.')).length
  if n == s.length then none else some (s.length - 1 - n)

/-- `PurePath.suffix`: from the last dot on, unless the name starts with that dot or ends with it -/
def pathSuffix (name : Str) : Str :=
  match lastDot name with
  | some i => if 0 < i && i < name.length - 1 then name.drop i else []
  | none => []

/-- `path.suffix.lower() == ".md"` -/
def isRecipeName (name : Str) : Bool := lowerStr (pathSuffix name) == ".md".toList

/-- one step of the loop over `directory.iterdir()` -/
def enumStep (acc : EnumResult) (e : DirEntry) : EnumResult :=
  match acc with
  | .multipleReadme a b => .multipleReadme a b
  | .ok l =>
    if e.isDir then .ok { l with subdirs := l.subdirs ++ [e.name] }
    else if isReadmeName e.name then
      match l.readme with
      | none => .ok { l with readme := some e.name }
      | some first => .multipleReadme first e.name
    else if isRecipeName e.name then .ok { l with recipes := l.recipes ++ [e.name] }
    else .ok l

def enumerateDir (entries : List DirEntry) : EnumResult :=
  entries.foldl enumStep (.ok ⟨none, [], []⟩)

end RG
