import RecipeGrid.Model.Recipe
/-! `renderer/table.py` (dictionary view) and `renderer/recipe_to_table.py`. -/
namespace RG

inductive Border | none | normal | subRecipe
deriving Repr, DecidableEq, Inhabited

inductive CellKind | ingredient | reference | step | header | outputs
deriving Repr, DecidableEq, Inhabited

structure PCell where
  row : Nat
  col : Nat
  rows : Nat
  cols : Nat
  /-- position of the node in the recipe tree (child indices from the root) -/
  path : List Nat
  kind : CellKind
  bl : Border := .normal
  br : Border := .normal
  bt : Border := .normal
  bb : Border := .normal
deriving Repr, DecidableEq, Inhabited

structure Tbl where
  h : Nat
  w : Nat
  cells : List PCell
deriving Repr, Inhabited

/-- `right_pad_table`: extend the right-most cells -/
def padCell (w0 w : Nat) (x : PCell) : PCell :=
  if x.col + x.cols = w0 then { x with cols := w - x.col } else x
def pad (t : Tbl) (w : Nat) : Tbl :=
  if t.w ≥ w then t else { t with w := w, cells := t.cells.map (padCell t.w w) }

def shiftDown (d : Nat) (x : PCell) : PCell := { x with row := x.row + d }
def shiftRight (d : Nat) (x : PCell) : PCell := { x with col := x.col + d }
/-- `combine_tables(axis=0)` of two tables -/
def vcat (a b : Tbl) : Tbl := ⟨a.h + b.h, a.w, a.cells ++ b.cells.map (shiftDown a.h)⟩
/-- `combine_tables(axis=1)` of two tables -/
def hcat (a b : Tbl) : Tbl := ⟨a.h, a.w + b.w, a.cells ++ b.cells.map (shiftRight a.w)⟩
def vstack : List Tbl → Tbl
  | [] => ⟨0, 0, []⟩
  | [t] => t
  | t :: ts => vcat t (vstack ts)

/-- `set_border_around_table` -/
def borderCell (h w : Nat) (b : Border) (x : PCell) : PCell :=
  { x with
    bl := if x.col = 0 then b else x.bl
    br := if x.col + x.cols = w then b else x.br
    bt := if x.row = 0 then b else x.bt
    bb := if x.row + x.rows = h then b else x.bb }
def setBorder (t : Tbl) (b : Border) : Tbl := { t with cells := t.cells.map (borderCell t.h t.w b) }

def maxWidth : List Tbl → Nat
  | [] => 0
  | t :: ts => max t.w (maxWidth ts)

mutual
/-- `recipe_tree_to_table(tree, _root)`; `p` is the node's path -/
def layoutAt (p : List Nat) (root : Bool) : Tree → Tbl
  | .ingredient .. =>
    let t : Tbl := ⟨1, 1, [{ row := 0, col := 0, rows := 1, cols := 1, path := p, kind := .ingredient }]⟩
    if root then setBorder t .subRecipe else t
  | .reference .. =>
    let t : Tbl := ⟨1, 1, [{ row := 0, col := 0, rows := 1, cols := 1, path := p, kind := .reference }]⟩
    if root then setBorder t .subRecipe else t
  | .step _ inputs =>
    let ts := layoutInputs p 0 inputs
    let wmax := maxWidth ts
    let stacked := vstack (ts.map (pad · wmax))
    let t := hcat stacked ⟨stacked.h, 1, [{ row := 0, col := 0, rows := stacked.h, cols := 1, path := p, kind := .step }]⟩
    if root then setBorder t .subRecipe else t
  | .sub body names showNames =>
    let bt := layoutAt (p ++ [0]) false body
    if names.length = 1 then
      if showNames then
        setBorder (vcat ⟨1, bt.w, [{ row := 0, col := 0, rows := 1, cols := bt.w, path := p, kind := .header }]⟩ bt) .subRecipe
      else setBorder bt .subRecipe
    else
      hcat (setBorder bt .subRecipe)
        ⟨bt.h, 1, [{ row := 0, col := 0, rows := bt.h, cols := 1, path := p, kind := .outputs,
                     bt := .none, br := .none, bb := .none }]⟩
def layoutInputs (p : List Nat) (i : Nat) : List Tree → List Tbl
  | [] => []
  | t :: ts => layoutAt (p ++ [i]) false t :: layoutInputs p (i + 1) ts
end

def layout (t : Tree) : Tbl := layoutAt [] true t

/-- raster order used when emitting rows -/
def rasterLt (a b : PCell) : Bool := a.row < b.row || (a.row == b.row && a.col < b.col)
def rasterSort (cs : List PCell) : List PCell := insertionSort (fun a b => !rasterLt b a) cs

/-- node at a path -/
def Tree.at? : Tree → List Nat → Option Tree
  | t, [] => some t
  | .step _ inputs, i :: rest => match inputs[i]? with | some c => Tree.at? c rest | none => none
  | .sub b _ _, 0 :: rest => Tree.at? b rest
  | _, _ => none

def Border.toSexp : Border → Sexp
  | .none => .atom "no-border" | .normal => .atom "normal" | .subRecipe => .atom "sub_recipe"
def CellKind.toSexp : CellKind → Sexp
  | .ingredient => .atom "ingredient" | .reference => .atom "reference" | .step => .atom "step"
  | .header => .atom "header" | .outputs => .atom "outputs"
def PCell.toSexp (c : PCell) : Sexp :=
  Sexp.tag "cell" [Sexp.ofNat c.row, Sexp.ofNat c.col, Sexp.ofNat c.rows, Sexp.ofNat c.cols,
    Sexp.list (Sexp.atom "l" :: c.path.map Sexp.ofNat), c.kind.toSexp,
    c.bl.toSexp, c.br.toSexp, c.bt.toSexp, c.bb.toSexp]
def Tbl.toSexp (t : Tbl) : Sexp :=
  Sexp.tag "table" [Sexp.ofNat t.h, Sexp.ofNat t.w, Sexp.ofList PCell.toSexp (rasterSort t.cells)]

end RG
