import RecipeGrid.Model.Html
import RecipeGrid.Model.Chars
import RecipeGrid.Gen.Markdown
/-! The decision logic of `markdown.py`: grouping of code blocks into independent recipes, line-number
    padding, title / serving-count extraction from the first heading, and `MarkdownRecipe.render`
    (chained `str.replace` of placeholders). marko itself is outside the model. -/
namespace RG

-- ---------------------------------------------------------------- block grouping
inductive CodeBlockKind where
  | indented
  | fenced (lang : Str)
deriving Repr, Inhabited

def CodeBlockKind.isRecipe : CodeBlockKind → Bool
  | .indented => true
  | .fenced l => l == "recipe".toList || l == "new-recipe".toList
def CodeBlockKind.startsNew : CodeBlockKind → Bool
  | .fenced l => l == "new-recipe".toList
  | _ => false

/-- `independent_recipe_source_blocks`: indices (into the document's code blocks) of the recipe blocks, grouped -/
def groupBlocksAux : List (CodeBlockKind × Nat) → List (List Nat) → List (List Nat)
  | [], acc => acc.reverse.map List.reverse
  | (k, i) :: rest, acc =>
    if !k.isRecipe then groupBlocksAux rest acc
    else match acc with
      | [] => groupBlocksAux rest [[i]]
      | g :: gs => if k.startsNew then groupBlocksAux rest ([i] :: g :: gs) else groupBlocksAux rest ((i :: g) :: gs)
def groupBlocks (blocks : List CodeBlockKind) : List (List Nat) := groupBlocksAux blocks.zipIdx []

/-- `get_line_number_corrected_source`: newlines so that the block's lines keep their document line numbers -/
def normaliseCrLf : Str → Str
  | '\r' :: '\n' :: rest => '\n' :: normaliseCrLf rest
  | c :: rest => c :: normaliseCrLf rest
  | [] => []

/-- a carriage return left after `normaliseCrLf` is a line ending of its own (the first of "\r\r\n"): it is counted, and compiled, as "\n" -/
def crToLf (s : Str) : Str := s.map fun c => if c = '\r' then '\n' else c

def paddedSource (markdown : Str) (pos : Nat) (fenced : Bool) (source : Str) : Str :=
  List.replicate ((offsetToLineCol (crToLf (normaliseCrLf markdown)) pos).1 - 1 + (if fenced then 1 else 0)) '\n' ++ crToLf source

-- ---------------------------------------------------------------- title and servings
/-- match a word case-insensitively (regex `(?i)` on ASCII letters) at the start of `s` -/
def ciWordPrefix : List Char → Str → Option Str
  | [], s => some s
  | w :: ws, c :: s => if ciMatches c w then ciWordPrefix ws s else none
  | _ :: _, [] => none

/-- `\s+` -/
def spaces1 (s : Str) : Option Str :=
  match s with
  | c :: _ => if isReSpace c then some (s.dropWhile isReSpace) else none
  | [] => none

/-- the words of a phrase separated by `\s+`, then `\s+` -/
def phrasePrefix : List String → Str → Option Str
  | [], s => spaces1 s
  | [w], s => (ciWordPrefix w.toList s).bind spaces1
  | w :: ws, s => ((ciWordPrefix w.toList s).bind spaces1).bind (phrasePrefix ws)

/-- `[0-9]+\s*$`: the digits if `s` is digits followed only by spaces -/
def digitsToEnd (s : Str) : Option Str :=
  let ds := s.takeWhile isDigit
  let rest := s.dropWhile isDigit
  if ds.isEmpty then none
  else if rest.all isReSpace || rest == ['\n'] then some ds else none

/-- does the pattern match with its `space` group starting exactly here? returns (space, preposition, digits) -/
def matchServingsAt (s : Str) : Option (Str × Str × Str) :=
  match spaces1 s with
  | none => none
  | some afterSpace =>
    let space := s.take (s.length - afterSpace.length)
    Gen.servingPhrases.findSome? fun ph =>
      match phrasePrefix ph afterSpace with
      | some afterPrep =>
        match digitsToEnd afterPrep with
        | some ds => some (space, afterSpace.take (afterSpace.length - afterPrep.length), ds)
        | none => none
      | none => none

/-- `title_serving_count_pattern.search(text)`: leftmost match; returns (text before the match, space, preposition, digits) -/
def searchServingsAux (before : Str) : Str → Option (Str × Str × Str × Str)
  | [] => none
  | s@(c :: rest) =>
    match matchServingsAt s with
    | some (sp, prep, ds) => some (before.reverse, sp, prep, ds)
    | none => searchServingsAux (c :: before) rest
def searchServings (text : Str) : Option (Str × Str × Str × Str) := searchServingsAux [] text

def natOfDigitChars (ds : Str) : Nat := ds.foldl (fun a c => 10 * a + (c.toNat - 48)) 0

/-- `html.unescape` restricted to the references marko emits in text -/
def unescapeEntities : Str → Str
  | '&' :: 'a' :: 'm' :: 'p' :: ';' :: r => '&' :: unescapeEntities r
  | '&' :: 'l' :: 't' :: ';' :: r => '<' :: unescapeEntities r
  | '&' :: 'g' :: 't' :: ';' :: r => '>' :: unescapeEntities r
  | '&' :: 'q' :: 'u' :: 'o' :: 't' :: ';' :: r => '"' :: unescapeEntities r
  | '&' :: '#' :: '3' :: '9' :: ';' :: r => '\'' :: unescapeEntities r
  | c :: r => c :: unescapeEntities r
  | [] => []

def stripStr (s : Str) : Str := rstripStr (lstripStr s)

inductive TitleInfo where
  /-- not the first heading, not level 1, or contains markup / a placeholder -/
  | none
  | unscalable (title : Str)
  | scalable (title : Str) (servings : Nat) (titleHtml : Str) (preposition : Str)
deriving Repr, Inhabited

def isPrefixOfStr : Str → Str → Bool
  | [], _ => true
  | _, [] => false
  | a :: as, b :: bs => a == b && isPrefixOfStr as bs

/-- `pat in s` -/
def isInfixOfStr (pat : Str) : Str → Bool
  | [] => pat.isEmpty
  | s@(_ :: rest) => isPrefixOfStr pat s || isInfixOfStr pat rest

/-- `render_heading`'s decision on the rendered heading text; `phs` are the placeholders of the scaled value
    expressions rendered so far -/
def headingInfo (first : Bool) (level : Nat) (text : Str) (phs : List Str) : TitleInfo :=
  if first && level == 1 && !text.contains '<' && !phs.any (isInfixOfStr · text) then
    match searchServings text with
    | none => .unscalable (unescapeEntities (stripStr text))
    | some (before, space, prep, ds) =>
      .scalable (unescapeEntities (stripStr (before ++ space))) (natOfDigitChars ds) (before ++ space) prep
  else .none

-- ---------------------------------------------------------------- render

/-- `s.replace(pat, rep)` for a non-empty `pat`: leftmost, non-overlapping -/
def replaceAllAux (pat rep : Str) : Nat → Str → Str
  | 0, s => s
  | _, [] => []
  | fuel + 1, s@(c :: rest) =>
    if isPrefixOfStr pat s then rep ++ replaceAllAux pat rep fuel (s.drop pat.length)
    else c :: replaceAllAux pat rep fuel rest
def replaceAll (pat rep s : Str) : Str := if pat.isEmpty then s else replaceAllAux pat rep (s.length + 1) s

structure MdDoc where
  html : Str
  svs : List (Str × SVS)
  /-- per recipe block: placeholder, starts a new independent recipe (`follows is None`), the trees -/
  recipes : List (Str × Bool × Block)
  hasTitle : Bool
  servings : Option Nat
  prePost : Option (Str × Str)

def idPrefix (i : Nat) : Str := if i > 1 then "recipe".toList ++ natDigits i ++ ['-'] else "recipe-".toList

def renderRecipesAux (k : Num) : Nat → List (Str × Bool × Block) → Str → Str
  | _, [], html => html
  | i, (ph, isNew, trees) :: rest, html =>
    let i := if isNew then i + 1 else i
    let body := joinNl ((Tree.scaleList k trees).map (renderRecipeTree (idPrefix i)))
    renderRecipesAux k i rest (replaceAll ph (tagBody "div" [("class", "rg-recipe-block".toList)] body) html)

/-- `MarkdownRecipe.render(scale)` -/
def renderDoc (d : MdDoc) (k : Num) : Str :=
  let html := d.svs.foldl (fun h (ph, s) => replaceAll ph (renderSvs (Svs.scale k s)) h) d.html
  let html := renderRecipesAux k 0 d.recipes html
  match d.hasTitle, d.prePost with
  | true, some (pre, post) =>
    let html := replaceAll pre "<header>".toList html
    let postText : Str :=
      if k.val == 1 then []
      else match d.servings with
        | some n =>
          let orig := tagBody "span" [("class", "rg-original-servings".toList)]
            (natDigits n ++ " serving".toList ++ (if n != 1 then ['s'] else []))
          tagBody "p" [] ("Rescaled from ".toList ++ orig ++ ['.'])
        | none =>
          tagBody "p" [] ("Scaled ".toList ++ tagBody "span" [("class", "rg-scaling-factor".toList)] (renderNumber k ++ "&times;".toList))
    replaceAll post (postText ++ "</header>".toList) html
  | _, _ => html

end RG
