import RecipeGrid.Model.Num
import RecipeGrid.Gen.NumFmt
/-! `number_formatting.py` and `render_number` of `renderer/html.py`. -/
namespace RG

def digitChar (d : Nat) : Char := Char.ofNat (48 + d % 10)

/-- decimal digits of a natural number, most significant first; `0 ↦ "0"` -/
def natDigits (n : Nat) : Str := (Nat.toDigits 10 n)

def intStr (n : Int) : Str :=
  if n < 0 then '-' :: natDigits n.natAbs else natDigits n.natAbs

def rstripZeros (s : Str) : Str := (s.reverse.dropWhile (· == '0')).reverse

def padLeftZeros (w : Nat) (s : Str) : Str := List.replicate (w - s.length) '0' ++ s

/-- number of decimals shown: the digit budget minus the integer digits (an integer part of 0 uses none) -/
def fracDigits (sig : Nat) (x : Rat) : Nat :=
  let i := x.floor.toNat
  sig - (if i == 0 then 0 else (natDigits i).length)

/-- `format_float` on the exact value of a non-negative double -/
def formatFloatSig (sig : Nat) (x : Rat) : Str :=
  let i := x.floor.toNat
  let d := fracDigits sig x
  let f := x - (i : Rat)
  let fd := (roundHalfEven (f * ((10 ^ d : Nat) : Rat))).toNat
  let s := if fd ≥ 10 ^ d then [] else rstripZeros (padLeftZeros d (natDigits fd))
  let s := if d == 0 then [] else s
  if s.isEmpty then intStr (roundHalfEven x) else natDigits i ++ '.' :: s

def formatFloat (x : Rat) : Str := formatFloatSig Gen.significantFigures x

/-- `format_fraction` for a non-negative exact number -/
def formatFraction (q : Rat) : Str :=
  if q.den == 1 then intStr q.num
  else if !(Gen.allowedDenominators.contains q.den) then formatFloat (toDouble q)
  else if q.num.natAbs > q.den then
    natDigits (q.num.natAbs / q.den) ++ ' ' :: natDigits (q.num.natAbs % q.den) ++ '/' :: natDigits q.den
  else intStr q.num ++ '/' :: natDigits q.den

def formatNumber (n : Num) : Str :=
  if n.isFlt then formatFloat n.val else formatFraction n.val

/-- what `render_number` does with the text of `format_number`: fractions get sup/sub markup -/
def renderNumberStr (s : Str) : Str :=
  match s.splitOn '/' with
  | [lhs, den] =>
    let (intPart, numer) :=
      match lhs.splitOn ' ' with
      | [i, n] => (i ++ [' '], n)
      | _ => ([], lhs)
    intPart ++ "<sup>".toList ++ numer ++ "</sup>&frasl;<sub>".toList ++ den ++ "</sub>".toList
  | _ => s

def renderNumber (n : Num) : Str := renderNumberStr (formatNumber n)

end RG
