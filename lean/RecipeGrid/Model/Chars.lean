import RecipeGrid.Gen.Chars
/-! Character classes used by the recipe grammar, over the tables generated from CPython.
    `\s`, `\w` and `(?i)` are the Unicode (str pattern) versions that Python's `re` uses. -/
namespace RG

/-- membership of a code point in an inclusive range table -/
def inTable (rs : List (Nat × Nat)) (n : Nat) : Bool :=
  rs.any fun r => r.1 ≤ n && n ≤ r.2

/-- regex `\s` -/
def isReSpace (c : Char) : Bool := inTable Gen.reSpaceRanges c.toNat

/-- regex `\w` -/
def isReWord (c : Char) : Bool := inTable Gen.reWordRanges c.toNat

/-- the grammar's `[ \t]` -/
def isHsp (c : Char) : Bool := c == ' ' || c == '\t'

/-- the grammar's `[0-9]` (ASCII only) -/
def isDigit (c : Char) : Bool := 48 ≤ c.toNat && c.toNat ≤ 57

/-- the grammar's `[\r\n]` -/
def isNewline (c : Char) : Bool := c == '\n' || c == '\r'

/-- does `c` match the pattern character `l` under `(?i)`?  Pattern characters are ASCII
    lower case letters (or non-letters, which match only themselves); besides the two ASCII
    cases a handful of non-ASCII characters fold onto ASCII letters (`Gen.ciPartners`). -/
def ciMatches (c l : Char) : Bool :=
  c == l || Gen.ciPartners.contains (c.toNat, l.toNat)

/-- regex `\b` between `t[i-1]` and `t[i]`: exactly one side is a word character
    (outside the text counts as a non-word character) -/
def wordBoundaryAt (t : Array Char) (i : Nat) : Bool :=
  let before := if i = 0 then false else (t[i - 1]?.map isReWord).getD false
  let after := (t[i]?.map isReWord).getD false
  before != after

end RG
