import RecipeGrid.Model.Mime
import RecipeGrid.Model.Sexp
/-! Line-protocol requests served by `Model/DataUrl.lean`. A string is `(s cp ...)`, bytes are `(l n ...)` with
    every `n` in 0..255 (anything else: `(bad-request bytes)`).

    ```
    (b64 <bytes>)                       base64.b64encode(bs).decode("ascii")             -> <string>
    (b64d <string>)                     base64.b64decode(s, validate=True)               -> (ok <bytes>) | bad
    (b64dc <string>)                    the canonical RFC 4648 decoder                    -> (ok <bytes>) | bad
    (data-url <string> <bytes>)         f"data:{mimetype};base64,{b64encode(bs)}"          -> <string>
    (data-url-parse <string>)           RFC 2397 reading                                 -> (ok <string> <bytes>) | bad
    (data-url-parse-canon <string>)     the same with the canonical base64 decoder         -> (ok <string> <bytes>) | bad
    (guess-type <tbl> <tbl> <tbl> <string>)
                                        the media type rewrite_link writes (code now, commit cc91d96: octet-stream
                                        when guess_type gives no type OR an encoding), over the given
                                        suffix_map, encodings_map, types_map; <tbl> ::= (l (l <string> <string>)*)
    (guess-type-old <tbl> <tbl> <tbl> <string>)
                                        the rule before cc91d96: guess_type(name)[0] or "application/octet-stream"
    (guess-pair <tbl> <tbl> <tbl> <string>)
                                        mimetypes.guess_type(name)  -> (l <type|none> <encoding|none>), each (some <string>) | none
    (guess-pair-builtin <string>)       the same over CPython's built-in tables
    (embed-url-old <string> <bytes>)    the data URL before cc91d96, built-in tables
    (guess-type-builtin <string>)       the same over CPython's built-in tables (Gen/Mime.lean)  -> <string>
    (embed-url <string> <bytes>)        data URL for a file of that name and content, built-in tables -> <string>
    (attr-verbatim <code point>)        is the character written as it is into a src/href attribute by lxml? -> T | F
    (splitext <string>)                 posixpath.splitext of a file name                -> (l <string> <string>)
    ```
-/
namespace RG

def bytesOfSexp? (x : Sexp) : Option (List Nat) := Sexp.asList? Sexp.asNat? x

def tblOfSexp? (x : Sexp) : Option (List (List Char × List Char)) :=
  Sexp.asList? (fun e => match e with
    | .list [.atom "l", k, v] => do pure ((← k.asStr?), (← v.asStr?))
    | _ => none) x

def decodedToSexp : Option (List Nat) → Sexp
  | some bs => Sexp.tag "ok" [Sexp.ofList Sexp.ofNat bs]
  | none => .atom "bad"

def duBad (what : String) : Sexp := Sexp.tag "bad-request" [Sexp.atom what]

def dispatchDataUrl : Sexp → Option Sexp
  | .list [.atom "b64", bs] =>
    match bytesOfSexp? bs with
    | some bs => some (if isBytes bs then Sexp.ofStr (b64encode bs) else duBad "bytes")
    | none => some (duBad "args")
  | .list [.atom "b64d", s] =>
    match s.asStr? with
    | some s => some (decodedToSexp (b64decode s))
    | none => some (duBad "args")
  | .list [.atom "b64dc", s] =>
    match s.asStr? with
    | some s => some (decodedToSexp (b64decodeCanon s))
    | none => some (duBad "args")
  | .list [.atom "data-url", m, bs] =>
    match m.asStr?, bytesOfSexp? bs with
    | some m, some bs => some (if isBytes bs then Sexp.ofStr (dataUrl m bs) else duBad "bytes")
    | _, _ => some (duBad "args")
  | .list [.atom "data-url-parse", u] =>
    match u.asStr? with
    | some u =>
      some (match parseDataUrl u with
        | some (m, bs) => Sexp.tag "ok" [Sexp.ofStr m, Sexp.ofList Sexp.ofNat bs]
        | none => .atom "bad")
    | none => some (duBad "args")
  | .list [.atom "data-url-parse-canon", u] =>
    match u.asStr? with
    | some u =>
      some (match parseDataUrlCanon u with
        | some (m, bs) => Sexp.tag "ok" [Sexp.ofStr m, Sexp.ofList Sexp.ofNat bs]
        | none => .atom "bad")
    | none => some (duBad "args")
  | .list [.atom "guess-type", sm, em, tm, name] =>
    match tblOfSexp? sm, tblOfSexp? em, tblOfSexp? tm, name.asStr? with
    | some sm, some em, some tm, some name => some (Sexp.ofStr (guessTypeWith sm em tm name))
    | _, _, _, _ => some (duBad "args")
  | .list [.atom "guess-type-old", sm, em, tm, name] =>
    match tblOfSexp? sm, tblOfSexp? em, tblOfSexp? tm, name.asStr? with
    | some sm, some em, some tm, some name => some (Sexp.ofStr (guessTypeOldWith sm em tm name))
    | _, _, _, _ => some (duBad "args")
  | .list [.atom "guess-pair", sm, em, tm, name] =>
    match tblOfSexp? sm, tblOfSexp? em, tblOfSexp? tm, name.asStr? with
    | some sm, some em, some tm, some name =>
      let p := guessPairWith sm em tm name
      some (Sexp.ofList (Sexp.ofOpt Sexp.ofStr) [p.1, p.2])
    | _, _, _, _ => some (duBad "args")
  | .list [.atom "guess-pair-builtin", name] =>
    match name.asStr? with
    | some name => let p := guessPair name; some (Sexp.ofList (Sexp.ofOpt Sexp.ofStr) [p.1, p.2])
    | none => some (duBad "args")
  | .list [.atom "embed-url-old", name, bs] =>
    match name.asStr?, bytesOfSexp? bs with
    | some name, some bs => some (if isBytes bs then Sexp.ofStr (embedUrlOld name bs) else duBad "bytes")
    | _, _ => some (duBad "args")
  | .list [.atom "guess-type-builtin", name] =>
    match name.asStr? with
    | some name => some (Sexp.ofStr (guessType name))
    | none => some (duBad "args")
  | .list [.atom "embed-url", name, bs] =>
    match name.asStr?, bytesOfSexp? bs with
    | some name, some bs => some (if isBytes bs then Sexp.ofStr (embedUrl name bs) else duBad "bytes")
    | _, _ => some (duBad "args")
  | .list [.atom "splitext", name] =>
    match name.asStr? with
    | some name => let (a, b) := splitExt name; some (Sexp.ofList Sexp.ofStr [a, b])
    | none => some (duBad "args")
  | .list [.atom "attr-verbatim", c] =>
    match c.asNat? with
    | some c => some (Sexp.ofBool (attrVerbatim (Char.ofNat c)))
    | none => some (duBad "args")
  | _ => none

end RG
