import RecipeGrid.Model.Peg
import RecipeGrid.Gen.Grammar
/-! The generated grammar (`Gen/Grammar.lean`) run by the generic recogniser of `Model/Peg.lean`.

    The regexes of the grammar are not interpreted: `terminalScanner` maps the SOURCE STRING of each regex / literal of
    `grammar.peg` to the scanner the hand-written parser (`Model/Parser.lean`) uses for it.  A regex that is edited in
    `grammar.peg` is no longer found in this table, `pegAccepts` becomes `none` and the theorems `terminals_known` and
    `parser_recognises_grammar` (`Props/C06c.lean`) fail. -/
namespace RG
namespace Peg
open Parser

/-- run `p`, forget its value -/
def void {α} (p : P α) : P Unit := do let _ ← p; pure ()

/-- `r"0*[1-9][0-9]*"`: a run of digits that are not all zero (then all of the run) -/
def denominator : P Unit := do
  let ds ← digits
  if natOfDigits ds = 0 then fail else pure ()

/-- `r"[ \t]*[\r\n]\s*"`: the first regex of `eol` -/
def eolBreak : P Unit := do ohsp; let _ ← sat isNewline; osp

/-- the scanner for a regex of `grammar.peg`, by the source of the regex -/
def terminalScanner : String → Option (P Unit)
  | ":?=" => some (void assign)
  | "," => some (lit ',')
  | "\\(" => some (lit '(')
  | "\\)" => some (lit ')')
  | "\\{" => some (lit '{')
  | "\\}" => some (lit '}')
  | "%" => some (lit '%')
  | "\\*" => some (lit '*')
  | "/" => some (lit '/')
  | "\"" => some (lit '"')
  | "'" => some (lit '\'')
  | "\\\\" => some (lit '\\')
  | "." => some (void anyChar)
  | "[^\"\n\r]" => some (void (sat fun c => c != '"' && !isNewline c))
  | "[^'\n\r]" => some (void (sat fun c => c != '\'' && !isNewline c))
  | "[^0-9{}\n\r]" => some (void (sat fun c => !isDigit c && c != '{' && c != '}' && !isNewline c))
  | "[0-9]+" => some (void digits)
  | "0*[1-9][0-9]*" => some denominator
  | "[0-9]+(\\.[0-9]*)?" => some (void decimal)
  | "\\s+" => some sp
  | "[ \t]+" => some hsp
  | "[ \t]*" => some ohsp
  | "[ \t]*[\r\n]\\s*" => some eolBreak
  | "[^\"',:=/(){}\\s]([^\"',:=/(){}\n\r]*[^\"',:=/(){}\\s])?" => some (void nakedString)
  | "(?i)(remaining|remainder|rest|left[ \t]*over)\\b" => some remainder
  | "(?i)of([ \t]+the)?\\b" => some preposition
  | "(?i)(@KNOWN_UNITS@)\\b" => some knownUnit
  | _ => none

end Peg

/-- enough fuel for the nesting of rule calls on a text of `n` characters: every level of `expr` (two rule calls) and
    every further atom of a `string` (one rule call) consumes a character -/
def pegFuel (n : Nat) : Nat := 2 * n + 32

/-- the start rule of the generated grammar on the whole text -/
def pegRecipe (src : Str) : PegRes :=
  pegRun Gen.grammarRules Peg.terminalScanner src.toArray (pegFuel src.length) Gen.startRule 0

/-- does the generated grammar accept `src` (under the semantics of peggie)?  `none`: the run is undefined -/
def pegAccepts (src : Str) : Option Bool :=
  match pegRecipe src with
  | .ok _ => some true
  | .fail => some false
  | .err _ => none

def dispatchPeg : Sexp → Option Sexp
  | .list [.atom "peg-accepts", src] =>
    match src.asStr? with
    | some src => some (Sexp.ofOpt Sexp.ofBool (pegAccepts src))
    | none => some (Sexp.tag "bad-request" [Sexp.atom "args"])
  | .list [.atom "peg-run", src] =>
    match src.asStr? with
    | some src => some (pegRecipe src).toSexp
    | none => some (Sexp.tag "bad-request" [Sexp.atom "args"])
  | .list [.atom "peg-rule", name, src] =>
    -- one rule of the generated grammar from the start of a text
    match name.asStr?, src.asStr? with
    | some name, some src =>
      some (pegRun Gen.grammarRules Peg.terminalScanner src.toArray (pegFuel src.length) (String.ofList name) 0).toSexp
    | _, _ => some (Sexp.tag "bad-request" [Sexp.atom "args"])
  | .list [.atom "peg-term", re, src] =>
    -- one scanner of the table from the start of a text
    match re.asStr?, src.asStr? with
    | some re, some src =>
      some (pegRunExpr Gen.grammarRules Peg.terminalScanner 0 (.term (String.ofList re)) src.toArray 0).toSexp
    | _, _ => some (Sexp.tag "bad-request" [Sexp.atom "args"])
  | _ => none

end RG
