import RecipeGrid.Model.MdBlocks
/-! The block scanner of `Model/MdBlocks.lean` extended to ONE level of container: block quotes and list items
    (marko 0.9.1: `block.Quote`, `block.List`, `block.ListItem`, `helpers.Source.match_prefix` / `expect_re` /
    `next_line(require_prefix)`).

    Inside a container every block element is matched *behind the container's prefix* (`Source.prefix`: the regular
    expression ` {,3}>[^\n\S]?` of a quote; the literal first-line prefix `indent bullet mid-spaces` of a list item, then
    `k` spaces on the following lines), so the same line tagger (`step` of `Model/MdBlocks.lean`) runs on the line with
    the prefix removed.  A line that does not carry the prefix ends the container (or lazily continues its paragraph).
    `pos` of a code block is still the offset of the *whole* line (prefix included) in the normalised document; the
    captured text is built from the lines without their prefix.

    `scanBlocks2` / `inDoc2` (the sub-language **D2 ⊇ D**) — see NOTES.md for the exact definition. -/
namespace RG

inductive Ctx where
  /-- top level -/
  | none
  /-- inside a block quote -/
  | quote
  /-- inside a list item whose content starts at column `k` (`ListItem._second_prefix` is `k` spaces) -/
  | item (k : Nat)
deriving Repr, DecidableEq

structure TLine2 where
  /-- the role of the line *inside its container* (of the line without its prefix) -/
  tag : LineTag
  /-- the whole marko line -/
  text : Str
  /-- length of the container prefix at the start of `text` -/
  pfx : Nat
  /-- the container the line belongs to -/
  ctx : Ctx
  /-- regularity: `false` puts the document outside **D2** (exotic prefix, empty item, marko crash, …) -/
  reg : Bool
deriving Repr

/-- the line as the elements inside the container see it -/
def TLine2.inner (t : TLine2) : TLine := ⟨t.tag, t.text.drop t.pfx⟩

structure St2 where
  ctx : Ctx
  st : ScanSt
deriving Repr

-- ---------------------------------------------------------------- prefixes
/-- `[^\n\S]` -/
def isQuoteWs (c : Char) : Bool := isReSpace c && c != '\n'

/-- `Source.match_prefix(r" {,3}>[^\n\S]?", line)`: the length of the quote prefix -/
def quotePrefix? (l : Str) : Option Nat :=
  if leadSpaces l > 3 then none
  else match l.drop (leadSpaces l) with
    | '>' :: c :: _ => some (leadSpaces l + (if isQuoteWs c then 2 else 1))
    | '>' :: [] => some (leadSpaces l + 1)
    | _ => none

/-- the optional white-space character after `>` is a space (and not a lone carriage return, a form feed, …) -/
def quoteReg (l : Str) : Bool :=
  match l.drop (leadSpaces l) with
  | '>' :: c :: _ => !isQuoteWs c || c == ' '
  | _ => true

/-- `Source.match_prefix(" " * k, line)` (no tabs): `k` spaces, or — the "99 spaces" trick — a line made of fewer
    spaces and its newline -/
def itemPrefix? (k : Nat) (l : Str) : Option Nat :=
  if k ≤ leadSpaces l then some k
  else match l.drop (leadSpaces l) with
    | ['\n'] => some (leadSpaces l)
    | _ => none

def ctxPrefix? : Ctx → Str → Option Nat
  | .none, _ => some 0
  | .quote, l => quotePrefix? l
  | .item k, l => itemPrefix? k l

-- ---------------------------------------------------------------- list markers
/-- regex `\d` -/
def isReDigit (c : Char) : Bool := inTable Gen.reDigitRanges c.toNat

/-- `[ \t\n\r\f]` -/
def isMarkerFollow (c : Char) : Bool := c == ' ' || c == '\t' || c == '\n' || c == '\r' || c == '\x0c'

/-- `List.pattern` behind the indentation: `(\d{1,9}[.)]|[*\-+])[ \t\n\r\f]`; the length of the marker -/
def markerLen? (rest : Str) : Option Nat :=
  match rest with
  | [] => none
  | c :: r =>
    if c == '-' || c == '+' || c == '*' then
      (match r with
       | d :: _ => if isMarkerFollow d then some 1 else none
       | [] => none)
    else
      let n := (rest.takeWhile isReDigit).length
      if 1 ≤ n && n ≤ 9 then
        (match rest.drop n with
         | d :: e :: _ => if (d == '.' || d == ')') && isMarkerFollow e then some (n + 1) else none
         | _ => none)
      else none

structure ItemStart where
  /-- length of the first line's prefix: indentation, bullet, `mid` spaces -/
  pfx : Nat
  /-- content offset: the following lines of the item are indented by `k` spaces -/
  k : Nat
  /-- may interrupt a paragraph: a bullet or the number `1`, and the item is not empty -/
  interrupts : Bool
  /-- regular: ASCII digits, 1–4 spaces (no other white space) after the marker, then text -/
  reg : Bool
deriving Repr

/-- `List.match` / `ListItem.match` / `ListItem.parse_leading` on a line (indentation ≤ 3 spaces) -/
def itemStart? (l : Str) : Option ItemStart :=
  let i := leadSpaces l
  let rest := l.drop i
  match markerLen? rest with
  | none => none
  | some m =>
    let after := rest.drop m
    let ws := after.takeWhile isReSpace
    let tail := after.drop ws.length
    let empty := tail.isEmpty
    let mid := if empty then 0 else if ws.length > 4 then 1 else ws.length
    let bullet := rest.take m
    some ⟨i + m + mid, i + m + (if mid = 0 then 1 else mid),
      !empty && (m == 1 || bullet.take (m - 1) == ['1']),
      !empty && decide (ws.length ≤ 4) && ws.all (· == ' ') && (bullet.take (m - 1)).all isDigit && !looksThematic rest⟩

-- ---------------------------------------------------------------- the line tagger
def plainT (tag : LineTag) (l : Str) (st : ScanSt) (reg : Bool) : TLine2 × St2 :=
  (⟨tag, l, 0, .none, reg⟩, ⟨.none, st⟩)

/-- the first line of a container: the elements inside see the line without the prefix, at the start of a (sub)document -/
def enter (l : Str) (ctx : Ctx) (pfx : Nat) (reg : Bool) : TLine2 × St2 :=
  (⟨(step .top (l.drop pfx)).1, l, pfx, ctx, reg && !(l.drop pfx).isEmpty⟩, ⟨ctx, (step .top (l.drop pfx)).2⟩)

def LineTag.isCode : LineTag → Bool
  | .codeStart => true
  | .codeCont => true
  | .codeBlank => true
  | _ => false

def ScanSt.inPara : ScanSt → Bool
  | .para => true
  | _ => false

/-- a line at top level.  What `step` would call a paragraph line may open a container: a block quote (`Quote.match`,
    which also interrupts a paragraph) or a list (`List.match`; it interrupts a paragraph only with a bullet or the number
    1 and a non-empty item, `Paragraph.break_paragraph`). -/
def stepNone (st : ScanSt) (l : Str) : TLine2 × St2 :=
  match (step st l).1 with
  | .para first =>
    (match quotePrefix? l with
     | some p => enter l .quote p (quoteReg l)
     | none =>
       if startsListMarker (l.drop (leadSpaces l)) then
         (match itemStart? l with
          | some it =>
            if st.inPara && !it.interrupts then plainT (.para first) l (step st l).2 false
            else enter l (.item it.k) it.pfx (it.reg && !(step .top (l.drop it.pfx)).1.isCode)
          | none => plainT (.para first) l (step st l).2 false)
       else plainT (.para first) l (step st l).2 true)
  | tag => plainT tag l (step st l).2 true

def LineTag.isParaOrCodeStart : LineTag → Bool
  | .para _ => true
  | .codeStart => true
  | _ => false

/-- lazy continuation lines (no container prefix, inside a paragraph of the container): in **D2** when they are plain
    paragraph text -/
def lazyReg (l : Str) : Bool := decide (4 ≤ leadSpaces l) || plainLine false l

/-- a line while inside the container `ctx` (a quote or a list item) -/
def stepIn (ctx : Ctx) (st : ScanSt) (l : Str) : TLine2 × St2 :=
  match ctxPrefix? ctx l with
  | some p =>
    (⟨(step st (l.drop p)).1, l, p, ctx,
        (match ctx with | .quote => quoteReg l | _ => true) && !(l.drop p).isEmpty⟩,
      ⟨ctx, (step st (l.drop p)).2⟩)
  | none =>
    -- the line does not carry the prefix: the container ends, unless the line lazily continues a paragraph
    -- (`Paragraph.parse`: `break_paragraph(source, lazy=True)` one level up)
    if st.inPara && (stepNone .top l).1.ctx == .none && (stepNone .top l).1.tag.isParaOrCodeStart then
      (⟨.lazy, l, 0, ctx, lazyReg l⟩, ⟨ctx, st⟩)
    else stepNone .top l

def step2 (s : St2) (l : Str) : TLine2 × St2 :=
  if s.ctx = .none then stepNone s.st l else stepIn s.ctx s.st l

def tagLines2 : St2 → List Str → List TLine2
  | _, [] => []
  | s, l :: ls => (step2 s l).1 :: tagLines2 (step2 s l).2 ls

-- ---------------------------------------------------------------- assembling the blocks
def assemble2 (pos line : Nat) : List TLine2 → List MdBlock
  | [] => []
  | t :: rest =>
    (match t.tag with
     | .fenceOpen f =>
       [⟨.fenced f.lang, pos, fencedSource f.indent ((rest.takeWhile (·.tag.isFenceBody)).map TLine2.inner),
          line + pyLineCount t.text⟩]
     | .codeStart =>
       [⟨.indented, pos, codeSource ((t :: rest.takeWhile (·.tag.isCodeMore)).map TLine2.inner), line⟩]
     | _ => []) ++ assemble2 (pos + t.text.length) (line + pyLineCount t.text) rest

def tagDoc2 (doc : Str) : List TLine2 := tagLines2 ⟨.none, .top⟩ (mdLines (normaliseCrLf doc))

/-- the code blocks marko finds in the document (top level, in block quotes, in list items), in order -/
def scanBlocks2 (doc : Str) : List MdBlock := assemble2 0 1 (tagDoc2 doc)

-- ---------------------------------------------------------------- the sub-language D2
/-- a blank line inside an indented block that sits in a container: at most 4 spaces and the newline (`CodeBlock.parse`
    strips the container prefix *twice* from such a line, so more spaces are not kept the way they are at top level) -/
def containerCodeBlankOk (l : Str) : Bool :=
  decide (leadSpaces l ≤ 4) &&
    (match l.drop (leadSpaces l) with
     | [] => true
     | c :: _ => c == '\n')

def TLine2.ok (t : TLine2) : Bool :=
  t.reg && t.inner.ok &&
    (match t.tag with
     | .fenceOpen _ => !hasInnerBreak t.text
     | .codeBlank => t.ctx == .none || containerCodeBlankOk (t.text.drop t.pfx)
     | _ => true)

/-- membership in **D2** -/
def inDoc2 (doc : Str) : Bool := !doc.contains '\t' && (tagDoc2 doc).all TLine2.ok

/-- the container prefixes of the lines inside a code block of **D2**: spaces only (lines of a list item: the item's content
    offset, or fewer on a blank line; and no prefix at all), or up to 3 spaces, `>` and at most one space (block quote) -/
def isCPrefix (p : Str) : Bool :=
  p.all (· == ' ') ||
    (decide ((p.takeWhile (· == ' ')).length ≤ 3) &&
      (p.dropWhile (· == ' ') == ['>'] || p.dropWhile (· == ' ') == ['>', ' ']))

end RG
