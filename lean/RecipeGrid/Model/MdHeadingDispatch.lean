import RecipeGrid.Model.MdHeading
import RecipeGrid.Model.MarkdownDispatch
/-! Line-protocol requests served by the first-heading model (`Model/MdHeading.lean`). -/
namespace RG

def HText.toSexp : HText → Sexp
  | .plain r => Sexp.tag "plain" [Sexp.ofStr r]
  | .markup => Sexp.atom "markup"

def FirstHeading.toSexp : FirstHeading → Sexp
  | .outside => Sexp.atom "outside"
  | .noHeading => Sexp.atom "no-heading"
  | .heading level t => Sexp.tag "h" [Sexp.ofNat level, t.toSexp]

def InlClass.toSexp : InlClass → Sexp
  | .plain r => Sexp.tag "plain" [Sexp.ofStr r]
  | .markup => Sexp.atom "markup"
  | .unknown => Sexp.atom "unknown"

def dispatchMdHeading : Sexp → Option Sexp
  | .list [.atom "md-title", d] =>
    match d.asStr? with
    | some d => some (Sexp.tag "mdt" [(firstHeadingX d).toSexp, (docTitle d).toSexp])
    | none => some (Sexp.tag "bad-request" [Sexp.atom "args"])
  | .list [.atom "md-inline", t] =>
    match t.asStr? with
    | some t => some (inlineClass t).toSexp
    | none => some (Sexp.tag "bad-request" [Sexp.atom "args"])
  | .list [.atom "md-decode", t] =>
    match t.asStr? with
    | some t => some (Sexp.ofOpt Sexp.ofStr (decodeInline t))
    | none => some (Sexp.tag "bad-request" [Sexp.atom "args"])
  | .list [.atom "md-unescape", t] =>
    match t.asStr? with
    | some t => some (Sexp.ofStr (htmlUnescape t))
    | none => some (Sexp.tag "bad-request" [Sexp.atom "args"])
  | _ => none

end RG
