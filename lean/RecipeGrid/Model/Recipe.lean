import RecipeGrid.Model.Fmt
import RecipeGrid.Gen.Chars
/-! `scaled_value_string.py` and `recipe.py`: the recipe DAG with Python's value semantics.
    A `reference` embeds a full copy of the sub recipe it points at (frozen dataclasses compare by value). -/
namespace RG

def inRanges (rs : List (Nat × Nat)) (c : Char) : Bool := rs.any (fun r => r.1 ≤ c.toNat && c.toNat ≤ r.2)
/-- `str.isspace` -/
def isStripSpace (c : Char) : Bool := inRanges Gen.stripSpaceRanges c
/-- `str.lower()` of one character (context-free part; capital sigma's final form is out of the model) -/
def lowerChar (c : Char) : Str :=
  match Gen.lowerMap.find? (fun e => e.1 == c.toNat) with
  | some e => e.2.map Char.ofNat
  | none => [c]
def lowerStr (s : Str) : Str := s.flatMap lowerChar
def lstripStr (s : Str) : Str := s.dropWhile isStripSpace
def rstripStr (s : Str) : Str := (s.reverse.dropWhile isStripSpace).reverse

inductive Part where
  | text (s : Str)
  | num (n : Num)
deriving Repr, Inhabited

def Part.beq : Part → Part → Bool
  | .text a, .text b => a == b
  | .num a, .num b => a == b
  | _, _ => false
instance : BEq Part := ⟨Part.beq⟩

/-- a ScaledValueString: `normalise` of any part list -/
abbrev SVS := List Part

namespace Svs
/-- merge adjacent text parts (left to right), as the constructor's loop does -/
def merge : List Part → List Part
  | [] => []
  | .text a :: rest =>
    match merge rest with
    | .text b :: rest' => .text (a ++ b) :: rest'
    | r => .text a :: r
  | p :: rest => p :: merge rest

def normalise (ps : List Part) : SVS :=
  (merge ps).filter (fun p => match p with | .text [] => false | _ => true)

def scale (k : Num) (s : SVS) : SVS :=
  normalise (s.map fun p => match p with | .text t => .text t | .num n => .num (n.mul k))

def lower (s : SVS) : SVS :=
  normalise (s.map fun p => match p with | .text t => .text (lowerStr t) | p => p)

def lstrip (s : SVS) : SVS :=
  normalise (match s with
    | .text t :: rest => .text (lstripStr t) :: rest
    | s => s)

def mapLast (f : Part → Part) : List Part → List Part
  | [] => []
  | [p] => [f p]
  | p :: rest => p :: mapLast f rest

def rstrip (s : SVS) : SVS :=
  normalise (mapLast (fun p => match p with | .text t => .text (rstripStr t) | p => p) s)

def strip (s : SVS) : SVS := rstrip (lstrip s)

/-- `str(svs)` -/
def render (s : SVS) : Str :=
  s.flatMap fun p => match p with | .text t => t | .num n => formatNumber n

def beq (a b : SVS) : Bool := a == b

def partToSexp : Part → Sexp
  | .text t => Sexp.tag "t" [Sexp.ofStr t]
  | .num n => Sexp.tag "n" [n.toSexp]
def toSexp (s : SVS) : Sexp := Sexp.ofList partToSexp s
def partOfSexp? : Sexp → Option Part
  | .list [.atom "t", s] => s.asStr?.map Part.text
  | .list [.atom "n", n] => (Num.ofSexp? n).map Part.num
  | _ => none
def ofSexp? (x : Sexp) : Option SVS := Sexp.asList? partOfSexp? x
end Svs

structure Quantity where
  value : Num
  unit : Option Str
  spacing : Str
  prep : Str
deriving Repr, Inhabited

def Quantity.beq (a b : Quantity) : Bool :=
  a.value == b.value && a.unit == b.unit && a.spacing == b.spacing && a.prep == b.prep
instance : BEq Quantity := ⟨Quantity.beq⟩
def Quantity.scale (k : Num) (q : Quantity) : Quantity := { q with value := q.value.mul k }

inductive Amount where
  | quantity (q : Quantity)
  /-- `percentage` is stored as `false` when `value` is `none` (Python keeps `None` there) -/
  | proportion (value : Option Num) (percentage : Bool) (wording : Option Str) (prep : Str)
deriving Repr, Inhabited

def Amount.beq : Amount → Amount → Bool
  | .quantity a, .quantity b => a == b
  | .proportion v p w s, .proportion v' p' w' s' => v == v' && p == p' && w == w' && s == s'
  | _, _ => false
instance : BEq Amount := ⟨Amount.beq⟩
def Amount.scale (k : Num) : Amount → Amount
  | .quantity q => .quantity (q.scale k)
  | a => a
/-- `Proportion(1.0)`: the default amount of a reference -/
def Amount.whole : Amount := .proportion (some ⟨1, .flt⟩) false none []

inductive Tree where
  | ingredient (desc : SVS) (q : Option Quantity)
  | step (desc : SVS) (inputs : List Tree)
  | reference (sub : Tree) (idx : Nat) (amount : Amount)
  | sub (body : Tree) (names : List SVS) (showNames : Bool)
deriving Repr, Inhabited

mutual
/-- Python dataclass `==` -/
def Tree.beq : Tree → Tree → Bool
  | .ingredient d q, .ingredient d' q' => d == d' && q == q'
  | .step d i, .step d' i' => d == d' && Tree.beqList i i'
  | .reference s n a, .reference s' n' a' => Tree.beq s s' && n == n' && a == a'
  | .sub b ns sh, .sub b' ns' sh' => Tree.beq b b' && ns == ns' && sh == sh'
  | _, _ => false
def Tree.beqList : List Tree → List Tree → Bool
  | [], [] => true
  | a :: as, b :: bs => Tree.beq a b && Tree.beqList as bs
  | _, _ => false
end
instance : BEq Tree := ⟨Tree.beq⟩

mutual
/-- `node.substitute(old, new)` -/
def Tree.subst (old new : Tree) : Tree → Tree
  | t@(.ingredient ..) => if Tree.beq t old then new else t
  | t@(.step d i) => if Tree.beq t old then new else .step d (Tree.substList old new i)
  | t@(.reference s n a) => if Tree.beq t old then new else .reference (Tree.subst old new s) n a
  | t@(.sub b ns sh) => if Tree.beq t old then new else .sub (Tree.subst old new b) ns sh
def Tree.substList (old new : Tree) : List Tree → List Tree
  | [] => []
  | t :: ts => Tree.subst old new t :: Tree.substList old new ts
end

mutual
/-- `node.scale(factor)` -/
def Tree.scale (k : Num) : Tree → Tree
  | .ingredient d q => .ingredient (Svs.scale k d) (q.map (Quantity.scale k))
  | .step d i => .step (Svs.scale k d) (Tree.scaleList k i)
  | .reference s n a => .reference (Tree.scale k s) n (a.scale k)
  | .sub b ns sh => .sub (Tree.scale k b) (ns.map (Svs.scale k)) sh
def Tree.scaleList (k : Num) : List Tree → List Tree
  | [] => []
  | t :: ts => Tree.scale k t :: Tree.scaleList k ts
end

/-- one `Recipe` per block; `follows` is the list of earlier blocks -/
abbrev Block := List Tree
def scaleBlocks (k : Num) (bs : List Block) : List Block := bs.map (Tree.scaleList k)

inductive InvErr | multiOutputNonRoot | outputIndex | zeroOutput | referenceToInvalid
deriving Repr, DecidableEq, Inhabited

def Tree.numOutputs : Tree → Nat
  | .sub _ ns _ => ns.length
  | _ => 0
/-- `_assert_can_be_child_node` -/
def Tree.canBeChild : Tree → Bool
  | .sub _ ns _ => ns.length ≤ 1
  | _ => true

def mkStep (d : SVS) (inputs : List Tree) : Except InvErr Tree :=
  if inputs.all Tree.canBeChild then .ok (.step d inputs) else .error .multiOutputNonRoot
def mkSub (body : Tree) (names : List SVS) (showNames : Bool) : Except InvErr Tree :=
  if !body.canBeChild then .error .multiOutputNonRoot
  else if names.isEmpty then .error .zeroOutput
  else .ok (.sub body names showNames)
/-- `sub` must be a sub recipe (Python reads `sub_recipe.output_names`) -/
def mkReference (sub : Tree) (idx : Nat) (a : Amount) : Except InvErr Tree :=
  if idx ≥ sub.numOutputs then .error .outputIndex else .ok (.reference sub idx a)

mutual
/-- every reference met when walking a tree (including inside embedded copies, as `iter_children` does) -/
def Tree.refTargets : Tree → List Tree
  | .ingredient .. => []
  | .step _ i => Tree.refTargetsList i
  | .reference s _ _ => s :: Tree.refTargets s
  | .sub b _ _ => Tree.refTargets b
def Tree.refTargetsList : List Tree → List Tree
  | [] => []
  | t :: ts => Tree.refTargets t ++ Tree.refTargetsList ts
end

def Tree.isSub : Tree → Bool
  | .sub .. => true
  | _ => false

/-- `Recipe.__post_init__`: `prev` = sub recipe roots of earlier blocks -/
def checkBlock (prev : List Tree) : Block → Bool
  | [] => true
  | t :: ts =>
    (Tree.refTargets t).all (fun s => prev.any (Tree.beq s ·)) &&
    checkBlock (if t.isSub then t :: prev else prev) ts

def checkBlocks (prev : List Tree) : List Block → Bool
  | [] => true
  | b :: bs => checkBlock prev b && checkBlocks (prev ++ b.filter Tree.isSub) bs

def mkRecipes (bs : List Block) : Except InvErr (List Block) :=
  if checkBlocks [] bs then .ok bs else .error .referenceToInvalid

-- ---------------------------------------------------------------- sexp
def Quantity.toSexp (q : Quantity) : Sexp :=
  Sexp.tag "q" [q.value.toSexp, Sexp.ofOpt Sexp.ofStr q.unit, Sexp.ofStr q.spacing, Sexp.ofStr q.prep]
def Quantity.ofSexp? : Sexp → Option Quantity
  | .list [.atom "q", v, u, sp, p] => do
    pure ⟨← Num.ofSexp? v, ← Sexp.asOpt? Sexp.asStr? u, ← sp.asStr?, ← p.asStr?⟩
  | _ => none
def Amount.toSexp : Amount → Sexp
  | .quantity q => Sexp.tag "qty" [q.toSexp]
  | .proportion v p w s => Sexp.tag "prop" [Sexp.ofOpt Num.toSexp v, Sexp.ofBool p, Sexp.ofOpt Sexp.ofStr w, Sexp.ofStr s]
def Amount.ofSexp? : Sexp → Option Amount
  | .list [.atom "qty", q] => (Quantity.ofSexp? q).map Amount.quantity
  | .list [.atom "prop", v, p, w, s] => do
    pure (.proportion (← Sexp.asOpt? Num.ofSexp? v) (← p.asBool?) (← Sexp.asOpt? Sexp.asStr? w) (← s.asStr?))
  | _ => none

mutual
def Tree.toSexp : Tree → Sexp
  | .ingredient d q => Sexp.tag "ing" [Svs.toSexp d, Sexp.ofOpt Quantity.toSexp q]
  | .step d i => Sexp.tag "step" [Svs.toSexp d, Sexp.list (Sexp.atom "l" :: Tree.toSexpList i)]
  | .reference s n a => Sexp.tag "ref" [Tree.toSexp s, Sexp.ofNat n, a.toSexp]
  | .sub b ns sh => Sexp.tag "sub" [Tree.toSexp b, Sexp.ofList Svs.toSexp ns, Sexp.ofBool sh]
def Tree.toSexpList : List Tree → List Sexp
  | [] => []
  | t :: ts => Tree.toSexp t :: Tree.toSexpList ts
end

partial def Tree.ofSexp? : Sexp → Option Tree
  | .list [.atom "ing", d, q] => do
    pure (.ingredient (← Svs.ofSexp? d) (← Sexp.asOpt? Quantity.ofSexp? q))
  | .list [.atom "step", d, .list (.atom "l" :: xs)] => do
    pure (.step (← Svs.ofSexp? d) (← xs.mapM Tree.ofSexp?))
  | .list [.atom "ref", s, n, a] => do
    pure (.reference (← Tree.ofSexp? s) (← n.asNat?) (← Amount.ofSexp? a))
  | .list [.atom "sub", b, ns, sh] => do
    pure (.sub (← Tree.ofSexp? b) (← Sexp.asList? Svs.ofSexp? ns) (← sh.asBool?))
  | _ => none

def blocksToSexp (bs : List Block) : Sexp := Sexp.ofList (fun b => Sexp.list (Sexp.atom "l" :: Tree.toSexpList b)) bs
def blocksOfSexp? (x : Sexp) : Option (List Block) := Sexp.asList? (Sexp.asList? Tree.ofSexp?) x

end RG
