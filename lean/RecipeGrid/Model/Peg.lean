import RecipeGrid.Model.Parser
/-! Parsing expression grammars as DATA, and a generic recogniser for them with the semantics of `peggie.parser.Parser`.

    `tools/gen_model.py` (`gen_x_grammar`) writes the compiled `grammar.peg` as a value of `List (String × PExpr)` into
    `Gen/Grammar.lean` on every run.  `Model/PegGrammar.lean` runs this recogniser on that value (`pegAccepts`);
    `Props/C06c.lean` proves that the hand-written parser of `Model/Parser.lean` accepts exactly the same texts.

    What is modelled (`peggie/parser.py`):
    * `_parse_alt`: ordered choice, the position is restored before the next alternative;
    * `_parse_concat`: left to right, failure of a part fails the whole (the caller restores the position);
    * `_parse_star`: greedy, stops at the first failure of the body; a body that succeeds WITHOUT consuming raises
      `RepeatedEmptyTermError` (here: `PegErr.repeatedEmpty`);
    * `_parse_plus` = star, failing when there was no iteration;  `_parse_maybe` = `Alt(x, Empty)`;
    * `_parse_lookahead` (negative) and `_parse_positive_lookahead`: never consume;
    * `_parse_rule`: an undefined rule raises `UndefinedRuleError` (`PegErr.undefinedRule`); left recursion raises
      `LeftRecursionError` — here it exhausts the fuel (`PegErr.fuel`);
    * `_parse_regex`: the terminal is matched at the current position; the regexes themselves are not interpreted:
      each regex SOURCE STRING is looked up in a table of scanners (`Model/PegGrammar.lean`); a regex that is not in
      the table makes the result undefined (`PegErr.unknownTerminal`).
    * indentation requirements (`@=`, `@>` …) are not modelled: the translator emits `PExpr.unsupported` for them.
    The packrat cache does not change results (the recogniser is a pure function of expression and position).

    Everything is total.  Rule calls take fuel (one unit per nested rule call); the star loop takes its fuel from the
    number of characters left (every iteration consumes at least one character). -/
namespace RG

/-- a parsing expression (`peggie.parser.Expr`); the n-ary `ConcatExpr` / `AltExpr` are nested to the right
    (`PExpr.seq`, `PExpr.choice`) -/
inductive PExpr where
  /-- `EmptyExpr` -/
  | empty
  /-- `RegexExpr`, by the source of its pattern (quoted literals are the regex of the escaped literal) -/
  | term (re : String)
  /-- `RuleExpr` -/
  | rule (name : String)
  /-- `ConcatExpr((a, b))` -/
  | cat (a b : PExpr)
  /-- `AltExpr((a, b))` -/
  | alt (a b : PExpr)
  /-- `StarExpr` -/
  | star (e : PExpr)
  /-- `PlusExpr` -/
  | plus (e : PExpr)
  /-- `MaybeExpr` -/
  | maybe (e : PExpr)
  /-- `LookaheadExpr` (negative: `!e`) -/
  | notp (e : PExpr)
  /-- `PositiveLookaheadExpr` (`&e`) -/
  | andp (e : PExpr)
  /-- something the recogniser has no semantics for -/
  | unsupported (what : String)
deriving Repr, DecidableEq, Inhabited

namespace PExpr

/-- `ConcatExpr(exprs)` -/
def seq : List PExpr → PExpr
  | [] => .empty
  | [e] => e
  | e :: es => .cat e (seq es)

/-- `AltExpr(exprs)` -/
def choice : List PExpr → PExpr
  | [] => .unsupported "AltExpr without alternatives"
  | [e] => e
  | e :: es => .alt e (choice es)

/-- the regex sources occurring in an expression -/
def terminals : PExpr → List String
  | .term re => [re]
  | .cat a b | .alt a b => terminals a ++ terminals b
  | .star e | .plus e | .maybe e | .notp e | .andp e => terminals e
  | _ => []

/-- the rule names occurring in an expression -/
def ruleRefs : PExpr → List String
  | .rule n => [n]
  | .cat a b | .alt a b => ruleRefs a ++ ruleRefs b
  | .star e | .plus e | .maybe e | .notp e | .andp e => ruleRefs e
  | _ => []

/-- does the expression contain something unsupported? -/
def hasUnsupported : PExpr → Bool
  | .unsupported _ => true
  | .cat a b | .alt a b => hasUnsupported a || hasUnsupported b
  | .star e | .plus e | .maybe e | .notp e | .andp e => hasUnsupported e
  | _ => false

end PExpr

/-- the ways a run of the recogniser can be undefined (the Python code raises, or the model does not apply) -/
inductive PegErr where
  /-- the nesting of rule calls exceeded the fuel (e.g. left recursion) -/
  | fuel
  /-- a regex that is not in the table of scanners -/
  | unknownTerminal (re : String)
  /-- `UndefinedRuleError` -/
  | undefinedRule (name : String)
  /-- `RepeatedEmptyTermError` -/
  | repeatedEmpty
  | unsupported (what : String)
deriving Repr, DecidableEq, Inhabited

inductive PegRes where
  /-- matched; the position after the match -/
  | ok (stop : Nat)
  /-- not matched (`ParseFailure`) -/
  | fail
  | err (e : PegErr)
deriving Repr, DecidableEq, Inhabited

/-- `_parse_star` from position `i`, the body given as a function of the start position; `k`: iterations left -/
def pegStar (body : Nat → PegRes) : Nat → Nat → PegRes
  | 0, _ => .err .fuel
  | k + 1, i =>
    match body i with
    | .ok j => if j ≤ i then .err .repeatedEmpty else pegStar body k j
    | .fail => .ok i
    | .err e => .err e

/-- one expression from position `i`; `call name j` runs the rule `name` from `j`; `terms` is the table of scanners
    (a scanner is run on the text from a position and tells where its match ends) -/
def pegExpr (call : String → Nat → PegRes) (terms : String → Option (Parser.P Unit)) (t : Array Char) :
    PExpr → Nat → PegRes
  | .empty, i => .ok i
  | .term re, i =>
    match terms re with
    | none => .err (.unknownTerminal re)
    | some scan =>
      match scan t ⟨i, false⟩ with
      | none => .fail
      | some (_, s) => .ok s.pos
  | .rule name, i => call name i
  | .cat a b, i =>
    match pegExpr call terms t a i with
    | .ok j => pegExpr call terms t b j
    | r => r
  | .alt a b, i =>
    match pegExpr call terms t a i with
    | .fail => pegExpr call terms t b i
    | r => r
  | .star e, i => pegStar (pegExpr call terms t e) (t.size - i + 1) i
  | .plus e, i =>
    match pegExpr call terms t e i with
    | .ok j => if j ≤ i then .err .repeatedEmpty else pegStar (pegExpr call terms t e) (t.size - j + 1) j
    | r => r
  | .maybe e, i =>
    match pegExpr call terms t e i with
    | .fail => .ok i
    | r => r
  | .notp e, i =>
    match pegExpr call terms t e i with
    | .ok _ => .fail
    | .fail => .ok i
    | r => r
  | .andp e, i =>
    match pegExpr call terms t e i with
    | .ok _ => .ok i
    | r => r
  | .unsupported what, _ => .err (.unsupported what)

/-- the rule `name` from position `i` (`_parse_rule`); `fuel` bounds the nesting of rule calls -/
def pegRun (rules : List (String × PExpr)) (terms : String → Option (Parser.P Unit)) (t : Array Char) :
    Nat → String → Nat → PegRes
  | 0, _, _ => .err .fuel
  | fuel + 1, name, i =>
    match rules.lookup name with
    | none => .err (.undefinedRule name)
    | some body => pegExpr (pegRun rules terms t fuel) terms t body i

/-- an expression (not necessarily a rule) from position `i` -/
def pegRunExpr (rules : List (String × PExpr)) (terms : String → Option (Parser.P Unit)) (fuel : Nat) (e : PExpr)
    (t : Array Char) (i : Nat) : PegRes :=
  pegExpr (pegRun rules terms t fuel) terms t e i

def PegErr.toSexp : PegErr → Sexp
  | .fuel => Sexp.tag "err" [Sexp.atom "fuel"]
  | .unknownTerminal re => Sexp.tag "err" [Sexp.atom "unknown-terminal", Sexp.ofStr re.toList]
  | .undefinedRule n => Sexp.tag "err" [Sexp.atom "undefined-rule", Sexp.ofStr n.toList]
  | .repeatedEmpty => Sexp.tag "err" [Sexp.atom "repeated-empty"]
  | .unsupported w => Sexp.tag "err" [Sexp.atom "unsupported", Sexp.ofStr w.toList]

def PegRes.toSexp : PegRes → Sexp
  | .ok j => Sexp.tag "ok" [Sexp.ofNat j]
  | .fail => Sexp.atom "fail"
  | .err e => e.toSexp

end RG
