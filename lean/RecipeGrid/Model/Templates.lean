import RecipeGrid.Model.Num
import RecipeGrid.Gen.Templates
/-! The Jinja templates of the site generator as far as C10 is concerned: which expressions they print and how.
    `Gen.templateOutputs` is regenerated from the templates by Jinja's own parser; this file says which of the printed values hold
    HTML produced by the renderer (and must therefore be marked `safe`) and models the escaping every other value receives. -/
namespace RG

/-- template variables that hold HTML produced by marko / the recipe renderer (already escaped piece by piece there) -/
def htmlTemplateVariables : List String := ["description", "welcome_message", "body"]

/-- the template's name ends in `.html` (what `select_autoescape(["html", "xml"])` looks at) -/
def isHtmlTemplate (name : String) : Bool :=
  match name.toList.reverse with
  | 'l' :: 'm' :: 't' :: 'h' :: '.' :: _ => true
  | _ => false

/-- a printed expression is handled correctly: HTML bodies are marked `safe` and nothing else; every other value - titles, names,
    labels, hrefs, counts - goes through auto-escaping unfiltered -/
def templateOutputOk (o : String × String × List String) : Bool :=
  -- only HTML templates (auto-escaped by their extension) print anything: a style sheet is included inside `<style>`, where nothing is escaped
  isHtmlTemplate o.1 &&
  (if htmlTemplateVariables.contains o.2.1 then o.2.2 == ["safe"] else o.2.2 == [])

/-- `markupsafe.escape`, the escaping of Jinja's autoescape -/
def jinjaEscapeChar : Char → Str
  | '&' => "&amp;".toList
  | '<' => "&lt;".toList
  | '>' => "&gt;".toList
  | '"' => "&#34;".toList
  | '\'' => "&#39;".toList
  | c => [c]
def jinjaEscape (s : Str) : Str := s.flatMap jinjaEscapeChar

end RG
