import RecipeGrid.Model.Templates
import RecipeGrid.Model.Sexp
/-! Line-protocol request served by the template model: `(jinja-escape <text>)`. -/
namespace RG

def dispatchTemplates : Sexp → Option Sexp
  | .list [.atom "jinja-escape", t] =>
    match t.asStr? with
    | some t => some (Sexp.ofStr (jinjaEscape t))
    | none => some (Sexp.tag "bad-request" [Sexp.atom "args"])
  | _ => none

end RG
