import RecipeGrid.Model.Enumerate
import RecipeGrid.Model.Sexp
/-! Line-protocol request served by the directory-enumeration model: `(enumerate (l (e <name> <isDir>) ...))`. -/
namespace RG

def dispatchEnumerate : Sexp → Option Sexp
  | .list [.atom "enumerate", es] =>
    match Sexp.asList? (fun x => match x with
        | .list [.atom "e", n, d] => do pure (DirEntry.mk (← n.asStr?) (← d.asBool?))
        | _ => none) es with
    | some es =>
      some (match enumerateDir es with
        | .ok l => Sexp.tag "ok" [Sexp.ofOpt Sexp.ofStr l.readme, Sexp.ofList Sexp.ofStr l.subdirs, Sexp.ofList Sexp.ofStr l.recipes]
        | .multipleReadme a b => Sexp.tag "multiple-readme" [Sexp.ofStr a, Sexp.ofStr b])
    | none => some (Sexp.tag "bad-request" [Sexp.atom "args"])
  | _ => none

end RG
