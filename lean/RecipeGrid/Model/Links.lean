import RecipeGrid.Model.Href
/-! The decision logic of `html_postprocessing.resolve_local_links` / `embed_local_links_as_data_urls` after URL
    splitting and path canonicalisation (both done by the Python standard library and the file system, which are
    parameters here): which links are left alone, which become page links, which become assets, which are refused. -/
namespace RG

inductive LinkOutcome where
  /-- external URL or in-page anchor: returned unchanged -/
  | untouched
  /-- a page of the site (relative href written into the document) -/
  | page (href : Str)
  /-- a local file copied to the assets area: (website path of the copy, relative href) -/
  | asset (websitePath : Str) (href : Str)
  | externalFileError
  | nonExistentFileError
deriving Repr, Inhabited

def isPrefixParts : List Str → List Str → Bool
  | [], _ => true
  | _, [] => false
  | a :: as, b :: bs => a == b && isPrefixParts as bs

/-- `scheme`, `netloc`, `path`: the parts `urlsplit` returned; `canon`: the parts of the resolved file system path
    (below the file system root); `root`: the parts of the resolved source root; `isFile`: the resolved path is an
    existing regular file; `lookup`: the entry of `source_to_page_paths` for the resolved path, if any -/
def rewriteDecision (scheme netloc path : Str) (canon root : List Str) (isFile : Bool)
    (lookup : Option (Str × Bool)) (fromPath assetsDir : Str) : LinkOutcome :=
  if !scheme.isEmpty || !netloc.isEmpty || path.isEmpty then .untouched
  else
    match lookup with
    | some (websitePath, scalable) =>
      let target :=
        if isPrefixOfList "/serves".toList fromPath && scalable && (websitePath.filter (· == '/')).length > 1 then
          joinSlash ((splitSlash fromPath).take 2 ++ (splitSlash websitePath).drop 2)
        else websitePath
      .page (hrefRelative fromPath target)
    | none =>
      if !isPrefixParts root canon then .externalFileError
      else if !isFile then .nonExistentFileError
      else
        let websitePath := assetsDir ++ '/' :: joinSlash (canon.drop root.length)
        .asset websitePath (hrefRelative fromPath websitePath)
where
  isPrefixOfList : Str → Str → Bool
    | [], _ => true
    | _, [] => false
    | a :: as, b :: bs => a == b && isPrefixOfList as bs

/-- the standalone page's embedding stage: same containment rule, no page lookup -/
def embedDecision (scheme netloc path : Str) (canon root : List Str) (isFile : Bool) : LinkOutcome :=
  if !scheme.isEmpty || !netloc.isEmpty || path.isEmpty then .untouched
  else if !isPrefixParts root canon then .externalFileError
  else if !isFile then .nonExistentFileError
  else .asset [] []

def LinkOutcome.toSexp : LinkOutcome → Sexp
  | .untouched => .atom "untouched"
  | .page h => Sexp.tag "page" [Sexp.ofStr h]
  | .asset w h => Sexp.tag "asset" [Sexp.ofStr w, Sexp.ofStr h]
  | .externalFileError => .atom "LinkToExternalFileError"
  | .nonExistentFileError => .atom "LinkToNonExistentFileError"

end RG
