import RecipeGrid.Model.BraceExpr
/-! Writing a scaled value string in the syntax of the `{…}` expressions (specification of what an author writes;
    `Props/C13c.lean` proves that it is read back). Executable, so that the correspondence can feed what it
    writes to the real `ScaledValueExpression`. -/
namespace RG.Brace

/-! ## the writer (specification) -/

/-- characters of text that must be written with a backslash: digits (they would be read as numbers),
    braces and the backslash itself -/
def needsEscape (c : Char) : Bool := isDigit c || c == '{' || c == '}' || c == '\\'

def printChar (c : Char) : Str := if needsEscape c then ['\\', c] else [c]

def printText (t : Str) : Str := t.flatMap printChar

/-- a `Fraction`: `n/d`, or `i n/d` when it is improper (and not a whole number) -/
def printFrac (q : Rat) : Str :=
  if q.den ≠ 1 ∧ q.num.toNat > q.den then
    natDigits (q.num.toNat / q.den) ++ ' ' :: (natDigits (q.num.toNat % q.den) ++ '/' :: natDigits q.den)
  else natDigits q.num.toNat ++ '/' :: natDigits q.den

/-- number of decimals that writes a double exactly (its denominator is `2^e`) -/
def floatPlaces (q : Rat) : Nat := max 1 (Nat.log2 q.den)

/-- a `float`: its exact decimal expansion, with a point and at least one decimal -/
def printFloat (q : Rat) : Str :=
  natDigits (q.num.toNat * 10 ^ floatPlaces q / q.den / 10 ^ floatPlaces q) ++
    '.' :: (padLeftZeros (floatPlaces q) (natDigits (q.num.toNat * 10 ^ floatPlaces q / q.den % 10 ^ floatPlaces q)))

def printNum (n : Num) : Str :=
  match n.kind with
  | .int => natDigits n.val.num.toNat
  | .frac => printFrac n.val
  | .flt => printFloat n.val

def printPart : Part → Str
  | .text t => printText t
  | .num n => printNum n

/-- a scaled value string in the syntax of the `{…}` expressions -/
def printBrace (s : SVS) : Str := s.flatMap printPart

/-- text that may follow an integer: it does not start with ".", and its first character other than a blank
    exists and is not "/" -/
def textFollowsInt (t : Str) : Bool :=
  t.head? != some '.' && (match t.dropWhile isHsp with | [] => false | c :: _ => c != '/')

/-- numbers are separated by text, and the text after an integer cannot be taken for part of a number -/
def sepOK : SVS → Bool
  | [] => true
  | .text _ :: rest => sepOK rest
  | [.num _] => true
  | .num _ :: .num _ :: _ => false
  | .num n :: .text t :: rest => (n.kind != .int || textFollowsInt t) && sepOK rest

end RG.Brace
