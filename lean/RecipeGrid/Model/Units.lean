import RecipeGrid.Model.Recipe
import RecipeGrid.Gen.Units
/-! `units.py`: the unit table (generated) and the conversion walk; `Quantity.has_equal_value_to`. -/
namespace RG

/-- the `RelatedUnitSet` that knows `name` (exact, already lower-cased by the caller) -/
def findUnitSet (name : Str) : Option (List Gen.UnitDef) :=
  (Gen.unitSets.find? (fun ks => ks.2.any (fun u => u.names.any (·.toList == name)))).map (·.2)

/-- index of the unit carrying `name` within its set -/
def unitIndex (set : List Gen.UnitDef) (name : Str) : Option Nat :=
  set.findIdx? (fun u => u.names.any (·.toList == name))

def unitPrimaryName (u : Gen.UnitDef) : Str := (u.names.headD "").toList

/-- children of node `i` in definition order with their scale -/
def unitChildren (set : List Gen.UnitDef) (i : Nat) : List (Num × Nat) :=
  (set.zipIdx.filterMap fun (u, j) =>
    match u.defn with
    | some (q, parent) => if unitIndex set parent.toList == some i then some (q, j) else none
    | none => none)

/-- `iter_conversions_from`: breadth-first walk over the definition tree.
    `spec = true` uses the decimals as written (exact ℚ); otherwise Python's arithmetic. -/
def conversionsFromAux (set : List Gen.UnitDef) (spec : Bool) :
    Nat → List (Num × Nat) → List Nat → List (Num × Str)
  | 0, _, _ => []
  | _, [], _ => []
  | fuel + 1, (scale, i) :: queue, visited =>
    if visited.contains i then conversionsFromAux set spec fuel queue visited
    else
      match set[i]? with
      | none => conversionsFromAux set spec fuel queue visited
      | some u =>
        let mulN (a b : Num) : Num := if spec then ⟨a.val * b.val, .frac⟩ else a.mul b
        let divN (a b : Num) : Num := if spec then ⟨a.val / b.val, .frac⟩ else (a.div b).getD a
        let w (q : Num) (u' : Gen.UnitDef) : Num := if spec then ⟨u'.written.getD q.val, .frac⟩ else q
        let up : List (Num × Nat) :=
          match u.defn with
          | some (q, parent) =>
            match unitIndex set parent.toList with
            | some p => [(mulN scale (w q u), p)]
            | none => []
          | none => []
        let down := (unitChildren set i).map fun (q, j) => (divN scale (w q (set[j]?.getD u)), j)
        (scale, unitPrimaryName u) :: conversionsFromAux set spec fuel (queue ++ up ++ down) (i :: visited)

def conversionsFrom (spec : Bool) (name : Str) : Option (List (Num × Str)) := do
  let set ← findUnitSet name
  let i ← unitIndex set name
  let n := set.length
  pure (conversionsFromAux set spec (n * n + n + 2) [(⟨1, .frac⟩, i)] [])

/-- `UNIT_SYSTEM.convert_between(from, to)`; `none` is `KeyError` -/
def convertBetween (spec : Bool) (frm to : Str) : Option Num := do
  let set ← findUnitSet frm
  let j ← unitIndex set to
  let target := unitPrimaryName (← set[j]?)
  let convs ← conversionsFrom spec frm
  (convs.find? (fun c => c.2 == target)).map (·.1)

def relTolDefault : Rat := toDouble (mkRat 1 1000000000)

/-- `Quantity.has_equal_value_to` -/
def Quantity.hasEqualValueTo (self other : Quantity) : Bool :=
  let go (scale : Num) : Bool :=
    isclose self.value.toFlt (other.value.mul scale).toFlt relTolDefault
  match self.unit, other.unit with
  | none, none => go ⟨1, .int⟩
  | none, some _ => false
  | some _, none => false
  | some su, some ou =>
    match convertBetween false (lowerStr ou) (lowerStr su) with
    | some sc => go sc
    | none => if lowerStr su == lowerStr ou then go ⟨1, .int⟩ else false

/-- the alternative-unit list of `render_quantity`: sorted by (scale ≠ 1, is float, name) -/
def altUnits (unitLower : Str) : Option (List (Num × Str)) := do
  let convs ← conversionsFrom false unitLower
  let key (c : Num × Str) : (Nat × Nat × Str) := (if c.1.val == 1 then 0 else 1, if c.1.isFlt then 1 else 0, c.2)
  let lt (a b : Num × Str) : Bool :=
    let ka := key a; let kb := key b
    if ka.1 != kb.1 then ka.1 < kb.1
    else if ka.2.1 != kb.2.1 then ka.2.1 < kb.2.1
    else (String.ofList ka.2.2) < (String.ofList kb.2.2)
  pure (insertionSort (fun a b => !lt b a) convs)

end RG
