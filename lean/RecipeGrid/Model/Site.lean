import RecipeGrid.Model.Href
import RecipeGrid.Model.Fmt
/-! The page hierarchy of `static_site/website.py` (+ `recipe_directory.dirname_to_title`) over an abstract
    source tree: which pages exist, their paths and titles, and every *generated* link they carry. -/
namespace RG

structure RecipeFile where
  file : Str
  title : Str
  servings : Option Nat
deriving Repr, Inhabited

/-- a source directory as `enumerate_recipe_directory` lists it (entries in listing order) -/
inductive Dir where
  | mk (name : Str) (readmeTitle : Option Str) (recipes : List RecipeFile) (subdirs : List Dir)
deriving Repr, Inhabited

def Dir.name : Dir → Str | .mk n _ _ _ => n
def Dir.readmeTitle : Dir → Option Str | .mk _ r _ _ => r
def Dir.recipes : Dir → List RecipeFile | .mk _ _ r _ => r
def Dir.subdirs : Dir → List Dir | .mk _ _ _ s => s

def isUpperAscii (c : Char) : Bool := 'A' ≤ c && c ≤ 'Z'
def isLowerAscii (c : Char) : Bool := 'a' ≤ c && c ≤ 'z'
def isDigitAscii (c : Char) : Bool := '0' ≤ c && c ≤ '9'
def toLowerAscii (c : Char) : Char := if isUpperAscii c then Char.ofNat (c.toNat + 32) else c
def toUpperAscii (c : Char) : Char := if isLowerAscii c then Char.ofNat (c.toNat - 32) else c

/-- `re.sub(r"[0-9]+", " \g<0> ", s)`; `inRun`: the previous character was a digit -/
def spaceDigitsAux (inRun : Bool) : Str → Str
  | [] => if inRun then [' '] else []
  | c :: rest =>
    if isDigitAscii c then (if inRun then c :: spaceDigitsAux true rest else ' ' :: c :: spaceDigitsAux true rest)
    else (if inRun then ' ' :: c :: spaceDigitsAux false rest else c :: spaceDigitsAux false rest)
def spaceDigits (s : Str) : Str := spaceDigitsAux false s

/-- `re.sub(r"([^A-Z])([A-Z])", r"\1 \2", s)`: non-overlapping, left to right -/
def splitCamel : Str → Str
  | a :: b :: rest => if !isUpperAscii a && isUpperAscii b then a :: ' ' :: b :: splitCamel rest else a :: splitCamel (b :: rest)
  | s => s

/-- `re.sub(r"[^a-zA-Z0-9]+", " ", s)`; `inRun`: the previous character was not alphanumeric -/
def collapsePunctAux (inRun : Bool) : Str → Str
  | [] => []
  | c :: rest =>
    if isUpperAscii c || isLowerAscii c || isDigitAscii c then c :: collapsePunctAux false rest
    else if inRun then collapsePunctAux true rest else ' ' :: collapsePunctAux true rest
def collapsePunct (s : Str) : Str := collapsePunctAux false s

def wordsOf (s : Str) : List Str := (s.splitOn ' ').filter (· ≠ [])

/-- `dirname_to_title` -/
def dirnameToTitle (name : Str) : Str :=
  let ws := wordsOf (collapsePunct (splitCamel (spaceDigits name)))
  [' '].intercalate (ws.zipIdx.map fun (w, i) =>
    if i == 0 then (match w with | c :: r => toUpperAscii c :: r.map toLowerAscii | [] => []) else w.map toLowerAscii)

def Dir.title (d : Dir) (rootName : Option Str := none) : Str :=
  match d.readmeTitle with
  | some t => t
  | none => dirnameToTitle (rootName.getD d.name)

/-- Python `<=` on str -/
def strLe : Str → Str → Bool
  | [], _ => true
  | _ :: _, [] => false
  | a :: as, b :: bs => if a.toNat < b.toNat then true else if a.toNat > b.toNat then false else strLe as bs

structure Page where
  path : Str
  title : Str
  /-- every generated link (breadcrumbs, stylesheet, lists, serving menu), as written in the page -/
  links : List Str
deriving Repr, Inhabited

def cssPath : Str := "/css/style.css".toList

/-- `x.rpartition(".")[0]` -/
def stemOf (file : Str) : Str :=
  match (file.reverse.dropWhile (· != '.')) with
  | [] => []
  | _ :: r => r.reverse

def servesSeg (n : Nat) : Str := "serves".toList ++ natDigits n
def scaleRoot (servings : Option Nat) : Str := match servings with | some n => servesSeg n | none => "categories".toList

/-- directory part of a category page path for the given scale root: `/<root>/<dirs...>` -/
def catDir (servings : Option Nat) (dirs : List Str) : Str := '/' :: joinSlash (scaleRoot servings :: dirs)
def catPath (servings : Option Nat) (dirs : List Str) : Str := catDir servings dirs ++ "/index.html".toList
def recipePath (servings : Option Nat) (dirs : List Str) (file : Str) : Str := catDir servings dirs ++ '/' :: stemOf file ++ ".html".toList

def breadcrumbs (chain : List (Str × Str)) (frm : Str) : List Str := chain.map fun (_, p) => hrefRelative frm p

inductive SiteErr | maxServingsTooLow (needed : Nat)
deriving Repr, Inhabited

mutual
/-- pages of one category hierarchy (`CategoryPage.from_directory` + `iter_all_pages`), returns (pages, this page's (title, path)) -/
def categoryPages (M : Nat) (servings : Option Nat) (chain : List (Str × Str)) (dirs : List Str) (isRoot : Bool) : Dir → List Page × (Str × Str)
  | .mk name readme recipes subdirs =>
    let d := Dir.mk name readme recipes subdirs
    let title : Str := if isRoot then (match servings with | some n => "Recipes for ".toList ++ natDigits n | none => "Categories".toList) else d.title
    let dirs := if isRoot then [] else dirs ++ [name]
    let path := catPath servings dirs
    let chain := chain ++ [(title, path)]
    let (subPages, subs) := subcategoryPages M servings chain dirs subdirs
    -- sorted by (title, directory name)
    let subs := insertionSort (fun (a b : Str × Str × Str) => if a.1 == b.1 then strLe a.2.2 b.2.2 else strLe a.1 b.1) subs
    let recs : List (Str × Str × List Page × Str) := recipes.map fun r =>
      match r.servings with
      | none =>
        let rp := recipePath none dirs r.file
        -- the single unscaled page hangs off the unscaled category; it is emitted with the scaled hierarchies (same content each time)
        (r.title, rp, [], r.file)
      | some native =>
        match servings with
        | some n =>
          let rp := recipePath (some n) dirs r.file
          let rchain := chain ++ [(r.title, rp)]
          let menu := ['#'] :: (List.range M).map fun m => hrefRelative rp (recipePath (some (m + 1)) dirs r.file)
          let rescaled := if n != native then [hrefRelative rp (recipePath (some native) dirs r.file)] else []
          (r.title, rp, [Page.mk rp r.title (breadcrumbs rchain rp ++ [hrefRelative rp cssPath] ++ menu ++ rescaled)], r.file)
        | none => (r.title, recipePath (some native) dirs r.file, [], r.file)
    let unscaledRecipePages : List Page :=
      if servings.isNone then
        recipes.filterMap fun r => if r.servings.isNone then
          let rp := recipePath none dirs r.file
          some (Page.mk rp r.title (breadcrumbs (chain ++ [(r.title, rp)]) rp ++ [hrefRelative rp cssPath]))
        else none
      else []
    -- sorted by (title, file name)
    let recsSorted := insertionSort (fun (a b : Str × Str × List Page × Str) => if a.1 == b.1 then strLe a.2.2.2 b.2.2.2 else strLe a.1 b.1) recs
    let me : Page := Page.mk path title
      (breadcrumbs chain path ++ [hrefRelative path cssPath] ++ subs.map (fun s => hrefRelative path s.2.1) ++ recsSorted.map (fun r => hrefRelative path r.2.1))
    (me :: subPages ++ recs.flatMap (·.2.2.1) ++ unscaledRecipePages, (title, path))
def subcategoryPages (M : Nat) (servings : Option Nat) (chain : List (Str × Str)) (dirs : List Str) : List Dir → List Page × List (Str × Str × Str)
  | [] => ([], [])
  | d :: ds =>
    let (p, tp) := categoryPages M servings chain dirs false d
    let (ps, tps) := subcategoryPages M servings chain dirs ds
    (p ++ ps, (tp.1, tp.2, d.name) :: tps)
end

mutual
def maxNativeServings : Dir → Nat
  | .mk _ _ recipes subdirs => max ((recipes.map fun r => r.servings.getD 0).foldl max 0) (maxNativeServingsList subdirs)
def maxNativeServingsList : List Dir → Nat
  | [] => 0
  | d :: ds => max (maxNativeServings d) (maxNativeServingsList ds)
end

/-- the whole site: home page, `servesN` hierarchies for 1..M, the `categories` hierarchy -/
def sitePages (root : Dir) (rootName : Str) (M : Nat) : Except SiteErr (List Page) :=
  if maxNativeServings root > M then .error (.maxServingsTooLow (maxNativeServings root))
  else
    let siteTitle := root.title (some rootName)
    let home : Str := "/index.html".toList
    let chain := [(siteTitle, home)]
    let homePage : Page := Page.mk home siteTitle
      ([hrefRelative home cssPath] ++ (List.range M).map (fun m => hrefRelative home (catPath (some (m + 1)) [])) ++ [hrefRelative home (catPath none [])])
    let scaled := (List.range M).flatMap fun m => (categoryPages M (some (m + 1)) chain [] true root).1
    let unscaled := (categoryPages M none chain [] true root).1
    .ok (homePage :: scaled ++ unscaled)

/-- the factor a recipe page is rendered with: `recipe.render(Fraction(servings, recipe.servings) if servings is not None else 1)`
    (`RecipePage.from_recipe_source`) and likewise `generate_standalone_page(servings=…)`; `none` is the `ZeroDivisionError` raised for a
    recipe whose title states 0 servings (outside the quantifier of C15: "all stated serving counts >= 1") -/
def pageScale (servings : Option Nat) (native : Option Nat) : Option Num :=
  match native, servings with
  | some nat, some n => if nat = 0 then none else some ⟨mkRat n nat, .frac⟩
  | _, _ => some ⟨1, .int⟩

end RG
