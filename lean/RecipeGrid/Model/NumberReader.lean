import RecipeGrid.Model.Num
import RecipeGrid.Model.Chars
/-! `recipe_grid/number_parser.py`: `number(text)`, the reader behind `recipe-grid --scale`.

    ```
    fraction_pattern = r"((?P<integer>[0-9]+)[ \t]+)?(?P<numerator>[0-9]+)[ \t]*/[ \t]*(?P<denominator>[0-9]+)"
    match = fraction_pattern.fullmatch(value)
    if match: return int(integer or 0) + Fraction(int(numerator), int(denominator))
    else: try: return int(value)  except ValueError: return float(value)
    ```

    Python's `int()` / `float()` accept much more than the display language (signs, underscores,
    exponents, `inf`/`nan`, every Unicode space and digit).  The model makes a claim only on the
    language **L** (`inL`): texts of at most `maxLen` characters made of ASCII digits, `.`, `/`,
    blank and tab.  On every other text it answers `outside` (no claim).  On **L**:

    * `fullmatch` succeeds exactly on `D+ H+ D+ H* / H* D+` and `D+ H* / H* D+` (D = digit, H = blank
      or tab); the groups are then unique.  The result is always a `Fraction` (`int + Fraction`), and
      a zero denominator raises `ZeroDivisionError` (not the documented `ValueError`).
    * otherwise `int(text)` strips blanks/tabs on both sides and accepts a non-empty digit run;
    * otherwise `float(text)` strips blanks/tabs on both sides and accepts `D+.D*` and `.D+`
      (a lone digit run cannot get here); the value is the nearest double (`toDouble`), which for
      at most `maxLen` characters is a normal number or zero (no overflow to `inf`, no subnormals);
    * everything else is a `ValueError`. -/
namespace RG

inductive ReaderResult where
  | value (n : Num)
  /-- `ValueError` (from `float()`) -/
  | valueError
  /-- `ZeroDivisionError` from `Fraction(n, 0)` -/
  | zeroDivision
  /-- the text is not in the modelled language **L**: no claim -/
  | outside
deriving Repr, Inhabited

namespace NumberReader

/-- longest text on which the model makes a claim (far below CPython's 4300-digit limit of `int()`,
    and short enough that `float()` neither overflows nor reaches the subnormal range) -/
def maxLen : Nat := 300

/-- the alphabet of **L** -/
def isLChar (c : Char) : Bool := isDigit c || isHsp c || c == '.' || c == '/'

/-- the modelled language -/
def inL (s : Str) : Bool := decide (s.length ≤ maxLen) && s.all isLChar

/-- `int()` of a run of ASCII digits -/
def readNat (ds : Str) : Nat := ds.foldl (fun n d => 10 * n + (d.toNat - 48)) 0

/-- `[0-9]+[ \t]*/[ \t]*[0-9]+` against the whole text: the numerator and the denominator -/
def matchFrac2 (s : Str) : Option (Str × Str) :=
  let p := s.takeWhile isDigit
  match (s.dropWhile isDigit).dropWhile isHsp with
  | '/' :: r =>
    let q := r.dropWhile isHsp
    if !p.isEmpty && !q.isEmpty && q.all isDigit then some (p, q) else none
  | _ => none

/-- `[0-9]+[ \t]+[0-9]+[ \t]*/[ \t]*[0-9]+` against the whole text -/
def matchFrac3 (s : Str) : Option (Str × Str × Str) :=
  let w := s.takeWhile isDigit
  let r := s.dropWhile isDigit
  if !w.isEmpty && !(r.takeWhile isHsp).isEmpty then
    match matchFrac2 (r.dropWhile isHsp) with
    | some (p, q) => some (w, p, q)
    | none => none
  else none

/-- `integer + Fraction(numerator, denominator)` -/
def fractionValue (w p q : Str) : ReaderResult :=
  if readNat q = 0 then .zeroDivision
  else .value ⟨((readNat w : Nat) : Rat) + mkRat (readNat p : Nat) (readNat q), .frac⟩

/-- `str.strip()` as far as **L** is concerned -/
def stripHsp (s : Str) : Str := ((s.dropWhile isHsp).reverse.dropWhile isHsp).reverse

/-- `try: int(text) except ValueError: float(text)` on a text of **L** -/
def readPlain (s : Str) : ReaderResult :=
  let u := stripHsp s
  if !u.isEmpty && u.all isDigit then .value ⟨((readNat u : Nat) : Rat), .int⟩
  else
    let whole := u.takeWhile isDigit
    match u.dropWhile isDigit with
    | '.' :: fr =>
      if fr.all isDigit && !(whole.isEmpty && fr.isEmpty) then
        .value ⟨toDouble (mkRat (readNat (whole ++ fr) : Nat) (10 ^ fr.length)), .flt⟩
      else .valueError
    | _ => .valueError

end NumberReader

open NumberReader in
/-- `number_parser.number` -/
def numberReader (s : Str) : ReaderResult :=
  if !inL s then .outside
  else match matchFrac3 s with
    | some (w, p, q) => fractionValue w p q
    | none =>
      match matchFrac2 s with
      | some (p, q) => fractionValue [] p q
      | none => readPlain s

def ReaderResult.toSexp : ReaderResult → Sexp
  | .value n => Sexp.tag "value" [n.toSexp]
  | .valueError => .atom "ValueError"
  | .zeroDivision => .atom "ZeroDivisionError"
  | .outside => .atom "outside"

end RG
