import RecipeGrid.Model.Parser
import RecipeGrid.Model.Units
import RecipeGrid.Model.Text
/-! `compiler.py`: statement-by-statement compilation with the ordered named-outputs table,
    then the inlining pass exactly as written, then the `Recipe` validity check. -/
namespace RG

inductive CompileResult where
  | ok (blocks : List Block)
  /-- `peggie.ParseError` in block `block` (0-based) -/
  | syntaxError (block : Nat)
  /-- `NameRedefinedError` at source offset `off` of block `block` -/
  | redefined (block off : Nat)
  /-- `ProportionGivenForIngredientError` -/
  | proportion (block off : Nat)
  /-- `ZeroDivisionError` from a zero denominator (undocumented) -/
  | zeroDivision (block : Nat)
  /-- any other exception escaping `compile` (undocumented) -/
  | internal (why : String)
deriving Inhabited

/-- `compile_string` -/
def compileString (s : AString) : SVS :=
  Svs.normalise (s.map fun p => match p with | .sub _ t => .text t | .num _ n => .num n)

/-- `normalise_output_name` -/
def normaliseName (n : SVS) : SVS := Svs.lower (Svs.strip n)

def inferOutputName : Tree → Option SVS
  | .ingredient d _ => some d
  | .step _ [i] => inferOutputName i
  | _ => none

def inferQuantity : Tree → Option Quantity
  | .ingredient _ q => q
  | .step _ [i] => inferQuantity i
  | .sub b [_] _ => inferQuantity b
  | _ => none

structure NamedOutput where
  key : SVS
  name : SVS
  defBlock : Nat
  sub : Tree
  idx : Nat
  refs : List (Tree × Nat)
  unwrap : Bool
deriving Inhabited

structure CState where
  outputs : List NamedOutput := []
deriving Inhabited

def CState.find? (st : CState) (key : SVS) : Option NamedOutput := st.outputs.find? (·.key == key)

def compileQuantity (value : Num) (unit : Option AString) (spacing prep : Str) : Quantity :=
  { value := value, unit := unit.map (fun u => Svs.render (compileString u)), spacing := spacing, prep := prep }

def compileAmount : Option AAmount → Amount
  | none => Amount.whole
  | some (.qty _ v u sp p) => .quantity (compileQuantity v u sp p)
  | some (.prop _ v pct w p) => .proportion v (if v.isSome then pct else false) (if v.isNone && w.isNone then some "remaining".toList else w) p

inductive StmtErr | redefined (off : Nat) | proportion (off : Nat) | internal (why : String)

def AString.offset : AString → Nat
  | .sub o _ :: _ => o
  | .num o _ :: _ => o
  | [] => 0

def AAmount.offset : AAmount → Nat
  | .qty o .. => o
  | .prop o .. => o

mutual
/-- `_compile_expr`: returns the tree and the table with the new reference recorded -/
def compileExpr (block : Nat) (st : CState) : AExpr → Except StmtErr (Tree × CState)
  | .step name inputs => do
    let (ts, st') ← compileExprs block st inputs
    pure (.step (compileString name) ts, st')
  | .ref name amount =>
    let n := compileString name
    let key := normaliseName n
    match st.find? key with
    | some out =>
      let r := Tree.reference out.sub out.idx (compileAmount amount)
      .ok (r, { st with outputs := st.outputs.map fun o => if o.key == key then { o with refs := o.refs ++ [(r, block)] } else o })
    | none =>
      match amount with
      | some (.prop off ..) => .error (.proportion off)
      | some (.qty _ v u sp p) => .ok (.ingredient n (some (compileQuantity v u sp p)), st)
      | none => .ok (.ingredient n none, st)
def compileExprs (block : Nat) (st : CState) : List AExpr → Except StmtErr (List Tree × CState)
  | [] => .ok ([], st)
  | e :: es => do
    let (t, st1) ← compileExpr block st e
    let (ts, st2) ← compileExprs block st1 es
    pure (t :: ts, st2)
end

/-- register the output names of one statement, left to right -/
def registerOutputs (block : Nat) (sub : Tree) (unwrap : Bool) (asts : Option (List AString)) :
    CState → Nat → List SVS → Except StmtErr CState
  | st, _, [] => .ok st
  | st, i, n :: ns =>
    let key := normaliseName n
    if (st.find? key).isSome then
      match asts with
      | some l => match l[i]? with
        | some a => .error (.redefined a.offset)
        | none => .error (.internal "IndexError")
      | none => .error (.internal "AssertionError")
    else
      registerOutputs block sub unwrap asts
        { st with outputs := st.outputs ++ [{ key := key, name := n, defBlock := block, sub := sub, idx := i, refs := [], unwrap := unwrap }] }
        (i + 1) ns

/-- `_compile_stmt` -/
def compileStmt (block : Nat) (st : CState) (s : AStmt) : Except StmtErr (Tree × CState) := do
  let (tree, st) ← compileExpr block st s.expr
  let (names, inferred) : List SVS × Bool :=
    match s.outputs with
    | some (o :: os) => ((o :: os).map compileString, false)
    | _ => match inferOutputName tree with
      | some n => ([n], true)
      | none => ([], false)
  if names.isEmpty then pure (tree, st)
  else
    let sub := Tree.sub tree names (!inferred)
    let st ← registerOutputs block sub (!s.named) s.outputs st 0 names
    pure (sub, st)

def compileStmts (block : Nat) : CState → List AStmt → Except StmtErr (List Tree × CState)
  | st, [] => .ok ([], st)
  | st, s :: ss => do
    let (t, st1) ← compileStmt block st s
    let (ts, st2) ← compileStmts block st1 ss
    pure (t :: ts, st2)

/-- `NamedOutput.can_be_inlined` -/
def NamedOutput.canBeInlined (o : NamedOutput) : Bool :=
  o.sub.numOutputs == 1 &&
  (match o.refs with
   | [(Tree.reference _ _ amount, rb)] =>
     rb == o.defBlock &&
     (match amount with
      | .proportion none _ _ _ => true
      | .proportion (some v) _ _ _ => v.val == 1
      | .quantity q => match inferQuantity o.sub with
        | some iq => q.hasEqualValueTo iq
        | none => false)
   | _ => false)

/-- `list.remove(x)`: drop the first element equal to `x`; `none` is `ValueError` -/
def removeFirst (x : Tree) : List Tree → Option (List Tree)
  | [] => none
  | t :: ts => if Tree.beq t x then some ts else (removeFirst x ts).map (t :: ·)

def NamedOutput.substitute (old new : Tree) (o : NamedOutput) : NamedOutput :=
  { o with
    sub := Tree.subst old new o.sub
    refs := o.refs.map fun (r, b) => (if !(Tree.beq old r) then Tree.subst old new r else r, b) }

/-- one iteration of the inlining loop for the table entry at position `i` -/
def foldStep (i : Nat) (blocks : List Block) (outs : List NamedOutput) : Except String (List Block × List NamedOutput) :=
  match outs[i]? with
  | none => .ok (blocks, outs)
  | some o =>
    if !o.canBeInlined then .ok (blocks, outs)
    else
      match o.sub, o.refs with
      | .sub body _ _, (ref, _) :: _ =>
        let toInline := if o.unwrap then body else o.sub
        match blocks[o.defBlock]? with
        | none => .error "IndexError"
        | some trees =>
          match removeFirst o.sub trees with
          | none => .error "ValueError"
          | some trees' =>
            let blocks := blocks.set o.defBlock trees'
            let blocks := blocks.map (Tree.substList ref toInline)
            .ok (blocks, outs.map (NamedOutput.substitute ref toInline))
      | _, _ => .error "AttributeError"

def foldAll : Nat → Nat → List Block → List NamedOutput → Except String (List Block × List NamedOutput)
  | 0, _, blocks, outs => .ok (blocks, outs)
  | n + 1, i, blocks, outs => do
    let (blocks, outs) ← foldStep i blocks outs
    foldAll n (i + 1) blocks outs

/-- parse every block first (the first failing block decides), as `compile` does -/
def parseAll : Nat → List Str → Except CompileResult (List (List AStmt))
  | _, [] => .ok []
  | i, s :: ss =>
    match parse s with
    | .ok stmts => do let rest ← parseAll (i + 1) ss; pure (stmts :: rest)
    | .syntaxError => .error (.syntaxError i)
    | .zeroDivision => .error (.zeroDivision i)

def compileBlocks : Nat → CState → List (List AStmt) → Except CompileResult (List Block × CState)
  | _, st, [] => .ok ([], st)
  | i, st, b :: bs =>
    match compileStmts i st b with
    | .error (.redefined off) => .error (.redefined i off)
    | .error (.proportion off) => .error (.proportion i off)
    | .error (.internal why) => .error (.internal why)
    | .ok (trees, st1) => do
      let (rest, st2) ← compileBlocks (i + 1) st1 bs
      pure (trees :: rest, st2)

/-- the tree-level compilation without inlining (`elab`) -/
def elabBlocks (sources : List Str) : Except CompileResult (List Block × CState) := do
  let asts ← parseAll 0 sources
  compileBlocks 0 {} asts

/-- `compile(sources)` -/
def compile (sources : List Str) : CompileResult :=
  match elabBlocks sources with
  | .error e => e
  | .ok (blocks, st) =>
    match foldAll st.outputs.length 0 blocks st.outputs with
    | .error why => .internal why
    | .ok (blocks, _) =>
      if checkBlocks [] blocks then .ok blocks else .internal "ReferenceToInvalidSubRecipeError"

def CompileResult.toSexp (sources : List Str) : CompileResult → Sexp
  | .ok bs => Sexp.tag "ok" [blocksToSexp bs]
  | .syntaxError b => Sexp.tag "syntax" [Sexp.ofNat b]
  | .zeroDivision b => Sexp.tag "zerodiv" [Sexp.ofNat b]
  | .internal why => Sexp.tag "internal" [Sexp.atom why]
  | .redefined b off =>
    let src := sources[b]?.getD []
    let (l, c) := offsetToLineCol src off
    Sexp.tag "redefined" [Sexp.ofNat b, Sexp.ofNat off, Sexp.ofNat l, Sexp.ofNat c, Sexp.ofOpt Sexp.ofStr (extractLine src l)]
  | .proportion b off =>
    let src := sources[b]?.getD []
    let (l, c) := offsetToLineCol src off
    Sexp.tag "proportion" [Sexp.ofNat b, Sexp.ofNat off, Sexp.ofNat l, Sexp.ofNat c, Sexp.ofOpt Sexp.ofStr (extractLine src l)]

end RG
