import RecipeGrid.Model.MdContainers
import RecipeGrid.Model.Compiler
import RecipeGrid.Model.ParserErr
/-! `compile_markdown`, from the document TEXT to what the caller sees (`recipe_grid/markdown.py`,
    `RecipeGridRendererMixin.render_document`, lines 536-553), for documents of the sub-language **D2** (`inDoc2`).

    After marko has parsed the document (`scanBlocks2`, the block scanner model compared exactly with marko), the renderer
    has collected the recipe blocks (indented blocks, fences tagged `recipe` / `new-recipe`) into independent recipes
    (`independent_recipe_source_blocks`: a `new-recipe` fence, or the first recipe block, starts a new one — `groupBlocks`).
    Then, group by group in document order, the padded sources (`get_line_number_corrected_source` — `paddedSource`) of the
    group's blocks are handed to `compile(sources)`; the first group whose compilation raises ends `compile_markdown`
    with that exception:

    * `peggie.ParseError` (`parser/__init__.py`, `grammar.prettify_parse_error`): `.line`, `.column` =
      `offset_to_line_and_column(source, furthest failure)`, `.snippet = extract_line(source, line)` — of the padded
      source of the block that fails to parse (`compile` parses all blocks of the group, in order, before compiling any);
    * `NameRedefinedError` / `ProportionGivenForIngredientError` (`compiler.py` lines 62-131): `line, column =
      offset_to_line_and_column(source, node.offset)`, `snippet = extract_line(source, line)` — of the padded source of the
      block that holds the offending node.

    What is not modelled: the rendering of everything that is not a recipe block (headings, prose, scaled value expressions in
    prose); it happens before any recipe is compiled and is assumed not to raise. -/
namespace RG

inductive MdOutcome where
  /-- `compile_markdown` returns; `n = len(result.recipes)` independent recipes -/
  | ok (n : Nat)
  /-- `peggie.ParseError` with `.line`, `.column`, `.snippet` -/
  | syntaxError (line col : Nat) (snippet : Str)
  /-- `NameRedefinedError` with `.line`, `.column`, `.snippet` -/
  | redefined (line col : Nat) (snippet : Str)
  /-- `ProportionGivenForIngredientError` with `.line`, `.column`, `.snippet` -/
  | proportion (line col : Nat) (snippet : Str)
  /-- any other exception (`ZeroDivisionError`, an internal error of the compiler, `IndexError` of `extract_line`):
      proved not to happen (`C07.mdCompile_documented_outcomes`) -/
  | undocumented (why : String)
  /-- the document is not in the sub-language **D2** (`inDoc2 doc = false`): no claim -/
  | outside
deriving Repr, DecidableEq

/-- the independent recipes of a document: the recipe blocks, grouped (`independent_recipe_source_blocks`) -/
def mdGroups (doc : Str) : List (List MdBlock) :=
  (groupBlocks ((scanBlocks2 doc).map (·.kind))).map fun g => g.filterMap fun i => (scanBlocks2 doc)[i]?

/-- the sources `render_document` hands to `compile` for one independent recipe -/
def mdGroupSources (doc : Str) (g : List MdBlock) : List Str :=
  g.map fun b => paddedSource doc b.pos b.kind.isFenced b.source

/-- the exception `compile(sources)` raises, as the caller sees it; `none` when it returns -/
def compileOutcome (srcs : List Str) : Option MdOutcome :=
  match compile srcs with
  | .ok _ => none
  | .syntaxError b =>
    let src := srcs[b]?.getD []
    (match parseE src with
     | .syntaxError off =>
       (match syntaxErrorSnippet src off with
        | some q => some (.syntaxError (syntaxErrorLineCol src off).1 (syntaxErrorLineCol src off).2 q)
        | none => some (.undocumented "IndexError"))
     | .ok _ => some (.undocumented "parse"))
  | .redefined b off =>
    let src := srcs[b]?.getD []
    (match extractLine src (offsetToLineCol src off).1 with
     | some q => some (.redefined (offsetToLineCol src off).1 (offsetToLineCol src off).2 q)
     | none => some (.undocumented "IndexError"))
  | .proportion b off =>
    let src := srcs[b]?.getD []
    (match extractLine src (offsetToLineCol src off).1 with
     | some q => some (.proportion (offsetToLineCol src off).1 (offsetToLineCol src off).2 q)
     | none => some (.undocumented "IndexError"))
  | .zeroDivision _ => some (.undocumented "ZeroDivisionError")
  | .internal why => some (.undocumented why)

/-- the loop of `render_document`: compile group after group, the first failure ends it; `n` groups are done -/
def mdRun (doc : Str) : List (List MdBlock) → Nat → MdOutcome
  | [], n => .ok n
  | g :: gs, n =>
    match compileOutcome (mdGroupSources doc g) with
    | some e => e
    | none => mdRun doc gs (n + 1)

/-- `compile_markdown(doc)` -/
def mdCompile (doc : Str) : MdOutcome :=
  if inDoc2 doc then mdRun doc (mdGroups doc) 0 else .outside

def MdOutcome.toSexp : MdOutcome → Sexp
  | .ok n => Sexp.tag "ok" [Sexp.ofNat n]
  | .syntaxError l c q => Sexp.tag "syntax" [Sexp.ofNat l, Sexp.ofNat c, Sexp.ofStr q]
  | .redefined l c q => Sexp.tag "redefined" [Sexp.ofNat l, Sexp.ofNat c, Sexp.ofStr q]
  | .proportion l c q => Sexp.tag "proportion" [Sexp.ofNat l, Sexp.ofNat c, Sexp.ofStr q]
  | .undocumented why => Sexp.tag "undocumented" [Sexp.atom why]
  | .outside => Sexp.atom "outside"

end RG
